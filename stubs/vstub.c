/* vstub: recording stub / stub tool chain / tracing wrapper.
 *
 * One record per process, appended with a single write() on an O_APPEND fd to
 * $VSTUB_LOG: a JSON object whose strings are lower-case hex of the raw bytes.
 *   {"pid":..,"ppid":..,"seq":<ns>,"name":"<hex argv0>","argv":[..],"cwd":"..","env":{..}}
 * Personality is chosen by basename(argv[0]):
 *   vdrv*           test driver: --own=K skips K own args, every further arg is
 *                   run with /bin/sh -c; exit = first non-zero status
 *   vcc* vc++* vfc* vclang*   stub compiler / linker driver
 *   var*            stub ar
 *   vwrap-<tool>    record, then execvp(<tool>) found on PATH minus own dir
 *   anything else   recorder: creates every path between --touch and --end
 * Environment recording: all variables unless $VSTUB_ENVKEYS (colon separated
 * list of names) is set, in which case only those.
 */
#define _GNU_SOURCE
#include <errno.h>
#include <fcntl.h>
#include <libgen.h>
#include <stdio.h>
#include <stdlib.h>
#include <string.h>
#include <sys/stat.h>
#include <sys/types.h>
#include <sys/wait.h>
#include <time.h>
#include <unistd.h>
#include <limits.h>

extern char **environ;

struct buf { char *p; size_t n, cap; };

static void bgrow(struct buf *b, size_t extra) {
    if (b->n + extra + 1 > b->cap) {
        size_t nc = b->cap ? b->cap * 2 : 4096;
        while (nc < b->n + extra + 1) nc *= 2;
        b->p = realloc(b->p, nc);
        if (!b->p) _exit(111);
        b->cap = nc;
    }
}
static void bputs(struct buf *b, const char *s) {
    size_t l = strlen(s); bgrow(b, l); memcpy(b->p + b->n, s, l); b->n += l;
}
static void bhex(struct buf *b, const char *s, size_t l) {
    static const char hx[] = "0123456789abcdef";
    bgrow(b, 2 * l + 2);
    b->p[b->n++] = '"';
    for (size_t i = 0; i < l; i++) {
        unsigned char c = (unsigned char)s[i];
        b->p[b->n++] = hx[c >> 4]; b->p[b->n++] = hx[c & 15];
    }
    b->p[b->n++] = '"';
}

static int want_env(const char *name, size_t nl) {
    const char *keys = getenv("VSTUB_ENVKEYS");
    if (!keys) return 1;
    while (*keys) {
        const char *e = strchr(keys, ':');
        size_t l = e ? (size_t)(e - keys) : strlen(keys);
        if (l == nl && memcmp(keys, name, nl) == 0) return 1;
        keys += l; if (*keys == ':') keys++;
    }
    return 0;
}

static void record(int argc, char **argv) {
    const char *log = getenv("VSTUB_LOG");
    if (!log || !*log) return;
    struct buf b = {0};
    char tmp[128], cwd[PATH_MAX];
    struct timespec ts; clock_gettime(CLOCK_MONOTONIC, &ts);
    snprintf(tmp, sizeof tmp, "{\"pid\":%ld,\"ppid\":%ld,\"seq\":%lld,\"name\":",
             (long)getpid(), (long)getppid(),
             (long long)ts.tv_sec * 1000000000LL + ts.tv_nsec);
    bputs(&b, tmp);
    bhex(&b, argv[0], strlen(argv[0]));
    bputs(&b, ",\"argv\":[");
    for (int i = 0; i < argc; i++) {
        if (i) bputs(&b, ",");
        bhex(&b, argv[i], strlen(argv[i]));
    }
    bputs(&b, "],\"cwd\":");
    if (!getcwd(cwd, sizeof cwd)) cwd[0] = 0;
    bhex(&b, cwd, strlen(cwd));
    bputs(&b, ",\"env\":{");
    int first = 1;
    for (char **e = environ; *e; e++) {
        char *eq = strchr(*e, '=');
        if (!eq) continue;
        size_t nl = (size_t)(eq - *e);
        if (!want_env(*e, nl)) continue;
        if (!first) bputs(&b, ",");
        first = 0;
        bhex(&b, *e, nl); bputs(&b, ":"); bhex(&b, eq + 1, strlen(eq + 1));
    }
    bputs(&b, "}}\n");
    int fd = open(log, O_WRONLY | O_APPEND | O_CREAT, 0644);
    if (fd < 0) { fprintf(stderr, "vstub: cannot open log %s: %s\n", log, strerror(errno)); _exit(112); }
    ssize_t w = write(fd, b.p, b.n);
    if (w != (ssize_t)b.n) _exit(113);
    close(fd);
    free(b.p);
}

static void mkparents(const char *path) {
    char *dup = strdup(path);
    for (char *p = dup + 1; *p; p++) {
        if (*p == '/') { *p = 0; mkdir(dup, 0777); *p = '/'; }
    }
    free(dup);
}

static unsigned long long counter_ns(void) {
    struct timespec ts; clock_gettime(CLOCK_REALTIME, &ts);
    return (unsigned long long)ts.tv_sec * 1000000000ULL + ts.tv_nsec;
}

static int create_file(const char *path, const char *note) {
    mkparents(path);
    /* unlink first: outputs may be hard links / symlinks from an earlier step */
    struct stat st;
    if (lstat(path, &st) == 0 && (S_ISLNK(st.st_mode) || st.st_nlink > 1)) unlink(path);
    int fd = open(path, O_WRONLY | O_CREAT | O_TRUNC, 0755);
    if (fd < 0) { fprintf(stderr, "vstub: cannot create %s: %s\n", path, strerror(errno)); return 1; }
    char tmp[256];
    int n = snprintf(tmp, sizeof tmp, "vstub %s %llu\n", note, counter_ns());
    if (write(fd, tmp, n) != n) { close(fd); return 1; }
    close(fd);
    return 0;
}

static int starts(const char *s, const char *pre) { return strncmp(s, pre, strlen(pre)) == 0; }

static int exit_status(void) {
    const char *e = getenv("VSTUB_EXIT");
    return e ? atoi(e) : 0;
}

/* Fault injection: with VSTUB_FAIL_MATCH=<word> a step that has <word> among its arguments fails
 * (exit 1) after it was recorded and before it writes anything - a tool that dies. */
static int fail_requested(int argc, char **argv) {
    const char *m = getenv("VSTUB_FAIL_MATCH");
    if (!m || !*m) return 0;
    for (int i = 1; i < argc; i++)
        if (!strcmp(argv[i], m)) {
            fprintf(stderr, "vstub: injected failure (%s)\n", m);
            return 1;
        }
    return 0;
}

static int recorder(int argc, char **argv) {
    int touching = 0, rc = 0;
    for (int i = 1; i < argc; i++) {
        if (!touching && strcmp(argv[i], "--touch") == 0) { touching = 1; continue; }
        if (touching && strcmp(argv[i], "--end") == 0) { touching = 0; continue; }
        if (touching) rc |= create_file(argv[i], "rec");
    }
    const char *say = getenv("VSTUB_SAY");
    if (say) { fputs(say, stdout); fputc('\n', stdout); }
    return rc ? 1 : exit_status();
}

static int driver(int argc, char **argv) {
    int own = 0, i = 1, rc = 0;
    if (i < argc && starts(argv[i], "--own=")) { own = atoi(argv[i] + 6); i++; }
    i += own;
    for (; i < argc; i++) {
        pid_t pid = fork();
        if (pid == 0) { execl("/bin/sh", "sh", "-c", argv[i], (char *)0); _exit(127); }
        int st = 0;
        waitpid(pid, &st, 0);
        int code = WIFEXITED(st) ? WEXITSTATUS(st) : 128;
        if (code && !rc) rc = code;
    }
    return rc;
}

static int is_probe(int argc, char **argv) {
    for (int i = 1; i < argc; i++) {
        const char *a = argv[i];
        if (!strcmp(a, "-?") || !strcmp(a, "/?") || !strcmp(a, "-E") || !strcmp(a, "-v") ||
            starts(a, "-print-") || !strcmp(a, "-dumpmachine") ||
            !strcmp(a, "-Wl,--version") || !strcmp(a, "-dM"))
            return 1;
    }
    return 0;
}

/* Like the real tools: an argument that starts with '-' is an option, never an input file.  If
 * such an argument names an existing file, the generator passed a file name where the tool will
 * read an option (the input is lost) - fail the step as cc / ar would. */
static int dash_file_argument(int argc, char **argv, int first) {
    struct stat st;
    for (int i = first; i < argc; i++) {
        if (i > 1 && !strcmp(argv[i - 1], "-o")) continue;      /* -o takes any next word */
        if (i > 1 && !strcmp(argv[i - 1], "-MF")) continue;
        if (argv[i][0] == '-' && argv[i][1] && stat(argv[i], &st) == 0 && S_ISREG(st.st_mode)) {
            fprintf(stderr, "vstub: existing file '%s' was passed where the tool reads an option\n",
                    argv[i]);
            return 1;
        }
    }
    return 0;
}

static int ccstub(int argc, char **argv, const char *base) {
    for (int i = 1; i < argc; i++) {
        if (!strcmp(argv[i], "--version")) {
            if (starts(base, "vclang"))
                puts("clang version 14.0.6\nTarget: x86_64-pc-linux-gnu");
            else
                puts("vcc (GCC) 12.2.0\nCopyright (C) 2022 Free Software Foundation, Inc.");
            return 0;
        }
    }
    /* a real step always names its output; only bare probes are refused (a
     * hostile *option* such as -? or -v must not be mistaken for a probe) */
    int has_out = 0;
    for (int i = 1; i + 1 < argc; i++) if (!strcmp(argv[i], "-o")) has_out = 1;
    if (!has_out && is_probe(argc, argv)) return 1;
    record(argc, argv);
    if (fail_requested(argc, argv)) return 1;
    if (dash_file_argument(argc, argv, 1)) return 1;
    const char *out = NULL, *mf = NULL;
    struct buf ins = {0};
    for (int i = 1; i < argc; i++) {
        const char *a = argv[i];
        if (!strcmp(a, "-o") && i + 1 < argc) { out = argv[++i]; continue; }
        if (!strcmp(a, "-MF") && i + 1 < argc) { mf = argv[++i]; continue; }
        if ((!strcmp(a, "-x") || !strcmp(a, "-include") || !strcmp(a, "-MT") || !strcmp(a, "-MQ") ||
             !strcmp(a, "-I") || !strcmp(a, "-L") || !strcmp(a, "-isystem") || !strcmp(a, "-D") ||
             !strcmp(a, "-Xlinker") || !strcmp(a, "-target") || !strcmp(a, "-framework") ||
             !strcmp(a, "-install_name") || !strcmp(a, "-l")) && i + 1 < argc) { i++; continue; }
        if (a[0] == '-') continue;
        /* an input operand: only sources matter for the depfile */
        size_t l = strlen(a);
        if (l > 2 && (!strcmp(a + l - 2, ".c") || !strcmp(a + l - 2, ".h") ||
                      (l > 4 && (!strcmp(a + l - 4, ".cpp") || !strcmp(a + l - 4, ".hpp"))) ||
                      (l > 4 && !strcmp(a + l - 4, ".f90")) || !strcmp(a + l - 2, ".f"))) {
            if (!ins.n) { bputs(&ins, a); }
        }
    }
    int rc = 0;
    if (out) rc |= create_file(out, "cc");
    if (mf) {
        /* a depfile as gcc writes it, naming just the source (header tracking is the
         * real compilers' business, C07): "out: src" with gcc's escaping of ' ', '#', '$' */
        mkparents(mf);
        FILE *df = fopen(mf, "w");
        if (df) {
            if (out && ins.n && getenv("VSTUB_REAL_DEPFILE")) {
                const char *parts[2] = {out, ins.p};
                size_t lens[2] = {strlen(out), ins.n};     /* ins is not NUL-terminated */
                for (int k = 0; k < 2; k++) {
                    for (const char *c = parts[k]; c < parts[k] + lens[k]; c++) {
                        if (*c == ' ' || *c == '#' || *c == '\t') fputc('\\', df);
                        if (*c == '$') fputc('$', df);
                        fputc(*c, df);
                    }
                    fputs(k == 0 ? ": " : "\n", df);
                }
            }
            fclose(df);
        } else rc = 1;
    }
    free(ins.p);
    return rc ? 1 : exit_status();
}

static int arstub(int argc, char **argv) {
    record(argc, argv);
    if (fail_requested(argc, argv)) return 1;
    /* ar <flags> <archive> members... */
    if (argc >= 3 && dash_file_argument(argc, argv, 3)) return 1;
    if (argc >= 3) return create_file(argv[2], "ar") ? 1 : exit_status();
    return 1;
}

static int wrapper(int argc, char **argv, const char *base) {
    (void)argc;
    record(argc, argv);
    const char *tool = base + strlen("vwrap-");
    /* strip our own directory from PATH */
    char self[PATH_MAX];
    ssize_t n = readlink("/proc/self/exe", self, sizeof self - 1);
    const char *path = getenv("PATH");
    char owndir[PATH_MAX] = "";
    /* directory of argv[0] as found: search PATH for the entry that holds base */
    if (strchr(argv[0], '/')) {
        char *d = strdup(argv[0]); strncpy(owndir, dirname(d), sizeof owndir - 1); free(d);
    }
    (void)n; (void)self;
    struct buf np = {0};
    if (path) {
        char *dup = strdup(path), *save = NULL;
        for (char *tok = strtok_r(dup, ":", &save); tok; tok = strtok_r(NULL, ":", &save)) {
            char cand[PATH_MAX];
            snprintf(cand, sizeof cand, "%s/%s", tok, base);
            if (access(cand, X_OK) == 0) continue;      /* a dir that holds this wrapper */
            if (owndir[0] && !strcmp(tok, owndir)) continue;
            if (np.n) bputs(&np, ":");
            bputs(&np, tok);
        }
        free(dup);
    }
    bgrow(&np, 1); np.p[np.n] = 0;
    setenv("PATH", np.p, 1);
    argv[0] = (char *)tool;
    execvp(tool, argv);
    fprintf(stderr, "vstub: cannot exec %s: %s\n", tool, strerror(errno));
    return 127;
}

int main(int argc, char **argv) {
    char *dup = strdup(argv[0]);
    const char *base = basename(dup);
    const char *force = getenv("VSTUB_PERSONALITY");   /* for self-tests */
    if (force && *force) base = force;
    if (starts(base, "vwrap-")) return wrapper(argc, argv, base);
    if (starts(base, "vcc") || starts(base, "vc++") || starts(base, "vfc") || starts(base, "vclang"))
        return ccstub(argc, argv, base);
    if (starts(base, "var")) return arstub(argc, argv);
    record(argc, argv);
    if (fail_requested(argc, argv)) return 1;
    if (starts(base, "vdrv")) return driver(argc, argv);
    return recorder(argc, argv);
}
