"""C18 - The source distribution contains everything the build reads from srcdir.

Workload: dag specs (vf/gen/dag.py) extended by vf/gen/c18gen.py with every
builtin that creates a source-tree file object (each with and without
dist=False), find_files/find_paths variants (extra=, exclude=, filters that
divert entries to the distribution only, dist=False, cache=, file_type=,
patterns rooted in the build directory), directory/header_directory with
include=, extra_dist(files=, dirs=), submodules (nested, each with its own
build.bfg, some with an options.bfg), options.bfg, project names/versions and
unmentioned junk files.

Observation: the REAL dist targets of the generated build file are run with the
real doppel (`dist-zip` on the freshly configured tree, `dist`/`dist-gzip` and
`dist-bzip2` after everything was built, so that build products exist); members
are listed with tarfile/zipfile.  Oracle: the generator's own model
(vf/ref/c18ref.py) - required files present, dist=False files absent,
unmentioned files absent, nothing that is not a source-tree file, one top-level
directory `name[-version]`, contents byte-identical.  Then the archive is
unpacked elsewhere, configured with the same options and back end and built with
the stub tool chain: same steps (and same argv modulo the two roots) for the
default target, `everything` and `c18all`.  Finally new files are dropped into
directories that cached find_files()/include= searches cover and `dist-zip` is
run again: the build files regenerate and the archive must follow the model of
the new tree (mechanisms of this phase end in 'after-regeneration').
"""
import io
import os
import posixpath
import tarfile
import zipfile

from .. import core, proj
from ..core import CaseResult
from ..gen import c18gen, dag, dagrun
from ..ref import c18ref

LEVEL = 'exploration'
MODE = 'thread'
RULE = ('seeded random dag specs x c18gen extensions (1-4 script scopes: main + submodules incl. '
        'nested and two-component paths; per scope 1-6 single file objects over 12 file-creating '
        'builtins, 0-2 directory()/header_directory()/auto_file(dir) items with include=, 0-3 '
        'find_files/find_paths calls over generated sub-trees with extra=/exclude=/filter=/type=/'
        'cache=/file_type=/dist=, build-dir rooted Path objects and patterns, extra_dist, steps '
        'that consume the objects and plain-string references, ~30 % of all markers dist=False, '
        'options.bfg hierarchy, project()/no project(), junk files; build-directory layouts: separate, '
        'nested <src>/build with sources named build_aux/.. buildtools/.. build.cfg build-data/.. and a '
        'whole-tree ** search excluding build/, sibling directories whose paths are string prefixes of '
        'each other; absolute strings / Path(.., Root.absolute) naming files outside the source tree in '
        'extra_deps= of 5 builtins, extra_compile_deps=, alias deps, build_step files=, generic_file) '
        'x back end x 3 archive formats '
        '(zip on the fresh tree, gzip via dist or dist-gzip and bzip2 after building everything, zip '
        'again after files were added to searched directories); '
        'distinct = (dag shape, back end, set of (builtin, dist flag) pairs used); non-trivial = '
        'at least one dist=False marker and one find/include item and one submodule or options file')
ASSUMPTIONS = [
    'expected member set computed by vf/ref/c18ref.py from the documented glob/extra/exclude/'
    'filter rules only; where the documentation is silent (extra= matches below a single-level '
    'pattern, nested content of extra_dist(dirs=), files matching both exclude and extra, files '
    'marked both ways) the file is counted as "optional" and never judged',
    'empty directory members are accepted for directories the script mentions with dist=True or '
    'that are ancestors of a required file (doppel archives a Directory object as a bare entry)',
    'tarfile/zipfile (CPython) list and extract what doppel wrote',
    'Ninja half executed by vf/ref/refninja.py',
    'dag-read files marked dist=False: the rebuild comparison is restricted to the steps that '
    'do not depend on them (the property\'s own exception), counted as restricted-rebuilds',
]
# the dag features this module's reference walker (c18gen.dag_refs) knows how to read
DAG_FEATURES = ['hdrs', 'steps', 'multi', 'gensrc', 'copy', 'alias', 'cmd', 'test', 'extra',
                'default', 'install', 'always', 'subdirs', 'shared', 'implicit', 'pch']
FORMATS = {'dist-zip': ('.zip', 'zip'), 'dist': ('.tar.gz', 'gz'), 'dist-gzip': ('.tar.gz', 'gz'),
           'dist-bzip2': ('.tar.bz2', 'bz2')}


def floors(tier):
    return {'archives-listed': 50, 'members-checked': 800, 'required-present': 600,
            'nodist-absent': 60, 'unmentioned-absent': 60, 'contents-compared': 600,
            'rebuild-configured': 15, 'rebuild-targets-compared': 45,
            'rebuild-steps-compared': 200, 'submodule-scripts-required': 15,
            'late-additions:required': 10, 'nested-builddir-files-absent': 50,
            'outside-files-absent': 100,
            'distinct_nontrivial': 10}


def cases(tier, seed):
    n = 25 if tier == 'quick' else 400
    for i in range(n):
        rng = core.rng_for(seed, 'c18', i)
        spec = dag.gen_spec(rng, size=rng.randint(3, 14), features=set(DAG_FEATURES))
        # (dist= stays what the generator chose: it knows which results the build consumes)
        force = [None, {'cache': False, 'extra': ['*.h']},
                 {'cache': False, 'filter': 'platform'},
                 {'cache': False, 'extra': ['*.h', '*.txt']},
                 {'cache': True, 'extra': ['*.h'], 'repeat': True}][(i + seed) % 5]
        ext = c18gen.gen_ext(rng, spec, force)
        yield {'spec': spec, 'ext': ext, 'backend': ('make', 'ninja')[i % 2], 'index': i,
               'gzip_target': rng.choice(['dist', 'dist-gzip'])}


# --------------------------------------------------------------------------

class P18(dagrun.Project):
    """dagrun.Project whose tree/model come from c18gen."""

    def __init__(self, case, root, src, tag):
        ext = case['ext']
        super().__init__(case['spec'], case['backend'], root=root, conf_args=ext['conf_args'])
        self.src = src
        self.bld = c18gen.build_dir(ext, src)
        self.outside = os.path.join(os.path.dirname(root), 'outside')
        self.log = os.path.join(root, 'log-' + tag)
        self.env['VSTUB_LOG'] = self.log
        # stub transpilers (create the -o file, record): lex and Qt's rcc
        self.env.update({'LEX': 'vcc', 'RCC': 'vcc'})
        self.model = c18gen.ExtModel(case['spec'], ext)
        self.ext = ext

    def prepare_builddir(self):
        proj.write_tree(self.bld, self.ext['bld_files'])


def list_archive(path, fmt):
    """-> ({name: bytes} for files, set(dir names), [odd members])"""
    files, dirs, odd = {}, set(), []
    if fmt == 'zip':
        with zipfile.ZipFile(path) as z:
            for info in z.infolist():
                n = info.filename
                if n.endswith('/'):
                    dirs.add(n.rstrip('/'))
                else:
                    if n in files:
                        odd.append(('duplicate', n))
                    files[n] = z.read(info)
    else:
        with tarfile.open(path, 'r:' + fmt) as t:
            for m in t.getmembers():
                n = m.name.rstrip('/')
                if m.isdir():
                    dirs.add(n)
                elif m.isreg():
                    if n in files:
                        odd.append(('duplicate', n))
                    files[n] = t.extractfile(m).read()
                else:
                    odd.append((m.type.decode('ascii', 'replace'), n))
    return files, dirs, odd


def unpack(path, fmt, dest):
    os.makedirs(dest, exist_ok=True)
    if fmt == 'zip':
        with zipfile.ZipFile(path) as z:
            z.extractall(dest)
    else:
        with tarfile.open(path, 'r:' + fmt) as t:
            try:
                t.extractall(dest, filter='data')
            except TypeError:
                t.extractall(dest)


def walk_files(root):
    out = set()
    for d, ds, fs in os.walk(root):
        for n in fs:
            out.add(os.path.relpath(os.path.join(d, n), root))
    return out


def check_archive(res, wb, target, fmt, apath, top, tree, model, p):
    req, nod, opt, dirs_ok, dnod, mixed = model
    try:
        files, dirs, odd = list_archive(apath, fmt)
    except Exception as e:   # noqa: a corrupt archive is a finding about the dist target
        res.violate(('archive-unreadable', target), dict(wb, target=target, error=repr(e)))
        return None
    res.ev('archives-listed')
    res.classes.add('format:' + target)
    w = dict(wb, target=target)
    for kind, n in odd:
        res.violate(('odd-member', kind), dict(w, member=n))
    # one documented top-level directory
    pre = top + '/'
    outside = sorted(n for n in list(files) + list(dirs) if not n.startswith(pre) and n != top)
    outdir = p.outside if p.ext.get('outside') else None
    alien = [n for n in outside if outdir and
             ('/' + n.lstrip('/')).startswith(outdir + '/') and
             os.path.isfile('/' + n.lstrip('/'))]
    for n in alien:
        # a file from outside the source tree (named by an absolute path in the script)
        res.violate(('member-from-outside-srcdir',), dict(w, member=n, expected_top=top))
        files.pop(n, None)
    outside = [n for n in outside if n not in alien]
    if outdir:
        res.ev('outside-files-absent', len(p.ext['outside']) - len(alien))
        res.classes.update('outside-ref:' + i['form'] for i in p.ext['items'] if i['k'] == 'out')
    if alien:
        outside = [n for n in outside if not (outdir + '/').startswith('/' + n.strip('/') + '/')]
    if outside:
        res.violate(('wrong-top-level-dir',), dict(w, expected_top=top, members=outside[:8]))
        return None
    got = {posixpath.normpath(n[len(pre):]): data for n, data in files.items()}
    # (the top directory itself may be a member: includes=[header_file('h0.h')]
    # mentions the source root as an include directory)
    gotdirs = {posixpath.normpath(n[len(pre):]) for n in dirs if n != top} - {'.'}
    bld_names = None
    for name in sorted(got):
        res.ev('members-checked')
        if name in req or name in opt:
            continue
        if name in nod:
            res.violate(('dist-false-present', nod[name]),
                        dict(w, member=name, marked_by=nod[name]))
        elif name in tree:
            res.violate(('member-unmentioned',), dict(w, member=name))
        else:
            if bld_names is None:
                bld_names = walk_files(p.bld)
            real = os.path.normpath(os.path.join(p.src, name))
            if name in bld_names or name in p.ext['bld_files'] or \
               real.startswith(p.bld + os.sep):
                res.violate(('member-from-builddir',), dict(w, member=name))
            else:
                res.violate(('member-not-in-srcdir',), dict(w, member=name))
    for name, why in sorted(req.items()):
        if name in got:
            res.ev('required-present')
            res.classes.add('required:' + why)
            if why.startswith('script:submodule'):
                res.ev('submodule-scripts-required')
        else:
            res.violate(('member-missing', why),
                        dict(w, member=name, mentioned_by=why,
                             layout=p.ext.get('layout', 'separate'),
                             builddir_path_is_string_prefix_of_member=os.path.join(
                                 p.src, name).startswith(p.bld)))
    for name, why in nod.items():
        if name not in got:
            res.ev('nodist-absent')
            res.classes.add('nodist:' + why)
    for name in tree:
        if name not in req and name not in opt and name not in nod and name not in got:
            res.ev('unmentioned-absent')
    for name in sorted(opt):
        res.ev('optional-present' if name in got else 'optional-absent')
    if p.ext.get('layout') == 'nested':
        # the build directory is inside the source tree: its content stays out
        inside = os.path.relpath(p.bld, p.src)
        for name in walk_files(p.bld):
            if posixpath.join(inside, name) not in got:
                res.ev('nested-builddir-files-absent')
    # contents
    for name, data in got.items():
        if name in tree:
            res.ev('contents-compared')
            try:
                with open(os.path.join(p.src, name), 'rb') as f:
                    want = f.read()
            except OSError:
                want = None
            if want != data:
                res.violate(('member-content-differs',), dict(w, member=name))
    # directory members
    for d in sorted(gotdirs):
        res.ev('dir-members-seen')
        if d in dirs_ok:
            continue
        if d in dnod:
            res.violate(('dist-false-present', dnod[d] + ':dir'),
                        dict(w, member=d + '/', marked_by=dnod[d]))
        elif os.path.isdir(os.path.join(p.src, d)):
            res.violate(('member-unmentioned', 'dir'), dict(w, member=d + '/'))
        else:
            res.violate(('member-not-in-srcdir', 'dir'), dict(w, member=d + '/'))
    for d in dnod:
        if d not in gotdirs:
            res.ev('nodist-absent')
    return got


def norm_argv(rec, p):
    out = []
    pairs = sorted([(p.src, '@S'), (p.bld, '@B')], key=lambda x: -len(x[0]))
    for a in rec['argv']:
        for path, sym in pairs:
            a = a.replace(path, sym)
        out.append(a)
    return out, os.path.relpath(rec['cwd'], p.bld)


def by_step(p, recs):
    d, unknown = {}, []
    for r in recs:
        if r['argv'][-1:] == ['--list'] and r['argv'][-2].endswith('.qrc'):
            continue   # bfg9000-rccdep's dependency-listing pass of (the stub) rcc
        s, u = p.classify([r])
        if s:
            d.setdefault(s[0], []).append(r)
        unknown += u
    return d, unknown


def late_additions(ext, tree):
    """Files to create after the first configuration: one that a cached
    find_files()/include= search includes and one that its extra= catches, chosen
    with the reference matcher.  -> {path: content}"""
    add = {}
    n = 0
    for it in ext['items']:
        if n >= 2:
            break
        if it['k'] == 'find':
            pats, type_ = it['patterns'], it['type']
        elif it['k'] == 'dir' and it['include']:
            pats = [it['path'] + '/' + g for g in it['include']]
            type_ = '*' if it['fn'] == 'directory' else 'f'
        else:
            continue
        if it.get('cache') is False:
            continue
        sc = it['scope']
        base = sc + '/'.join(c18ref.split_pattern(pats[0])[0])
        if base and not any(f.startswith(base + '/') for f in tree):
            # a search whose base directory does not exist watches nothing, so nothing
            # regenerates when it appears (C08's business, not the archive's)
            continue
        want = {'include', 'extra'} if it.get('extra') else {'include'}
        for d in ('', 'n1/', 'q/n2/'):
            for name in ('c18new.c', 'c18new.h', 'c18new.txt', 'c18new.md'):
                cand = (base + '/' if base else '') + d + name
                if not want or cand in tree or cand in add:
                    continue
                fm = c18ref.FindModel(list(tree) + list(add) + [cand], [sc + q for q in pats],
                                      type_, it.get('extra'), it.get('exclude'),
                                      it.get('filter'))
                why = fm.required.get(cand)
                if why in want:
                    add[cand] = 'added after configuration: %s\n' % cand
                    want.discard(why)
        if 'include' not in want:
            n += 1
    return add


def run_case(case):
    res = CaseResult()
    spec, ext, backend = case['spec'], case['ext'], case['backend']
    root = core.mkscratch('c18')
    wb = {'backend': backend, 'index': case.get('index')}
    try:
        outside = os.path.join(root, 'outside')
        if ext.get('outside'):
            proj.write_tree(outside, ext['outside'])
        tree = {k: v.replace(c18gen.OUT, outside) if isinstance(v, str) else v
                for k, v in c18gen.render(spec, ext).items()}
        a = P18(case, os.path.join(root, 'a'), os.path.join(root, 'a', ext['srcname']), 'a')
        proj.write_tree(a.src, tree)
        a.prepare_builddir()
        model = c18gen.dist_model(spec, ext, tree)
        req, nod, opt, dirs_ok, dnod, mixed = model
        if mixed:
            res.exclude('file marked dist=False by one object and distributed by another', mixed)
        if opt:
            res.exclude('membership the documentation does not decide (optional)', len(opt))
        top = c18gen.top_dir(ext)
        used = sorted({'%s:%s' % (i.get('fn', i['k']), i.get('dist', True)) for i in ext['items']})
        has_find = any(i['k'] == 'find' or (i['k'] == 'dir' and i['include'])
                       for i in ext['items'])
        res.key([dag.Model(spec).shape(), backend, used],
                bool(nod or dnod) and has_find and (len(ext['scopes']) > 1 or ext['options']))
        res.evaluations = 0
        res.classes.update('item:' + u for u in used)
        res.classes.add('scopes:%d' % len(ext['scopes']))
        res.classes.add('layout:' + ext.get('layout', 'separate'))
        res.sample = {'backend': backend, 'top': top, 'scopes': ext['scopes'],
                      'required': len(req), 'nodist': len(nod), 'optional': len(opt),
                      'build.bfg': tree['build.bfg'][-1800:]}

        rc, out = a.configure()
        if rc != 0:
            res.violate((backend, 'configure-failed'), dict(wb, output=out[-1500:]))
            return res

        archives = {}

        def dist(target, tree, model, phase):
            rc, out = proj.build(a.bld, backend, [target], env=a.env)
            suffix, fmt = FORMATS[target]
            apath = os.path.join(a.bld, top + suffix)
            res.evaluations += 1
            w = dict(wb, phase=phase)
            if rc != 0 or not os.path.exists(apath):
                res.violate(('dist-target-failed', target),
                            dict(w, target=target, rc=rc, output=out[-1200:],
                                 archive_exists=os.path.exists(apath)))
                return
            got = check_archive(res, w, target, fmt, apath, top, tree, model, a)
            if got is not None:
                archives[target] = (apath, fmt)

        # 1. fresh tree
        dist('dist-zip', tree, model, 'fresh')
        # 2. build everything, then the other formats (build products now exist)
        orig = {}
        for tgt in ([], ['everything'], ['c18all']):
            rc, out, recs = a.build(tgt)
            name = tgt[0] if tgt else 'default'
            if rc != 0:
                res.violate((backend, 'original-build-failed', name),
                            dict(wb, target=name, output=out[-1500:]))
                return res
            orig[name] = by_step(a, recs)
            if orig[name][1]:
                res.violate((backend, 'unmodelled-step'), dict(wb, unknown=orig[name][1][:4]))
        dist(case['gzip_target'], tree, model, 'built')
        dist('dist-bzip2', tree, model, 'built')

        # 3. unpack, configure, build, compare
        rebuild(res, case, wb, root, a, orig, archives, top)

        # 4. new files appear in searched directories: the build files regenerate
        # (cache=True is the default) and the next archive follows
        if case.get('late_add', True):
            add = late_additions(ext, tree)
            if add:
                proj.settle()
                proj.write_tree(a.src, add)
                tree2 = dict(tree)
                tree2.update(add)
                model2 = c18gen.dist_model(spec, ext, tree2)
                before = len(res.violations)
                dist('dist-zip', tree2, model2, 'after-adding-files')
                res.ev('late-additions', len(add))
                for name in add:
                    if name in model2[0]:
                        res.ev('late-additions:required')
                    elif name in model2[1]:
                        res.ev('late-additions:nodist')
                # same member checks, but a finding here is about the regeneration path
                # (and only when the same member was not already reported before)
                seen = {(mech, wit.get('member')) for mech, wit in res.violations[:before]}
                new = [(mech + ('after-regeneration',), dict(wit, added_files=sorted(add)))
                       for mech, wit in res.violations[before:]
                       if (mech, wit.get('member')) not in seen]
                res.violations[before:] = new
        return res
    finally:
        core.rmtree(root)


def rebuild(res, case, wb, root, a, orig, archives, top):
    spec, ext, backend = case['spec'], case['ext'], case['backend']
    m = a.model
    # (pointless when the archive already lacks files the model requires: every
    # consequence would be reported again)
    if any(mech[0] == 'member-missing' for mech, _ in res.violations):
        res.ev('rebuild-skipped:members-missing')
        return
    pick = case['gzip_target'] if case['gzip_target'] in archives else \
        next(iter(archives), None)
    if pick is None:
        return
    apath, fmt = archives[pick]
    broot = os.path.join(root, 'b')
    unpack(apath, fmt, os.path.join(broot, 'unp'))
    b = P18(case, broot, os.path.join(broot, 'unp', top), 'b')
    b.prepare_builddir()
    rc, out = b.configure()
    res.evaluations += 1
    if rc != 0:
        res.violate(('rebuild', 'configure-failed'), dict(wb, output=out[-1500:]))
        return
    res.ev('rebuild-configured')
    lost = set()
    for f in ext.get('nodist_dag') or []:
        lost |= m.downstream('S:' + f)
    for it in ext['items']:
        if it['k'] == 'tsrc' and not it['dist']:
            lost |= m.downstream('S:' + it['scope'] + it['src'])
    if lost:
        res.ev('restricted-rebuilds')
    cum_want, cum_got = set(), set()
    for name in ('default', 'everything', 'c18all'):
        rc, out, recs = b.build([] if name == 'default' else [name])
        got, unknown = by_step(b, recs)
        if backend == 'ninja' and rc != 0 and 'still dirty after' in out:
            # Ninja re-runs `bfg9000 regenerate` for ever: the regenerate rule names
            # depfile .bfg_find_deps, which bfg9000 only writes when a find_files()
            # call saw at least one directory - and in the unpacked archive the
            # searched directories (nothing in them is distributed) do not exist
            absent = set()
            for i in ext['items']:
                pats = i['patterns'] if i['k'] == 'find' else \
                    [i['path'] + '/' + g for g in i['include']] \
                    if i['k'] == 'dir' and i['include'] else []
                for pt in pats:
                    d = i['scope'] + '/'.join(c18ref.split_pattern(pt)[0])
                    if not os.path.isdir(os.path.join(b.src, d)):
                        absent.add(d)
            res.violate(('rebuild', 'ninja-manifest-never-clean',
                         'find-dir-absent' if absent else 'other'),
                        dict(wb, target=name, find_dirs_not_in_archive=sorted(absent),
                             depfile_exists=os.path.exists(
                                 os.path.join(b.bld, '.bfg_find_deps')),
                             output=out[-400:]))
            break
        res.ev('rebuild-targets-compared')
        res.evaluations += 1
        w = dict(wb, target=name)
        if not lost:
            want, have = set(orig[name][0]), set(got)
            ok = want == have
            if rc != 0:
                res.violate(('rebuild', 'build-failed'), dict(w, output=out[-1500:]))
        else:
            # a dag-read file is (legitimately) not distributed: the steps that need
            # it cannot run.  Make (-k) builds everything else; Ninja refuses a
            # target one of whose sources is missing, so steps may move to a later
            # target or not run at all.  Compared cumulatively, exit status not judged.
            cum_want |= set(orig[name][0]) - lost
            cum_got |= set(got)
            want, have = cum_want, cum_got
            ok = have == want if backend == 'make' else have <= want
            ext_steps = {s for s, st in m.steps.items() if st['node'] >= 1000}
            if ok and name == 'c18all' and not (lost & ext_steps):
                # the extension's own steps do not depend on dag files (and Ninja only
                # refuses c18all when one of its own sources is not distributed)
                ok = ext_steps & cum_want <= have
        if not ok:
            missing, spurious = sorted(want - have), sorted(have - want)
            kinds = sorted({m.steps[s]['kind'] for s in missing + spurious if s in m.steps})
            res.violate(('rebuild', 'steps-differ',
                         'missing' if missing and not spurious else
                         'spurious' if spurious and not missing else 'both'),
                        dict(w, missing=missing, spurious=spurious, restricted=bool(lost),
                             kinds=kinds, output=out[-1200:]))
        if unknown:
            res.violate(('rebuild', 'unmodelled-step'), dict(w, unknown=unknown[:4]))
        for sid in sorted(set(orig[name][0]) & set(got)):
            ra, rb = orig[name][0][sid][0], got[sid][0]
            va, ca = norm_argv(ra, a)
            vb, cb = norm_argv(rb, b)
            res.ev('rebuild-steps-compared')
            if sid in m.find_fed:
                va, vb = sorted(va), sorted(vb)
            if va != vb or ca != cb:
                res.violate(('rebuild', 'argv-differs', m.steps[sid]['kind']),
                            dict(w, step=sid, original=va, rebuilt=vb, cwd=[ca, cb]))
