"""C08 - Automatic regeneration equals a fresh configure, and converges."""
import hashlib
import json
import os
import shutil

from .. import core, proj
from ..core import CaseResult

LEVEL = 'exploration'
MODE = 'thread'
RULE = ('generated projects using find_files (include/extra/exclude/filter/cache variants), '
        'directory(), header_directory(include=...), pkg_config() (=> multi-output regenerate '
        'rule), submodules, options.bfg and a toolchain file; seeded histories of 5-12 edits (edit '
        'build.bfg / options.bfg / submodule script / toolchain file, add / remove / rename files '
        'and directories that do or do not match a pattern, touch-only, create options.bfg, drop a '
        'submodule) each followed by a run of the back end itself (make / reference ninja, stub '
        'tool chain); after every step the primary build files are byte-compared with a FRESH '
        'configure of the same tree with the same saved configuration at the same absolute build '
        'path, and the back end is run again (the out-of-tree tracer must then see no bfg9000 '
        'process); distinct = (backend, project features, edit kind); non-trivial = the edit '
        'changes what a fresh configure writes, or changes a watched directory')
ASSUMPTIONS = [
    'a fresh configure replays the recorded configure command line and environment verbatim',
    'every edit gets an mtime strictly newer than every build output (verified by stat)',
    'edits that change only the result of a cache=False search are accompanied by a build.bfg touch',
    'find_exclude is always set explicitly',
    'Ninja half: vf/ref/refninja.py',
]
PRIMARY = {'make': 'Makefile', 'ninja': 'build.ninja'}


def floors(tier):
    return {'steps:compared-with-fresh': 60, 'steps:second-run-quiet': 60,
            'edits:changing-fresh-result': 15, 'edits:watched-dir-only': 8,
            'distinct_nontrivial': 20}


# --------------------------------------------------------------------------
# project generation

def gen_project(rng, force=None):
    feats = {
        'pkgconf': rng.random() < 0.5,
        'submodule': rng.random() < 0.6,
        'options': rng.random() < 0.5,
        'toolchain': rng.random() < 0.3,
        'filter': rng.random() < 0.3,
        'extra': rng.random() < 0.5,
        'nocache': rng.random() < 0.2,
        'hdrdir': rng.random() < 0.6,
        'deepglob': rng.random() < 0.6,
        'dirobj': rng.random() < 0.3,
        # a second cached search whose filter is a function defined in build.bfg (not
        # serialisable into .bfg_find_cache) next to the serialisable ones
        'custfilter': rng.random() < 0.4,
        # the header directory is installed (so the files found in it are in the build file)
        # and possibly kept out of the source distribution
        'hdrinst': rng.random() < 0.6,
        'hdrnodist': rng.random() < 0.4,
        # a search whose literal base directory does not exist (yet)
        'missingbase': rng.choice([None, None, 'later', 'later/deep']),
    }
    feats.update(force or {})
    files = {}
    for i in range(rng.randint(1, 3)):
        files['src/s%d.c' % i] = 'int s%d;\n' % i
    files['src/main.c'] = 'int main(void){return 0;}\n'
    files['src/notes.md'] = 'notes\n'
    if feats['deepglob']:
        files['src/deep/d0.c'] = 'int d0;\n'
    files['include/a.h'] = '#define A 1\n'
    files['include/sub/b.h'] = '#define B 2\n'
    files['data/x.txt'] = 'x\n'
    files['data/y.dat'] = 'y\n'
    if feats['custfilter']:
        files['plugins/p0.c'] = 'int p0;\n'
        files['plugins/test_p0.c'] = 'int tp0;\n'
    return {'feats': feats, 'files': files, 'bfg': initial_bfg(feats), 'options': None,
            'sub_bfg': "copy_file('sub.out', 'sub.in')\n" if feats['submodule'] else None,
            'toolchain': ("compile_options(['-DTC=1'], 'c')\n" if feats['toolchain'] else None)}


def initial_bfg(feats, extra_lines=()):
    L = ["project('p', '1.0', find_exclude=['*~'])"]
    pat = "'src/**/*.c'" if feats['deepglob'] else "'src/*.c'"
    kw = ''
    if feats['extra']:
        kw += ", extra='*.md'"
    if feats['filter']:
        kw += ", filter=filter_by_platform"
    if feats['nocache']:
        kw += ", cache=False"
    L.append("srcs = find_files(%s%s)" % (pat, kw))
    inc = ''
    if feats['hdrdir']:
        L.append("hdrs = header_directory('include', include='**/*.h'%s)"
                 % (', dist=False' if feats.get('hdrnodist') else ''))
        if feats.get('hdrinst'):
            L.append("install(hdrs)")
        inc = ', includes=[hdrs]'
    L.append("prog = executable('prog', files=srcs%s)" % inc)
    L.append("data = find_files('data/*.txt')")
    L.append("copies = copy_files(data)")
    L.append("default(prog, copies)")
    if feats.get('missingbase'):
        L.append("late = find_files('%s/*.txt')" % feats['missingbase'])
        L.append("default(copy_files(late, directory='latecp'))")
    if feats['dirobj']:
        L.append("d = directory('data', include='*')")
    if feats.get('custfilter'):
        L[1:1] = ["def no_tests(path):",
                  "    if path.basename().startswith('test_'):",
                  "        return FindResult.exclude",
                  "    return FindResult.include"]
        L.append("plugins = find_files('plugins/*.c', filter=no_tests)")
        L.append("plug = static_library('plug', files=plugins)")
        L.append("default(plug)")
    if feats['submodule']:
        L.append("submodule('sub')")
    if feats['options']:
        L.append("default(copy_file('flavor-' + argv.flavor + '.out', 'data/y.dat'))")
    if feats['pkgconf']:
        L.append("lib = static_library('p', files=['src/main.c'])")
        L.append("pkg_config('p', version='1.0', libs=[lib]%s)" %
                 (", includes=[hdrs]" if feats['hdrdir'] else ''))
    L.extend(extra_lines)
    return '\n'.join(L) + '\n'


EDIT_KINDS = ['add-matching', 'add-nonmatching', 'remove-matching', 'rename-matching',
              'add-dir-matching', 'remove-dir', 'edit-bfg-add-target', 'edit-bfg-comment',
              'touch-bfg', 'touch-source', 'edit-options', 'create-options', 'edit-sub',
              'drop-submodule', 'edit-toolchain', 'add-header', 'remove-header', 'add-data',
              'add-extra', 'noop', 'add-plugin', 'add-plugin-filtered-out', 'remove-plugin',
              'add-empty-dir', 'fill-empty-dir', 'touch-input', 'create-missing-base',
              'edit-options-default']
# (plus 'drop-searches' and 'edit-late', which only occur as a directed tail of a history)


# edits after which the (lazy) regeneration finds nothing to do, and edits that change what is
# found: every pair (skip-edit, structural edit) is a state the build directory can be in
SKIP_EDITS = ['add-nonmatching', 'add-empty-dir', 'add-plugin-filtered-out', 'add-extra',
              'touch-input', 'edit-bfg-comment']
STRUCT_EDITS = ['remove-dir', 'remove-matching', 'rename-matching', 'add-dir-matching',
                'add-matching', 'remove-header', 'add-header', 'add-data', 'remove-plugin',
                'edit-sub', 'fill-empty-dir', 'edit-options-default', 'edit-toolchain',
                'create-missing-base', 'drop-submodule']
# what an edit kind needs from the project to be applicable / to matter
NEEDS = {
    'edit-sub': {'submodule': True}, 'drop-submodule': {'submodule': True},
    'edit-options': {'options': True}, 'edit-options-default': {'options': True},
    'edit-toolchain': {'toolchain': True},
    'add-header': {'hdrdir': True, 'hdrinst': True}, 'remove-header': {'hdrdir': True, 'hdrinst': True},
    'add-plugin': {'custfilter': True}, 'add-plugin-filtered-out': {'custfilter': True},
    'remove-plugin': {'custfilter': True},
    'add-empty-dir': {'deepglob': True}, 'fill-empty-dir': {'deepglob': True},
    'remove-dir': {'deepglob': True}, 'add-dir-matching': {'deepglob': True},
    'add-extra': {'extra': True},
    'create-missing-base': {'missingbase': 'later'},
}


def deal(seed, tier, nhist, per):
    """Edit kinds dealt from a shuffled deck: every kind occurs in some history of every run
    (whatever the seed), instead of each history drawing independently."""
    rng = core.rng_for(seed, 'c08deck', tier)
    deck = []
    while len(deck) < nhist * per:
        d = list(EDIT_KINDS)
        rng.shuffle(d)
        deck += d
    return [deck[i * per:(i + 1) * per] for i in range(nhist)]


def plan_history(rng, index, dealt, rot=0):
    """-> (history before the directed insertions of gen_history, forced project features)"""
    hist = list(dealt)
    # (the seed rotates which structural edits the 16 quick histories pair up)
    pair = [SKIP_EDITS[index % len(SKIP_EDITS)],
            STRUCT_EDITS[(index // 2 + 8 * rot) % len(STRUCT_EDITS)]]
    if pair[1] == 'fill-empty-dir':
        pair[0] = 'add-empty-dir'
    if pair[1] == 'remove-plugin':
        pair.insert(0, 'add-plugin')
    at = rng.randrange(len(hist) + 1)
    hist[at:at] = pair
    # an options.bfg can only be created where there is none, and edited where there is one
    if 'create-options' in hist and any(k in hist for k in ('edit-options',
                                                            'edit-options-default')):
        hist.remove('create-options')
    force = {}
    for k in hist:
        for f, v in NEEDS.get(k, {}).items():
            if f == 'missingbase':
                v = rng.choice(['later', 'later/deep'])
            force.setdefault(f, v)
    if 'create-options' in hist:
        force['options'] = False
    if 'missingbase' in force:
        pass
    return hist, force


def gen_history(rng, project, n, hist=None):
    """A list of edits; each is materialised (ops on the tree) when applied,
    because validity depends on the current state."""
    if hist is None:
        hist = [rng.choice(EDIT_KINDS) for _ in range(n)]
    hist = list(hist)
    feats = project['feats']
    # directed pairs: features that need a particular (sequence of) edit(s) get it
    # every history has one edit that leaves the generated files byte-identical (an input of
    # the regeneration rule gets a newer mtime, nothing else): regeneration must still converge
    hist.insert(rng.randrange(len(hist) + 1), 'touch-input')
    if feats['hdrdir'] and feats.get('hdrinst'):
        # the files a header_directory(include=) finds are in the install rules
        hist.insert(rng.randrange(len(hist) + 1), 'add-header')
    if feats.get('custfilter'):
        hist.insert(rng.randrange(len(hist) + 1), 'add-plugin')
        hist.insert(rng.randrange(len(hist) + 1), rng.choice(['remove-plugin', 'add-plugin',
                                                               'add-plugin-filtered-out']))
    if feats['deepglob'] and rng.random() < 0.6:
        i = rng.randrange(len(hist) + 1)
        hist[i:i] = ['add-empty-dir'] + [rng.choice(EDIT_KINDS) for _ in range(rng.randint(0, 2))] \
            + ['fill-empty-dir']
    if rng.random() < 0.4:
        # the project stops searching altogether and gains a script that was not an input of
        # the regeneration rule before; later only that script is edited
        hist += ['drop-searches', 'edit-late'] + \
            [rng.choice(['touch-input', 'edit-late', 'noop', 'edit-bfg-comment'])] + ['edit-late']
    return hist


# --------------------------------------------------------------------------

class Live:
    def __init__(self, case):
        self.case = case
        self.backend = case['backend']
        self.root = core.mkscratch('c08')
        self.src = os.path.join(self.root, 'src')
        self.bld = os.path.join(self.root, 'bld')
        self.log = os.path.join(self.root, 'stublog')
        self.trace = os.path.join(self.root, 'trace')
        p = case['project']
        files = dict(p['files'])
        files['build.bfg'] = p['bfg']
        if p['options']:
            files['options.bfg'] = p['options']
        if p['sub_bfg']:
            files['sub/build.bfg'] = p['sub_bfg']
            files['sub/sub.in'] = 'sub\n'
        if p['feats']['options']:
            files['options.bfg'] = "argument('flavor', default='x')\n"
        self.conf_args = []
        if p['toolchain']:
            files['tc.bfg'] = p['toolchain']
            self.conf_args += ['--toolchain', os.path.join(self.src, 'tc.bfg')]
        proj.write_tree(self.src, files)
        extra = proj.stub_toolchain_env(self.log)
        extra.update({'CP': 'vwrap-cp -f', 'VSTUB_ENVKEYS': 'NONE',
                      'BFG9000_VERIF_TRACE': self.trace,
                      'BFG9000_VERIF_WATCH': self.root})
        self.env = core.base_env(extra, inject=True)
        fextra = proj.stub_toolchain_env(os.devnull)
        fextra.update({'CP': 'vwrap-cp -f', 'VSTUB_ENVKEYS': 'NONE'})
        self.fresh_env = core.base_env(fextra)
        self.counter = 0
        self.bfg_extra = []
        self.state = {'has_sub': bool(p['sub_bfg']), 'has_options': 'options.bfg' in files}

    def configure(self, env=None):
        return proj.configure(self.src, self.bld, self.backend, args=self.conf_args,
                              env=env or self.env)

    def run_backend(self):
        """-> (rc, out, number of bfg9000 processes seen, stub outputs)"""
        for f in (self.log, self.trace):
            try:
                os.remove(f)
            except FileNotFoundError:
                pass
        proj.settle()
        rc, out = proj.build(self.bld, self.backend, [], env=self.env)
        nproc = 0
        if os.path.exists(self.trace):
            with open(self.trace) as f:
                for line in f:
                    try:
                        if json.loads(line).get('op') == 'process':
                            nproc += 1
                    except ValueError:
                        pass
        recs = proj.read_log(self.log)
        return rc, out, nproc, recs

    def primary_files(self, bld=None):
        bld = bld or self.bld
        out = {}
        names = [PRIMARY[self.backend], 'compile_commands.json']
        pc = os.path.join(bld, 'pkgconfig')
        if os.path.isdir(pc):
            names += ['pkgconfig/' + n for n in sorted(os.listdir(pc))]
        for n in names:
            p = os.path.join(bld, n)
            if os.path.exists(p):
                with open(p, 'rb') as f:
                    out[n] = f.read()
        return out

    def fresh(self):
        """Primary files a fresh configure of the current tree writes at the
        same absolute build path.  -> (rc, output, files)"""
        aside = self.bld + '.aside'
        os.rename(self.bld, aside)
        try:
            rc, out = self.configure(env=self.fresh_env)
            files = self.primary_files() if rc == 0 else {}
        finally:
            shutil.rmtree(self.bld, ignore_errors=True)
            os.rename(aside, self.bld)
        return rc, out, files

    # ---- edits
    def write(self, rel, content):
        p = os.path.join(self.src, rel)
        os.makedirs(os.path.dirname(p), exist_ok=True)
        new = not os.path.lexists(p)
        with open(p, 'w') as f:
            f.write(content)
        proj.bump(p, self.bld)
        if new:
            # a new entry changes its directory's time stamp too - at the instant of creation,
            # which the coarse kernel clock may put in the same tick as the last build product:
            # the discipline of Appendix C.2 (strictly newer) holds for the directory as well
            proj.bump(os.path.dirname(p), self.bld)
        return p

    def touch(self, rel):
        proj.bump(os.path.join(self.src, rel), self.bld)

    def plain_bfg(self):
        feats = self.case['project']['feats']
        L = ["project('p', '1.0', find_exclude=['*~'])",
             "prog = executable('prog', files=['src/main.c'])",
             "default(prog)", "submodule('late')"]
        if self.state['has_sub']:
            L.append("submodule('sub')")
        if feats['options']:
            L.append("default(copy_file('flavor-' + argv.flavor + '.out', 'data/y.dat'))")
        if feats['pkgconf']:
            L.append("lib = static_library('p', files=['src/main.c'])")
            L.append("pkg_config('p', version='1.0', libs=[lib])")
        return '\n'.join(L + list(self.bfg_extra)) + '\n'

    def rewrite_bfg(self):
        if self.state.get('no_search'):
            return self.write('build.bfg', self.plain_bfg())
        self.write('build.bfg', initial_bfg(self.case['project']['feats'], self.bfg_extra)
                   if self.state['has_sub'] or not self.case['project']['feats']['submodule']
                   else initial_bfg(self.case['project']['feats'], self.bfg_extra)
                   .replace("submodule('sub')\n", ''))

    def apply(self, kind, rng):
        """-> (applied kind or None, description, changes_fresh, watched_dir_only)"""
        self.counter += 1
        k = self.counter
        feats = self.case['project']['feats']
        srcs = sorted(f for f in os.listdir(os.path.join(self.src, 'src')) if f.endswith('.c')
                      and f != 'main.c')
        if kind == 'drop-searches':
            if self.state.get('no_search'):
                return None, '', False, False
            self.state['no_search'] = True
            self.write('late/build.bfg', "copy_file('late.out', 'late.in')\n")
            self.write('late/late.in', 'late\n')
            self.rewrite_bfg()
            return kind, '', True, False
        if kind == 'edit-late':
            if not self.state.get('no_search'):
                return None, '', False, False
            self.write('late/build.bfg', "copy_file('late.out', 'late.in')\n"
                                         "copy_file('late%d.out', 'late.in')\n" % k)
            return kind, 'late/build.bfg', True, False
        if self.state.get('no_search') and kind in (
                'add-matching', 'add-nonmatching', 'add-extra', 'remove-matching',
                'rename-matching', 'add-dir-matching', 'remove-dir', 'add-header',
                'remove-header', 'add-data', 'add-plugin', 'add-plugin-filtered-out',
                'remove-plugin', 'add-empty-dir', 'fill-empty-dir', 'create-missing-base'):
            # nothing is searched any more: the file operations below would change nothing
            return None, '', False, False
        if kind == 'add-matching':
            self.write('src/n%d.c' % k, 'int n%d;\n' % k)
            if feats['nocache']:
                self.touch('build.bfg')
            return kind, 'src/n%d.c' % k, True, False
        if kind == 'add-nonmatching':
            self.write('src/n%d.rst' % k, 'text\n')
            return kind, 'src/n%d.rst' % k, False, True
        if kind == 'add-extra':
            self.write('src/e%d.md' % k, 'text\n')
            if feats['nocache']:
                self.touch('build.bfg')      # documented opt-out of result tracking
            return kind, 'src/e%d.md' % k, False, True
        if kind == 'remove-matching' and srcs:
            victim = rng.choice(srcs)
            os.remove(os.path.join(self.src, 'src', victim))
            if feats['nocache']:
                self.touch('build.bfg')
            return kind, 'src/' + victim, True, False
        if kind == 'rename-matching' and srcs:
            victim = rng.choice(srcs)
            os.rename(os.path.join(self.src, 'src', victim),
                      os.path.join(self.src, 'src', 'r%d.c' % k))
            proj.bump(os.path.join(self.src, 'src', 'r%d.c' % k), self.bld)
            if feats['nocache']:
                self.touch('build.bfg')
            return kind, 'src/%s -> src/r%d.c' % (victim, k), True, False
        if kind == 'add-dir-matching':
            self.write('src/dir%d/m%d.c' % (k, k), 'int m%d;\n' % k)
            if feats['nocache']:
                self.touch('build.bfg')
            return kind, 'src/dir%d/m%d.c' % (k, k), feats['deepglob'], not feats['deepglob']
        if kind == 'remove-dir':
            dirs = sorted(d for d in os.listdir(os.path.join(self.src, 'src'))
                          if os.path.isdir(os.path.join(self.src, 'src', d)))
            if dirs:
                victim = rng.choice(dirs)
                shutil.rmtree(os.path.join(self.src, 'src', victim))
                if feats['nocache']:
                    self.touch('build.bfg')
                return kind, 'src/' + victim, feats['deepglob'], not feats['deepglob']
            return None, '', False, False
        if kind == 'edit-bfg-add-target':
            self.bfg_extra.append("copy_file('extra%d.out', 'data/y.dat')" % k)
            self.rewrite_bfg()
            return kind, 'extra%d.out' % k, True, False
        if kind == 'edit-bfg-comment':
            self.bfg_extra.append('# comment %d' % k)
            self.rewrite_bfg()
            return kind, '', False, False
        if kind == 'touch-bfg':
            self.touch('build.bfg')
            return kind, '', False, False
        if kind == 'touch-input':
            inputs = ['build.bfg']
            if self.state['has_options']:
                inputs.append('options.bfg')
            if self.state['has_sub']:
                inputs.append('sub/build.bfg')
            if self.case['project']['toolchain']:
                inputs.append('tc.bfg')
            victim = rng.choice(inputs)
            self.touch(victim)
            return kind, victim, False, False
        if kind == 'touch-source':
            self.touch('src/main.c')
            return kind, '', False, False
        if kind == 'edit-options' and self.state['has_options']:
            self.write('options.bfg', "argument('flavor', default='x')\n"
                                      "argument('extra%d', default='v')\n" % k)
            return kind, '', False, False
        if kind == 'edit-options-default' and self.state['has_options'] and feats['options']:
            self.write('options.bfg', "argument('flavor', default='x%d')\n" % k)
            return kind, '', True, False
        if kind == 'create-missing-base' and feats.get('missingbase') and \
           not self.state.get('no_search'):
            if os.path.isdir(os.path.join(self.src, feats['missingbase'])):
                self.write('%s/l%d.txt' % (feats['missingbase'], k), 'late\n')
                return 'add-to-created-base', '', True, False
            self.write('%s/l%d.txt' % (feats['missingbase'], k), 'late\n')
            return kind, '%s/l%d.txt' % (feats['missingbase'], k), True, False
        if kind == 'create-options' and not self.state['has_options']:
            self.write('options.bfg', "argument('late%d', default='q')\n" % k)
            self.state['has_options'] = True
            return kind, '', False, False
        if kind == 'edit-sub' and self.state['has_sub']:
            self.write('sub/build.bfg', "copy_file('sub.out', 'sub.in')\n"
                                        "copy_file('sub%d.out', 'sub.in')\n" % k)
            return kind, '', True, False
        if kind == 'drop-submodule' and self.state['has_sub']:
            self.state['has_sub'] = False
            self.rewrite_bfg()
            os.remove(os.path.join(self.src, 'sub', 'build.bfg'))
            return kind, '', True, False
        if kind == 'edit-toolchain' and self.case['project']['toolchain']:
            self.write('tc.bfg', "compile_options(['-DTC=%d'], 'c')\n" % k)
            return kind, '', True, False
        if kind == 'add-header' and feats['hdrdir']:
            self.write('include/h%d.h' % k, '#define H%d\n' % k)
            inst = bool(feats.get('hdrinst'))
            return kind, 'include/h%d.h' % k, inst, not inst
        if kind == 'remove-header' and feats['hdrdir']:
            hs = sorted(f for f in os.listdir(os.path.join(self.src, 'include'))
                        if f.endswith('.h'))
            if hs:
                victim = rng.choice(hs)
                os.remove(os.path.join(self.src, 'include', victim))
                inst = bool(feats.get('hdrinst'))
                return kind, 'include/' + victim, inst, not inst
            return None, '', False, False
        if kind == 'add-plugin' and feats.get('custfilter'):
            self.write('plugins/p%d.c' % k, 'int p%d;\n' % k)
            return kind, 'plugins/p%d.c' % k, True, False
        if kind == 'add-plugin-filtered-out' and feats.get('custfilter'):
            self.write('plugins/test_p%d.c' % k, 'int tp%d;\n' % k)
            return kind, 'plugins/test_p%d.c' % k, False, True
        if kind == 'remove-plugin' and feats.get('custfilter'):
            ps = sorted(f for f in os.listdir(os.path.join(self.src, 'plugins'))
                        if f.startswith('p') and f != 'p0.c')
            if ps:
                victim = rng.choice(ps)
                os.remove(os.path.join(self.src, 'plugins', victim))
                return kind, 'plugins/' + victim, True, False
            return None, '', False, False
        if kind == 'add-empty-dir':
            os.makedirs(os.path.join(self.src, 'src', 'empty%d' % k))
            proj.bump(os.path.join(self.src, 'src'), self.bld)
            self.state.setdefault('empty_dirs', []).append('src/empty%d' % k)
            return kind, 'src/empty%d/' % k, False, True
        if kind == 'fill-empty-dir':
            dirs = [d for d in self.state.get('empty_dirs', [])
                    if os.path.isdir(os.path.join(self.src, d))]
            if dirs:
                d = dirs[-1]
                self.write('%s/f%d.c' % (d, k), 'int f%d;\n' % k)
                if feats['nocache']:
                    self.touch('build.bfg')
                return kind, '%s/f%d.c' % (d, k), feats['deepglob'], not feats['deepglob']
            return None, '', False, False
        if kind == 'add-data':
            self.write('data/z%d.txt' % k, 'z\n')
            return kind, 'data/z%d.txt' % k, True, False
        if kind == 'noop':
            return kind, '', False, False
        return None, '', False, False

    def cleanup(self):
        core.rmtree(self.root)


def cases(tier, seed):
    n = 16 if tier == 'quick' else 110
    per = 5 if tier == 'quick' else 8
    dealt = deal(seed, tier, n, per)
    for i in range(n):
        rng = core.rng_for(seed, 'c08', i)
        planned, force = plan_history(rng, i, dealt[i], rot=seed)
        project = gen_project(rng, force)
        hist = gen_history(rng, project, len(planned), planned)
        for backend in ('make', 'ninja'):
            yield {'backend': backend, 'project': project, 'history': hist, 'index': i,
                   'seed': '%d/%d' % (seed, i)}


def order_only(now, fresh, bad):
    """If the files differ only in the order of the words of some lines, say
    which kind of line ('dist-list' for the doppel archive commands)."""
    kinds = set()
    for n in bad:
        a, b = now.get(n), fresh.get(n)
        if a is None or b is None:
            return None
        la = a.decode('utf-8', 'replace').splitlines()
        lb = b.decode('utf-8', 'replace').splitlines()
        if len(la) != len(lb):
            return None
        for x, y in zip(la, lb):
            if x != y:
                if sorted(x.split()) != sorted(y.split()):
                    return None
                kinds.add('dist-list' if 'doppel' in x.lower() else 'other-line')
    return '+'.join(sorted(kinds)) if kinds else None


def first_diff(a, b):
    la, lb = a.decode('utf-8', 'replace').splitlines(), b.decode('utf-8', 'replace').splitlines()
    for i, (x, y) in enumerate(zip(la, lb)):
        if x != y:
            return {'line': i + 1, 'live': x[:300], 'fresh': y[:300]}
    return {'line': min(len(la), len(lb)) + 1, 'live_lines': len(la), 'fresh_lines': len(lb)}


def recover(live):
    """After a recorded violation: re-configure in place so that the rest of
    the history is judged from a consistent state."""
    rc, out = live.configure()
    if rc != 0:
        return False
    rc, out, nproc, recs = live.run_backend()
    return rc == 0


def run_case(case):
    res = CaseResult()
    live = Live(case)
    backend = case['backend']
    feats = case['project']['feats']
    featkey = sorted(k for k, v in feats.items() if v)
    wb = {'backend': backend, 'features': featkey, 'index': case.get('index')}
    rng = core.rng_for(0, 'c08run', case['seed'], backend)
    try:
        rc, out = live.configure()
        if rc != 0:
            res.inconclusive = 'initial configure failed: ' + out[-400:]
            return res
        rc, out, nproc, recs = live.run_backend()
        if rc != 0:
            res.violate((backend, 'initial-build-failed'), dict(wb, output=out[-800:]))
            return res
        applied = []
        res.evaluations = 0
        for kind in case['history']:
            k2, desc, changes, watched = live.apply(kind, rng)
            if k2 is None:
                continue
            # validity: a fresh configure of this tree must succeed
            frc, fout, fresh = live.fresh()
            if frc != 0:
                res.inconclusive = 'generator produced a tree a fresh configure refuses (%s): %s' \
                    % (k2, fout[-300:])
                return res
            applied.append([k2, desc])
            res.evaluations += 1
            res.key([backend, featkey, k2], changes or watched)
            if changes:
                res.ev('edits:changing-fresh-result')
            if watched:
                res.ev('edits:watched-dir-only')
            w = dict(wb, edit=k2, detail=desc, history=list(applied),
                     multi_output_regen=feats['pkgconf'])
            before = live.primary_files()
            rc, out, nproc, recs = live.run_backend()
            if rc != 0:
                res.violate((backend, 'regen-blocked', k2), dict(w, output=out[-900:]))
                if not recover(live):
                    return res
                continue
            now = live.primary_files()
            res.ev('steps:compared-with-fresh')
            if now != fresh:
                bad = sorted(n for n in set(now) | set(fresh) if now.get(n) != fresh.get(n))
                # missed = the build files still are what they were before the edit (no bfg9000
                # process at all, or a lazy one that decided there was nothing to do)
                kindv = 'regen-missed' if nproc == 0 or now == before else 'regen-differs'
                oo = order_only(now, fresh, bad)
                if oo:
                    kindv, k2v = 'regen-differs-in-order-only', oo
                else:
                    k2v = k2
                res.violate((backend, kindv, k2v),
                            dict(w, files=bad, bfg9000_processes=nproc,
                                 first_diff=first_diff(now.get(bad[0], b''),
                                                       fresh.get(bad[0], b''))))
                if not recover(live):
                    return res
                continue
            if nproc:
                res.ev('regen:bfg9000-ran')
            else:
                res.ev('regen:not-needed')
            # converges: a second run regenerates nothing and builds nothing
            rc, out, nproc2, recs2 = live.run_backend()
            res.ev('steps:second-run-quiet')
            if rc != 0:
                res.violate((backend, 'second-run-failed', k2), dict(w, output=out[-600:]))
                return res
            if nproc2:
                res.violate((backend, 'does-not-converge', k2),
                            dict(w, bfg9000_processes_in_second_run=nproc2))
                return res
            if recs2:
                res.violate((backend, 'second-run-rebuilds', k2),
                            dict(w, steps=[r['argv'][:6] for r in recs2[:4]]))
                return res
        res.sample = dict(wb, history=applied, bfg=case['project']['bfg'])
        res.classes.update(k for k, _ in applied)
        return res
    finally:
        live.cleanup()
