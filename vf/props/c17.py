"""C17 - Generated pkg-config files give consumers the declared flags and
requirements.

Every case is one fully materialised *package description* (a project with
libraries, header directories, a pkg_config() call, dummy dependency packages).
The real `bfg9000 configure` (Make back end, real gcc) writes the .pc files; the
real `pkg-config` (pkgconf) reads them back in the -uninstalled form (build
dir) and in the installed form (after a real `make install` into a scratch
prefix, or - for descriptions that are never built - the byte-identical
pre-install copy in <build>/pkgconfig).  Oracles, none of which uses bfg9000:

 (1) pkg-config output -> argument list by POSIX quote removal without expansion
     (shlex) must denote exactly the declared include dirs / options / -L / -l /
     link options / dependency markers.  The same demand is first made of a
     hand-written reference .pc (textbook escaping, vf/ref/pcref.py); a value
     that pkgconf cannot carry under any escaping is dropped and counted.
 (2) a consumer TU compiled, linked and run with exactly those flags.
 (3) `pkg-config --exists` over a grid of dependency versions accepts iff the
     original specifier set accepts (own tuple comparator).
 (4) logically unsatisfiable sets make configure fail.
"""
import json
import os
import subprocess
import threading

from .. import core, proj
from ..core import CaseResult
from ..ref import pcref

LEVEL = 'exploration'
MODE = 'thread'
RULE = ('a case = one package description: project name/version, 0-5 libraries '
        '(static/shared, chains and diamonds, sub-directories), header dirs/files, '
        'compile/link/private link options, requires/requires_private/conflicts with '
        '1-4 specifiers over {== != < <= > >=} x two-field versions (incl. 1.9/1.10), '
        'auto_fill on/off with omitted fields, custom libdir/includedir; library() '
        'objects without kind= next to shared_library()/static_library() under '
        '--enable/--disable-shared x --enable/--disable-static (dual, shared-only, '
        'static-only), auto-filled from install() and with explicit libs=; '
        'install(headers, directory=..) / install(libs, directory=..) with relative '
        'names and Path(.., InstallRoot.x) before pkg_config() names or auto-fills '
        'them (really installed; the installed-form consumer runs with the build and '
        'source trees renamed away); external '
        'package() objects (stand-in mopack -> 1-3 hand-written .pc names, with/'
        'without a specifier) in requires/requires_private/conflicts and in '
        'packages= of public, private and transitive libraries. Kinds: '
        '"probe" = exactly one hostile token (each of ~35 tokens x {option, '
        'include-dir, link-option, private-link-option, srcdir, builddir, prefix} x '
        'positions), "mixed" = several hostile values, "full" = built with real gcc, '
        'installed, consumer compiled+linked+run in both forms, "versions" = '
        'specifier sets (satisfiable, refused, unsatisfiable). distinct = the '
        'description minus its index; non-trivial = has a hostile token, a library '
        'with a dependency, or a version specifier')
ASSUMPTIONS = [
    'the specifier of package(name, submodules, version=...) is a statement about '
    'the package\'s first .pc name (the one bfg9000 itself version-checks); the .pc '
    'names of its submodules are required unversioned; a ~20-line stand-in for '
    '`mopack linkage --json` (passed through $MOPACK) maps package names to .pc names',
    'pkgconf 1.8.1 on this machine is the meaning of "read back by the real pkg-config"',
    'argument list of pkg-config output = shlex.split(posix=True) (quote removal, no '
    'expansion): the reading of bfg9000\'s own consumer side, CMake and meson',
    'versions are dotted numerics; tuple comparison agrees with rpmvercmp on them '
    '(checked per version against a hand-written reference .pc)',
    'pkgconf 1.8.1 evaluates a package\'s Conflicts only against that package\'s own '
    'Requires list (calibrated with hand-written files): a conflicting package that '
    'is also required is judged by `pkg-config --exists`; for one that is not '
    'required the Conflicts line is read by a 20-line reader implementing '
    'pkg-config(1) ("if a version matches any of the conditions, the package '
    'conflicts"), which is cross-checked against pkgconf on every tool-judged version',
    'a specifier set means the conjunction of its specifiers (PEP 440), for '
    'conflicts as for requires: conflicts=[("d", ">=1,<2")] conflicts with 1.5 only',
    'a loud configure-time refusal ("multiple specifiers ... used in pkg-config '
    'requirement") of a set with >= 2 specifiers is a rejection, not a violation',
    'values pkgconf cannot carry under backslash/single-quote/double-quote escaping in a '
    'hand-written .pc are outside the property (excluded_by_calibration)',
    'for descriptions that are not built the installed form is read from the '
    'pre-install copy <build>/pkgconfig/<name>.pc (built cases verify it is '
    'byte-identical to the installed file)',
]

def _pkgconf_behaviour(tier):
    return dict(_glob_cal)


EXTRA_COVERAGE = {
    # what the hand-written calibration files showed about this pkgconf
    'pkgconf_behaviour': _pkgconf_behaviour,
    'not_covered': [
        'package() objects resolved by the real mopack (broken in this image): a '
        'stand-in answering `mopack linkage --json` stands for it; "generated" '
        'packages (flags copied instead of required) are not produced',
        'a pkg_config() result used as requirement of a second pkg_config()',
        'desc/desc_name/url fields (no pkg-config query prints them)',
        'lang= other than c; mach-o install_names',
    ],
}

TOKENS = [' ', '\t', '\n', '"', "'", '\\', '$', '${x}', '$(x)', '$$', '#', '%',
          '%%', '&', ';', '|', '<', '>', '(', ')', '*', '?', '[', ']', '{', '}', '~',
          '`', '!', '^', ',', ':', '@', '+', '=', 'é']
PATH_TOKENS = [t for t in TOKENS if t not in ('\n', '\\', ':')]
CONTEXTS_VALUE = ['option', 'link-option', 'private-link-option']
CONTEXTS_PATH = ['include-dir', 'srcdir', 'builddir', 'prefix']
_PLAIN = set('abcdefghijklmnopqrstuvwxyzABCDEFGHIJKLMNOPQRSTUVWXYZ0123456789_-./=')


def floors(tier):
    q = tier == 'quick'
    return {
        'configure_ok': 120 if q else 1000,
        'form:uninstalled': 120 if q else 1000,
        'form:installed_after_make_install': 12 if q else 120,
        'form:installed_preinstall_copy': 100 if q else 800,
        'installed_pc_identical': 12 if q else 120,
        'modversion_checked': 240 if q else 2000,
        'flags:cflags_checked': 240 if q else 2000,
        'flags:libs_checked': 240 if q else 2000,
        'flags:libs_static_checked': 240 if q else 2000,
        'ref:field_ok': 700 if q else 6000,
        'calib:value_admitted': 250 if q else 2500,
        'consumer:built_and_ran': 24 if q else 250,
        'dual:both_variants_installed': 3 if q else 50,
        'install:files_at_modelled_place': 20 if q else 300,
        'consumer:installed_tree_only': 20 if q else 300,
        'version:exists_eval': 300 if q else 5000,
        'version:ref_agrees': 300 if q else 5000,
        'requires:names_checked': 30 if q else 500,
        'requires:entries_checked': 60 if q else 1000,
        'conflicts:tool_eval': 10 if q else 300,
        'conflicts:reference_reader_eval': 10 if q else 300,
        'configure_rejected_unsat': 5 if q else 60,
        'configure_refused_multi': 2 if q else 50,
        'distinct_nontrivial': 150 if q else 1200,
    }


# --------------------------------------------------------------------------
# generation

def tokens_of(value):
    """The hostile tokens of a string, longest first, in a fixed order."""
    out = []
    s = value
    for t in ('${', '$(', '$$', '%%'):
        if t in s:
            out.append({'${': '${x}', '$(': '$(x)'}.get(t, t))
            s = s.replace(t, '')
    for ch in s:
        if ch not in _PLAIN and ch not in out:
            out.append(ch)
    return out


def place(token, pos):
    return {'mid': 'a' + token + 'b', 'lead': token + 'b', 'trail': 'a' + token}[pos]


def cstr(payload):
    """A C string literal for payload (also what the -D option must carry)."""
    out = ['"']
    for ch in payload:
        if ch in '"\\':
            out.append('\\' + ch)
        elif ch == '\n':
            out.append('\\n')
        elif ch == '\t':
            out.append('\\t')
        elif ch == '?':
            out.append('\\?')
        else:
            out.append(ch)
    out.append('"')
    return ''.join(out)


def base_case(kind):
    return {
        'kind': kind,
        'roots': {'src': 'src', 'build': 'bld', 'prefix': 'inst',
                  'libdir': None, 'includedir': None},
        'project': {'name': 'proj', 'version': '1.2'},
        'auto_fill': False, 'omit': [],
        'name': 'foo', 'version': '3.4',
        'libs': [], 'pc_libs': [], 'pc_libs_private': [],
        'includes': [], 'options': [], 'link_options': [],
        'link_options_private': [],
        'requires': [], 'requires_private': [], 'conflicts': [],
        'deps': {},
        'packages': [],
        'install_dirs': None,
        'build': False, 'consumer': False,
    }


def probe_case(context, token, pos='mid'):
    """Exactly one hostile token in exactly one place."""
    c = base_case('probe')
    c['probe'] = {'context': context, 'token': token, 'pos': pos}
    c['libs'] = [{'name': 'core', 'path': 'core', 'kind': 'static', 'deps': [],
                  'link_options': []}]
    c['pc_libs'] = ['core']
    c['includes'] = [{'dir': 'inc', 'header': 'h0.h', 'form': 'dir', 'macro': 'H0',
                      'value': 100}]
    c['options'] = ['-DK0=1', '-DK1=2']
    c['link_options'] = ['-Wl,--as-needed']
    c['link_options_private'] = ['-Wl,-O1']
    v = place(token, pos)
    if context == 'option':
        c['options'] = ['-DK0=1', '-DQ=' + v, '-DK1=2']
    elif context == 'link-option':
        # (pkgconf merges adjacent -Wl, fragments and then loses their escaping,
        # so the neighbours are not -Wl, options)
        c['link_options'] = ['-rdynamic', '-Wl,-rpath,/q/' + v, '-g']
    elif context == 'private-link-option':
        c['link_options_private'] = ['-fno-lto', '-Wl,-rpath,/q/' + v, '-O1']
    elif context == 'include-dir':
        c['includes'].append({'dir': v, 'header': 'h1.h', 'form': 'dir',
                              'macro': 'H1', 'value': 101})
    elif context == 'srcdir':
        c['roots']['src'] = v
    elif context == 'builddir':
        c['roots']['build'] = v
    elif context == 'prefix':
        c['roots']['prefix'] = v
    else:
        raise ValueError(context)
    return c


LIB_SHAPES = [
    # name, kind, deps  (topological order; shared libs only depend on shared)
    [('alpha', 'static', [])],
    [('alpha', 'shared', [])],
    [('inner', 'static', []), ('alpha', 'static', ['inner'])],
    [('inner', 'static', []), ('middle', 'static', ['inner']),
     ('alpha', 'static', ['middle'])],
    [('inner', 'shared', []), ('alpha', 'shared', ['inner'])],
    [('inner', 'shared', []), ('alpha', 'static', ['inner'])],
    [('base', 'static', []), ('left', 'static', ['base']), ('right', 'static', ['base']),
     ('alpha', 'static', ['left', 'right'])],
    [('inner', 'static', []), ('alpha', 'static', ['inner']), ('beta', 'static', [])],
    [('inner', 'static', []), ('alpha', 'static', ['inner']),
     ('beta', 'static', ['inner'])],
    [('inner', 'shared', []), ('middle', 'static', ['inner']),
     ('alpha', 'static', ['middle']), ('beta', 'shared', [])],
    # a dependency listed directly AND reached through another dependency, in both orders
    # (the forwarded list must still end up in a usable link order)
    [('inner', 'static', []), ('middle', 'static', ['inner']),
     ('alpha', 'static', ['inner', 'middle'])],
    [('inner', 'static', []), ('middle', 'static', ['inner']),
     ('alpha', 'static', ['middle', 'inner'])],
    [('base', 'static', []), ('inner', 'static', ['base']), ('middle', 'static', ['inner']),
     ('alpha', 'static', ['inner', 'middle'])],
    [('base', 'static', []), ('left', 'static', ['base']), ('right', 'static', ['base', 'left']),
     ('alpha', 'static', ['base', 'right', 'left'])],
]

DEP_NAMES = ['dep1', 'lib-two', 'x.three', 'Dep_4', 'five+']
BOUNDS = ['1.2', '1.5', '1.9', '1.10', '2.0', '2.3', '1.1', '2.10', '3.1']
OPS = ['==', '!=', '<', '<=', '>', '>=']
SAFE_OPTS = ['-DNUM=5', '-DFLAG', '-UNDEBUG', '-O1', '-fno-common', '-Wno-unused',
             '-DTWO=2', '-funsigned-char']
SAFE_LOPTS = ['-Wl,--as-needed', '-Wl,-O1', '-Wl,-z,now', '-Wl,--hash-style=gnu',
              '-Wl,-z,relro', '-pthread']


def gen_libs(rng, c, shape=None, subdirs=True, also=None):
    """also: True/False forces/forbids naming a transitive dependency explicitly
    among the public libraries (None: sometimes)."""
    shape = shape if shape is not None else rng.choice(LIB_SHAPES)
    libs = []
    for name, kind, deps in shape:
        path = name
        if subdirs and rng.random() < 0.3:
            path = rng.choice(['sub', 'out/lib']) + '/' + name
        lo = []
        if kind == 'static' and rng.random() < 0.25:
            lo = [rng.choice(['-pthread', '-Wl,-z,noexecstack'])]
        libs.append({'name': name, 'path': path, 'kind': kind, 'deps': list(deps),
                     'link_options': lo})
    c['libs'] = libs
    names = [l['name'] for l in libs]
    tops = [n for n in names if not any(n in l['deps'] for l in libs)]
    c['pc_libs'] = tops[:1]
    rest = tops[1:]
    r = rng.random()
    if rest and r < 0.5:
        c['pc_libs_private'] = rest
    elif rest:
        c['pc_libs'] += rest
    if (rng.random() < 0.15 if also is None else also) and len(names) > 1:
        # a dependency also named explicitly (link-order sensitive)
        cand = [n for n in names if n not in c['pc_libs'] and
                n not in c['pc_libs_private']]
        if cand:
            c['pc_libs'].append(cand[0] if also else rng.choice(cand))


def gen_includes(rng, c, n, hostile=0):
    incs = []
    for i in range(n):
        d = ['inc', 'include/pub', 'hdr2', 'api'][i % 4]
        if i < hostile:
            d = place(rng.choice(PATH_TOKENS), rng.choice(['mid', 'trail'])) + str(i)
        incs.append({'dir': d, 'header': 'h%d.h' % i,
                     'form': rng.choice(['dir', 'dir', 'file']),
                     'macro': 'H%d' % i, 'value': 100 + i})
    c['includes'] = incs


def gen_spec(rng, nmax=4):
    n = rng.choice([1, 1, 2, 2, 3, 4][:nmax + 2])
    return [[rng.choice(OPS), rng.choice(BOUNDS)] for _ in range(n)]


def spec_text(specs):
    return ','.join(op + b for op, b in specs)


def add_dep(c, name):
    if name not in c['deps']:
        c['deps'][name] = {'id': len(c['deps']) + 1, 'good': '1.0'}


def combined(c, name):
    out = []
    for key in ('requires', 'requires_private'):
        for n, s in c[key]:
            if n == name:
                out += pcref.parse_specs(s)
    return out


def gen_requirements(rng, c, want):
    """want: 'sat1' (every dep collapses to <= 1 effective specifier is NOT known
    to the generator - it just draws), 'any', 'unsat'."""
    names = rng.sample(DEP_NAMES, rng.randint(1, 3))
    for name in names:
        add_dep(c, name)
        where = rng.choice(['requires', 'requires_private', 'both', 'twice'])
        n = rng.choice([0, 1, 1, 1, 2])
        specs = [[rng.choice(OPS), rng.choice(BOUNDS)] for _ in range(n)]
        if where == 'both':
            a, b = specs[:1], specs[1:] or gen_spec(rng, 1)[:1]
            c['requires'].append([name, spec_text(a) or None])
            c['requires_private'].append([name, spec_text(b) or None])
        elif where == 'twice' and len(specs) == 2:
            key = rng.choice(['requires', 'requires_private'])
            c[key].append([name, spec_text(specs[:1])])
            c[key].append([name, spec_text(specs[1:])])
        else:
            key = where if where in ('requires', 'requires_private') else 'requires'
            c[key].append([name, spec_text(specs) or None])


def fix_good_versions(c):
    """Configure-time versions of the dummy deps; -> False when some satisfiable
    set has no two-field witness (the generator re-draws)."""
    for name, d in c['deps'].items():
        specs = combined(c, name)
        confs = []
        for n, s in c['conflicts']:
            if n == name:
                confs += pcref.parse_specs(s)
        if specs and not pcref.satisfiable(specs):
            d['good'] = None
            continue
        g = None
        for v in ['1.0'] + pcref.grid(specs + confs):
            if pcref.set_accepts(specs, v) and not (
                    confs and pcref.set_accepts(confs, v)):
                g = v
                break
        if g is None:
            return False
        d['good'] = g
    return True


def versions_case(rng, want, by_tool=None):
    """want in 'single' (one specifier per dep), 'multi', 'unsat', 'conflicts'."""
    for _ in range(200):
        c = base_case('versions')
        c['auto_fill'] = rng.random() < 0.5
        if c['auto_fill']:
            c['omit'] = rng.choice([[], ['name'], ['version'], ['name', 'version']])
        ndeps = rng.randint(1, 3)
        names = rng.sample(DEP_NAMES, ndeps)
        for i, name in enumerate(names):
            add_dep(c, name)
            if want == 'single' or (want != 'single' and i > 0 and rng.random() < 0.5):
                specs = gen_spec(rng, 1)[:1]
            elif want == 'unsat' and i == 0:
                specs = gen_spec(rng, 4)
                if len(specs) < 2:
                    specs += gen_spec(rng, 1)[:1]
            else:
                specs = gen_spec(rng, 4)
            where = rng.choice(['requires', 'requires_private', 'split', 'split',
                                'twice'])
            if where == 'split' and len(specs) >= 2:
                k = rng.randint(1, len(specs) - 1)
                c['requires'].append([name, spec_text(specs[:k])])
                c['requires_private'].append([name, spec_text(specs[k:])])
            elif where == 'twice' and len(specs) >= 2:
                key = rng.choice(['requires', 'requires_private'])
                k = rng.randint(1, len(specs) - 1)
                c[key].append([name, spec_text(specs[:k])])
                c[key].append([name, spec_text(specs[k:])])
            else:
                key = where if where in ('requires', 'requires_private') else 'requires'
                c[key].append([name, spec_text(specs)])
        if rng.random() < 0.4 and len(names) < len(DEP_NAMES) - 1:
            # an unversioned requirement in front of the others
            uname = rng.choice([n for n in DEP_NAMES if n not in names])
            names.append(uname)
            add_dep(c, uname)
            c[rng.choice(['requires', 'requires_private'])].insert(0, [uname, None])
        if want == 'conflicts' or rng.random() < 0.3:
            cname = rng.choice([n for n in DEP_NAMES if n not in names])
            add_dep(c, cname)
            r = rng.random()
            if r < 0.4:
                lo, hi = sorted(rng.sample(BOUNDS, 2), key=pcref.vt)
                cs = [[rng.choice(['>', '>=']), lo], [rng.choice(['<', '<=']), hi]]
                if rng.random() < 0.3:
                    cs.append(['!=', rng.choice(BOUNDS)])
            elif r < 0.6:
                cs = gen_spec(rng, 1)[:1]
            else:
                cs = gen_spec(rng, 3)
            c['conflicts'].append([cname, spec_text(cs)])
            if (rng.random() < 0.6) if by_tool is None else by_tool:
                # also required (without a version): the only arrangement in which
                # pkgconf itself evaluates the Conflicts entry.  auto_fill, so that
                # configure does not itself load the file it has just written.
                c[rng.choice(['requires', 'requires', 'requires_private'])].append(
                    [cname, None])
                c['auto_fill'] = True
        if not fix_good_versions(c):
            continue
        unsat = any(d['good'] is None for d in c['deps'].values())
        cunsat = any(not pcref.satisfiable(pcref.parse_specs(s))
                     for n, s in c['conflicts'])
        if want == 'unsat':
            if not unsat or cunsat:
                continue
            # the verdict must be bfg9000's own: without auto_fill configure loads
            # the written file through pkg-config and would fail on the dummy
            # dependency's version, whatever bfg9000 wrote
            c['auto_fill'] = True
        elif unsat or cunsat:
            continue
        if want == 'multi' and not any(len(combined(c, n)) >= 2 for n in names):
            continue
        return c
    raise RuntimeError('generator could not draw a %s case' % want)


def unsat_conflicts_case(rng):
    for _ in range(500):
        c = base_case('versions')
        c['auto_fill'] = rng.random() < 0.5
        specs = gen_spec(rng, 4)
        if len(specs) < 2 or pcref.satisfiable(specs):
            continue
        add_dep(c, 'dep1')
        c['conflicts'].append(['dep1', spec_text(specs)])
        c['auto_fill'] = True
        return c
    raise RuntimeError('no unsat conflicts')


def full_case(rng, shape=None, hostile=False, auto=None, also=None):
    c = base_case('full')
    c['build'] = True
    c['consumer'] = True
    gen_libs(rng, c, shape, also=also)
    gen_includes(rng, c, rng.randint(1, 3))
    c['auto_fill'] = rng.random() < 0.4 if auto is None else bool(auto)
    if c['auto_fill']:
        c['omit'] = sorted(rng.sample(['name', 'version', 'includes', 'libs'],
                                      rng.randint(0, 4)))
        if auto == 'empty-libs' and c['pc_libs']:
            c['omit'] = [o for o in c['omit'] if o != 'libs']
        elif auto and 'libs' not in c['omit']:
            c['omit'] = sorted(c['omit'] + ['libs'])
        if 'libs' in c['omit']:
            # install()ed libraries become the public ones; libs_private would be
            # installed by pkg_config itself and thereby become public as well
            c['pc_libs'] += c['pc_libs_private']
            c['pc_libs_private'] = []
        elif c['pc_libs'] and auto == 'empty-libs':
            # libs=[] said explicitly is not an omitted libs=: the libraries the script
            # install()s itself stay out of the description
            c['installed_only_libs'] = list(c['pc_libs'])
            c['pc_libs'] = []
    if rng.random() < 0.3:
        c['project']['version'] = None
    c['name'] = rng.choice(['foo', 'foo-bar', 'Foo_1', 'foo.bar', 'foo+'])
    c['version'] = rng.choice(['3.4', '0.1', '10.20.30', '1.2rc1'])
    if rng.random() < 0.3:
        c['roots']['libdir'] = rng.choice(['lib64', 'lib/x86_64-linux-gnu'])
    if rng.random() < 0.3:
        c['roots']['includedir'] = rng.choice(['include/foo-1', 'hdrs'])
    opts = rng.sample(SAFE_OPTS, rng.randint(0, 3))
    nstr = rng.randint(1, 3)
    for i in range(nstr):
        if hostile:
            payload = ''.join(rng.choice(['x', 'y', rng.choice(TOKENS)])
                              for _ in range(rng.randint(2, 5)))
        else:
            payload = rng.choice(['plain', 'two words', "it's", 'a$b', 'q"q',
                                  'semi;colon', 'a%b', 'p|q', 'x&y', '(z)', 'a*b'])
        opts.insert(rng.randint(0, len(opts)), '-DSTR%d=%s' % (i, cstr(payload)))
    c['options'] = opts
    c['link_options'] = rng.sample(SAFE_LOPTS, rng.randint(0, 2))
    c['link_options_private'] = rng.sample(
        [o for o in SAFE_LOPTS if o not in c['link_options']], rng.randint(0, 2))
    if rng.random() < 0.6:
        for _ in range(50):
            c['requires'], c['requires_private'], c['deps'] = [], [], {}
            gen_requirements(rng, c, 'any')
            if fix_good_versions(c) and all(
                    d['good'] is not None for d in c['deps'].values()) and all(
                    len(combined(c, n)) <= 1 for n in c['deps']):
                break
        else:
            c['requires'], c['requires_private'], c['deps'] = [], [], {}
    return c


LIBMODES = [{'shared': True, 'static': True}, {'shared': True, 'static': False},
            {'shared': False, 'static': True}]
# (name, constructor, declared kind, deps); library() objects follow the mode
MODE_SHAPES = [
    [('alpha', 'library', 'auto', [])],
    [('inner', 'library', 'auto', []), ('alpha', 'library', 'auto', ['inner'])],
    [('inner', 'library', 'auto', []), ('alpha', 'library', 'auto', ['inner']),
     ('beta', 'static_library', 'static', ['inner']),
     ('gamma', 'shared_library', 'shared', [])],
    [('base', 'shared_library', 'shared', []), ('alpha', 'library', 'auto', ['base']),
     ('beta', 'library', 'auto', []), ('delta', 'static_library', 'static', [])],
]


def libmode_case(rng, mode, shape, auto, omit=None):
    """Built + installed + consumed under a --enable/--disable-shared/static mode
    with library() objects (no kind=) among shared_library()/static_library()."""
    c = base_case('full')
    c['build'] = True
    c['consumer'] = True
    c['libmode'] = dict(mode)
    c['libs'] = [{'name': n, 'path': ('sub/' + n if rng.random() < 0.25 else n),
                  'ctor': ctor, 'kind': kind, 'deps': list(deps), 'link_options': []}
                 for n, ctor, kind, deps in shape]
    names = [l['name'] for l in c['libs']]
    c['pc_libs'] = [n for n in names if not any(n in l['deps'] for l in c['libs'])]
    gen_includes(rng, c, rng.randint(1, 3))
    c['auto_fill'] = auto
    if auto:
        c['omit'] = sorted(omit if omit is not None else
                           ['libs'] + rng.sample(['name', 'version', 'includes'],
                                                 rng.randint(0, 3)))
    c['name'] = rng.choice(['foo', 'foo-bar', 'Foo_1'])
    c['options'] = rng.sample(SAFE_OPTS, rng.randint(0, 2)) + \
        ['-DSTR0=' + cstr(rng.choice(['plain', 'two words', "it's"]))]
    c['link_options'] = rng.sample(SAFE_LOPTS[:3], rng.randint(0, 1))
    return c


HDR_DIRS = [{'form': 'rel', 'value': 'demo-1'}, {'form': 'rel', 'value': 'foo/api'},
            {'form': 'path', 'root': 'includedir', 'value': 'abs-inc'},
            {'form': 'path', 'root': 'prefix', 'value': 'headers/v2'},
            {'form': 'path', 'root': 'datadir', 'value': 'foo/include'}, None]
LIB_DIRS = [{'form': 'rel', 'value': 'demo-1'}, {'form': 'rel', 'value': 'foo/plugins'},
            {'form': 'path', 'root': 'libdir', 'value': 'abs-lib'},
            {'form': 'path', 'root': 'prefix', 'value': 'opt/lib'},
            {'form': 'path', 'root': 'exec_prefix', 'value': 'lib32'}, None,
            {'form': 'path', 'root': 'bindir', 'value': 'plugins'},
            {'form': 'path', 'root': 'mandir', 'value': 'odd/lib'}]


def installdir_case(rng, i):
    """install(..., directory=...) for what pkg_config() names or auto-fills:
    built, really installed, consumed from the installed tree."""
    if i % 4 == 3:
        c = libmode_case(rng, LIBMODES[(i // 4) % 3], MODE_SHAPES[(i // 4) % 4],
                         auto=(i // 4) % 2 == 0)
    else:
        c = full_case(rng, LIB_SHAPES[(i * 3 + 2) % len(LIB_SHAPES)], hostile=False,
                      auto=(i % 2 == 1))
        c['requires'], c['requires_private'], c['deps'] = [], [], {}
    h = HDR_DIRS[i % len(HDR_DIRS)]
    l = LIB_DIRS[(i + i // len(LIB_DIRS)) % len(LIB_DIRS)]
    if h is None and l is None:
        l = LIB_DIRS[0]
    c['install_dirs'] = {'headers': h, 'libs': l}
    return c


# (package name, submodules, the .pc names the stand-in mopack resolves it to)
PKG_POOL = [('ext1', [], ['ext1']),
            ('ext2', ['extra'], ['ext2', 'ext2-extra']),
            ('ext3', ['net', 'gui'], ['ext3', 'ext3-net', 'ext3-gui']),
            ('ext4', ['core'], ['ext4-core']),
            ('ext5', ['a'], ['ext5', 'ext5_a'])]
PKG_WHERE = ['requires', 'requires_private', 'conflicts', 'lib:alpha', 'lib:inner',
             'lib:side']


def package_case(rng, where, entry, with_spec, auto, built=False, second=None):
    """External package() objects (resolved through a stand-in mopack to one or
    several hand-written .pc files) as requirements of the description."""
    c = base_case('packages')
    c['build'] = c['consumer'] = built
    c['libs'] = [{'name': 'inner', 'path': 'inner', 'kind': 'static', 'deps': [],
                  'link_options': []},
                 {'name': 'alpha', 'path': 'alpha',
                  'kind': rng.choice(['static', 'static', 'shared'])
                  if where != 'lib:inner' else 'static',
                  'deps': ['inner'], 'link_options': []},
                 {'name': 'side', 'path': 'sub/side', 'kind': 'static', 'deps': [],
                  'link_options': []}]
    if c['libs'][1]['kind'] == 'shared':
        c['libs'][0]['kind'] = 'shared'
    c['pc_libs'] = ['alpha']
    c['pc_libs_private'] = ['side']
    gen_includes(rng, c, 1)
    c['options'] = ['-DNUM=5']
    c['auto_fill'] = auto
    if auto:
        c['omit'] = sorted(rng.sample(['name', 'version'], rng.randint(0, 2)))
    picks = [(where, entry, with_spec)]
    if second:
        picks.append(second)
    for w, (pname, subs, pcnames), spec in picks:
        sp = None
        if spec:
            sp = rng.choice(['>=', '>', '<', '<=', '==', '!=']) + rng.choice(BOUNDS)
        c['packages'].append({'name': pname, 'submodules': list(subs),
                              'pcnames': list(pcnames), 'spec': sp, 'where': w})
        for j, pc in enumerate(pcnames):
            add_dep(c, pc)
            if j == 0 and sp:
                specs = pcref.parse_specs(sp)
                c['deps'][pc]['good'] = [v for v in pcref.grid(specs)
                                         if pcref.set_accepts(specs, v)][0]
            else:
                # the submodules' .pc files are versioned on their own
                c['deps'][pc]['good'] = rng.choice(['0.5', '1.0', '1.7', '2.5', '9.0'])
    if rng.random() < 0.5:
        add_dep(c, 'dep1')
        c[rng.choice(['requires', 'requires_private'])].append(
            ['dep1', rng.choice([None, '>=1.2', '<2.0'])])
        c['deps']['dep1']['good'] = '1.5'
    # the package a LIBRARY brings in (with its own version bound) is also named in the
    # description's explicit lists, without a version or with a bound that excludes nothing
    # more: the two sources of one requirement have to be merged, not one dropped
    w0, (pname0, subs0, pcnames0), spec0 = picks[0]
    if w0.startswith('lib:') and spec0 and rng.random() < 0.7:
        c[rng.choice(['requires', 'requires', 'requires_private'])].append(
            [pcnames0[0], rng.choice([None, None, '>=0.1'])])
        c['explicit_and_library_requirement'] = pcnames0[0]
    return c


def package_cases(rng, quick):
    n = 0
    for rep in range(1 if quick else 4):
        for wi, where in enumerate(PKG_WHERE):
            for ei, entry in enumerate(PKG_POOL):
                for with_spec in (True, False):
                    n += 1
                    if quick and not ((ei + wi) % len(PKG_POOL) in (1, 2) and with_spec
                                      or (ei == wi % len(PKG_POOL) and not with_spec)):
                        continue
                    second = None
                    if n % 4 == 0:
                        e2 = PKG_POOL[(ei + 2) % len(PKG_POOL)]
                        second = (PKG_WHERE[(wi + 1) % 3], e2, n % 8 == 0)
                    yield package_case(rng, where, entry, with_spec,
                                       auto=(n % 3 != 0),
                                       built=(n % (6 if quick else 9) == 1
                                              and where != 'conflicts'),
                                       second=second)


def mixed_case(rng):
    """Several hostile values at once, never built."""
    c = base_case('mixed')
    gen_libs(rng, c, rng.choice(LIB_SHAPES[:4]), subdirs=True)
    gen_includes(rng, c, rng.randint(1, 3), hostile=rng.randint(0, 2))
    def hv():
        return ''.join(rng.choice(['a', 'b', rng.choice(TOKENS)])
                       for _ in range(rng.randint(2, 4)))
    c['options'] = ['-DK0=1'] + ['-DM%d=%s' % (i, hv())
                                 for i in range(rng.randint(1, 3))] + ['-DK1=2']
    if rng.random() < 0.5:
        c['link_options'] = ['-rdynamic', '-Wl,-rpath,/q/' + hv()]
    if rng.random() < 0.3:
        c['link_options_private'] = ['-Wl,-rpath,/p/' + hv()]
    c['auto_fill'] = rng.random() < 0.3
    if c['auto_fill']:
        c['omit'] = sorted(rng.sample(['name', 'version'], rng.randint(0, 2)))
    if rng.random() < 0.3:
        key = rng.choice(['src', 'build', 'prefix'])
        c['roots'][key] = place(rng.choice([' ', "'", '$', '&', '(', '"', '~', '%']),
                                'mid')
    return c


CORNER_SETS = ['>=1.2,<=1.2,!=1.2', '>=1.2,<=1.2', '==1.5,!=1.5', '>1.5,<1.5',
               '>=1.5,<1.5', '>=1.9,>=1.10', '<1.10,<1.9', '<=1.10,<1.10',
               '==1.10,>=1.9', '==1.9,>=1.10', '!=1.5', '!=1.5,!=1.6', '>=1.5,!=1.2',
               '>1.2,>=1.2', '==1.2,==1.2', '==1.2,==1.3']


def corner_cases(quick=False):
    for i, text in enumerate(CORNER_SETS):
        for key in ('requires', 'requires_private', 'conflicts'):
            if quick and key == ('requires_private' if i % 2 else 'requires'):
                continue
            c = base_case('versions')
            c['corner'] = True
            c['auto_fill'] = True
            add_dep(c, 'dep1')
            c[key] = [['dep1', text]]
            if key == 'conflicts':
                c['requires'] = [['dep1', None]]
            if fix_good_versions(c):
                yield c


def cases(tier, seed):
    q = tier == 'quick'
    rng = core.rng_for(seed, 'c17', tier)
    out = list(corner_cases(q))
    # phase A: single-token probes
    positions = ['mid'] if q else ['mid', 'lead', 'trail']
    for ctx in CONTEXTS_VALUE:
        for t in TOKENS:
            for pos in positions:
                if q and ctx == 'private-link-option' and rng.random() < 0.7:
                    continue
                if q and ctx == 'link-option' and t not in (' ', '#', "'", '$', '${x}') \
                        and rng.random() < 0.5:
                    continue
                out.append(probe_case(ctx, t, pos))
    for ctx in CONTEXTS_PATH:
        for t in PATH_TOKENS:
            for pos in positions:
                if pos == 'lead' and t in ('~',):
                    continue     # "~x" components are outside the quantifier
                if ctx != 'include-dir' and pos != 'mid':
                    continue     # root directories: the token inside the name only
                if q and ctx != 'include-dir' and t not in (' ', '#', "'", '$') and \
                        rng.random() < 0.75:
                    continue
                out.append(probe_case(ctx, t, pos))
    # phase B: mixed hostile descriptions
    for _ in range(6 if q else 250):
        out.append(mixed_case(rng))
    # phase C: built + installed + consumer
    shapes = list(LIB_SHAPES)
    nfull = 20 if q else 260
    for i in range(nfull):
        shape = shapes[i % len(shapes)]
        # every shape once with explicit arguments, once filled from install()
        out.append(full_case(rng, shape, hostile=(i % 3 == 2),
                             auto=((i // len(shapes)) % 2 == 1) and
                             ('empty-libs' if i % 4 == 1 else True),
                             also=True if i % len(shapes) == 3 else None))
    # phase C2: library() objects under every buildable library mode; auto_fill
    # from the install()ed set and explicit libs=
    for rep in range(1 if q else 8):
        for mi, mode in enumerate(LIBMODES):
            for si, shape in enumerate(MODE_SHAPES):
                for auto in (True, False):
                    if q and not (auto and si in (1, 2)) and \
                            not (not auto and si == (mi + 1) % len(MODE_SHAPES)):
                        continue
                    out.append(libmode_case(rng, mode, shape, auto))
    # phase C2b: install(..., directory=...)
    for i in range(8 if q else 72):
        out.append(installdir_case(rng, i))
    # phase C3: external package() objects as requirements
    out += list(package_cases(rng, q))
    # phase D: versions
    for want, n in (('single', 7 if q else 150), ('multi', 12 if q else 300),
                    ('unsat', 5 if q else 60), ('conflicts', 6 if q else 100)):
        for i in range(n):
            out.append(versions_case(rng, want, by_tool=(i % 3 != 2)
                                     if want == 'conflicts' else None))
    for _ in range(2 if q else 25):
        out.append(unsat_conflicts_case(rng))
    # interleave long (full) cases early so that the pool drains evenly
    fulls = [c for c in out if c['kind'] == 'full']
    rest = [c for c in out if c['kind'] != 'full']
    rng.shuffle(rest)
    ordered = []
    step = max(1, len(rest) // max(1, len(fulls)))
    ri = 0
    for f in fulls:
        ordered.append(f)
        ordered += rest[ri:ri + step // 2]
        ri += step // 2
    ordered += rest[ri:]
    for i, c in enumerate(ordered):
        c['idx'] = i
        yield c


# --------------------------------------------------------------------------
# rendering a description as a project

def lib_by_name(c):
    return {l['name']: l for l in c['libs']}


def lib_value(c, name, memo=None):
    """What f_<name>() returns: its own id plus its dependencies' values."""
    libs = lib_by_name(c)
    ids = {l['name']: i + 1 for i, l in enumerate(c['libs'])}
    memo = {} if memo is None else memo
    if name not in memo:
        memo[name] = ids[name] * 7 + sum(lib_value(c, d, memo)
                                         for d in libs[name]['deps'])
    return memo[name]


def render_project(c):
    """-> {relpath: content} for the source tree."""
    files = {}
    lines = []
    pv = c['project']['version']
    lines.append('project(%r%s)' % (c['project']['name'],
                                    ', version=%r' % pv if pv else ''))
    var = {}
    for i, l in enumerate(c['libs']):
        var[l['name']] = 'lib_%d' % i
        src = 'code_%s.c' % l['name']
        # every user of a library calls it through an entry point of its own, which lives in
        # an archive member of its own: a static link line that names the library before one
        # of its users then fails for exactly that user, whoever else pulled other members in
        body = ''.join('int f_%s_for_%s(void);\n' % (d, l['name']) for d in l['deps'])
        body += 'int f_%s(void) { return %d%s; }\n' % (
            l['name'], (i + 1) * 7,
            ''.join(' + f_%s_for_%s()' % (d, l['name']) for d in l['deps']))
        files[src] = body
        srcs = [src]
        for u in c['libs']:
            if l['name'] in u['deps']:
                us = 'code_%s_for_%s.c' % (l['name'], u['name'])
                files[us] = ('int f_%s(void);\nint f_%s_for_%s(void) { return f_%s(); }\n'
                             % (l['name'], l['name'], u['name'], l['name']))
                srcs.append(us)
        args = [repr(l['path']), 'files=%r' % srcs]
        ctor = l.get('ctor', 'library')
        decl = l.get('decl_kind', l['kind'])
        if ctor == 'library' and decl != 'auto':
            args.append('kind=%r' % decl)
        if l['deps']:
            args.append('libs=[%s]' % ', '.join(var[d] for d in l['deps']))
        if l.get('link_options'):
            args.append('link_options=%r' % l['link_options'])
        lines.append('%s = %s(%s)' % (var[l['name']], ctor, ', '.join(args)))
    hvars = []
    for i, inc in enumerate(c['includes']):
        files[inc['dir'] + '/' + inc['header']] = (
            '#define %s %d\n' % (inc['macro'], inc['value']))
        if inc['form'] == 'file':
            lines.append('hdr_%d = header_file(%r)' % (i, inc['dir'] + '/' +
                                                       inc['header']))
        else:
            lines.append('hdr_%d = header_directory(%r, include=%r)' % (
                i, inc['dir'], '*.h'))
        hvars.append('hdr_%d' % i)
    pkgs = c.get('packages') or []
    pkg_lines = []
    for i, pk in enumerate(pkgs):
        a = [repr(pk['name'])]
        if pk['submodules']:
            a.append(repr(pk['submodules'] if len(pk['submodules']) > 1 or i % 2
                          else pk['submodules'][0]))
        if pk['spec'] is not None:
            a.append('version=%r' % pk['spec'])
        pkg_lines.append('pkg_%d = package(%s)' % (i, ', '.join(a)))
    # package() objects are created before the libraries that use them
    lines[1:1] = pkg_lines
    for i, pk in enumerate(pkgs):
        if pk['where'].startswith('lib:'):
            ln = var[pk['where'][4:]]
            for j, line in enumerate(lines):
                if line.startswith(ln + ' = '):
                    if 'packages=[' in line:
                        lines[j] = line.replace('packages=[', 'packages=[pkg_%d, ' % i)
                    else:
                        lines[j] = line[:-1] + ', packages=[pkg_%d])' % i
    pub = [var[n] for n in c['pc_libs']]
    priv = [var[n] for n in c['pc_libs_private']]
    omit = set(c['omit']) if c['auto_fill'] else set()
    kw = []
    idirs = c.get('install_dirs')
    if idirs:
        # everything the description names is installed by the script itself, to
        # places of the script's choosing, before pkg_config() sees it
        def dir_arg(d):
            if d is None:
                return ''
            if d['form'] == 'rel':
                return ', directory=%r' % d['value']
            return ', directory=Path(%r, InstallRoot.%s)' % (d['value'], d['root'])
        if hvars:
            lines.append('install(%s%s)' % (', '.join(hvars), dir_arg(idirs['headers'])))
        if pub + priv:
            lines.append('install(%s%s)' % (', '.join(pub + priv),
                                            dir_arg(idirs['libs'])))
    elif 'includes' in omit or 'libs' in omit:
        inst = (hvars if 'includes' in omit else []) + (pub if 'libs' in omit else [])
        if inst:
            lines.append('install(%s)' % ', '.join(inst))
    if 'name' not in omit:
        kw.append(repr(c['name']))
    if 'version' not in omit and c['version'] is not None:
        kw.append('version=%r' % c['version'])
    if 'includes' not in omit and hvars:
        kw.append('includes=[%s]' % ', '.join(hvars))
    if 'libs' not in omit and pub:
        kw.append('libs=[%s]' % ', '.join(pub))
    elif c.get('installed_only_libs'):
        lines.append('install(%s)' % ', '.join(var[n] for n in c['installed_only_libs']))
        kw.append('libs=[]')
    if priv:
        kw.append('libs_private=[%s]' % ', '.join(priv))
    for key in ('options', 'link_options', 'link_options_private'):
        if c[key]:
            kw.append('%s=%r' % (key, c[key]))
    for key in ('requires', 'requires_private', 'conflicts'):
        lit = c.get('literal_' + key, c[key])
        items = [repr(n) if s is None else repr((n, s)) for n, s in lit]
        items += ['pkg_%d' % i for i, pk in enumerate(pkgs) if pk['where'] == key]
        if items:
            kw.append('%s=[%s]' % (key, ', '.join(items)))
    if c['auto_fill']:
        kw.append('auto_fill=True')
    lines.append('pkg_config(%s)' % ', '.join(kw))
    files['build.bfg'] = '\n'.join(lines) + '\n'
    return files


def expected_name(c):
    if c['auto_fill'] and 'name' in c['omit']:
        return c['project']['name']
    return c['name']


def expected_version(c):
    if c['auto_fill'] and 'version' in c['omit']:
        return c['project']['version'] or '0.0'
    return c['version'] or '0.0'


def dep_pc(name, d, version):
    return ('Name: %s\nDescription: dummy dependency\nVersion: %s\n'
            'Cflags: -DDEP_%d=1\nLibs: -L${pcfiledir}/L_%d\n' %
            (name, version, d['id'], d['id']))


class Layout:
    def __init__(self, c, root):
        r = c['roots']
        self.root = root
        self.src = os.path.join(root, 'S', r['src'])
        self.build = os.path.join(root, 'B', r['build'])
        self.prefix = os.path.join(root, 'P', r['prefix'])
        self.libdir = os.path.join(self.prefix, r['libdir'] or 'lib')
        self.includedir = os.path.join(self.prefix, r['includedir'] or 'include')
        self.deps = os.path.join(root, 'deps')
        self.cal = os.path.join(root, 'cal')
        self.empty = os.path.join(root, 'empty')
        for d in (self.deps, self.cal, self.empty):
            os.makedirs(d, exist_ok=True)

    def install_base(self, default_root, d):
        """Where install(x, directory=d) puts things whose default root is
        default_root: a string is appended to the default location, a Path
        replaces it."""
        roots = {'prefix': self.prefix, 'exec_prefix': self.prefix,
                 'libdir': self.libdir, 'includedir': self.includedir,
                 'datadir': os.path.join(self.prefix, 'share'),
                 'bindir': os.path.join(self.prefix, 'bin'),
                 'mandir': os.path.join(self.prefix, 'share', 'man')}
        if d is None:
            return roots[default_root]
        if d['form'] == 'rel':
            return os.path.join(roots[default_root], d['value'])
        return os.path.join(roots[d['root']], d['value'])

    def configure_args(self, c):
        a = ['--prefix', self.prefix]
        if c['roots']['libdir']:
            a += ['--libdir', self.libdir]
        if c['roots']['includedir']:
            a += ['--includedir', self.includedir]
        mode = c.get('libmode')
        if mode:
            a.append('--enable-shared' if mode['shared'] else '--disable-shared')
            a.append('--enable-static' if mode['static'] else '--disable-static')
        return a


def write_deps(c, lay, versions=None):
    for name, d in c['deps'].items():
        v = (versions or {}).get(name) or d['good'] or '1.0'
        with open(os.path.join(lay.deps, name + '.pc'), 'w') as f:
            f.write(dep_pc(name, d, v))


# --------------------------------------------------------------------------
# running pkg-config byte-exactly

def pkgconf(args, pcpath, extra_env=None, timeout=60):
    env = core.base_env({'PKG_CONFIG_PATH': os.pathsep.join(pcpath),
                         'PKG_CONFIG_LIBDIR': '/nonexistent-verif'})
    if extra_env:
        env.update(extra_env)
    try:
        p = subprocess.run(['pkg-config'] + list(args), env=env,
                           stdout=subprocess.PIPE, stderr=subprocess.PIPE,
                           timeout=timeout)
    except subprocess.TimeoutExpired:
        raise core.Timeout('pkg-config ' + ' '.join(args))
    return p.returncode, p.stdout, p.stderr.decode('utf-8', 'replace')


_cal_lock = threading.Lock()
_cal_cache = {}
_cal_seq = [0]


def calibrate(lay, field, arg):
    """Can a hand-written .pc make pkgconf print `arg` as one argument of `field`
    (Cflags|Libs)?  -> escaper name | None.  Cached per (field, arg)."""
    if all(ch in _PLAIN for ch in arg):
        return 'plain'
    key = (field, arg)
    with _cal_lock:
        if key in _cal_cache:
            return _cal_cache[key]
        _cal_seq[0] += 1
        seq = _cal_seq[0]
    result = None
    for ename, esc in pcref.ESCAPERS:
        d = os.path.join(lay.cal, 'c%d_%s' % (seq, ename))
        os.makedirs(d, exist_ok=True)
        try:
            text = ('Name: cal\nDescription: calibration\nVersion: 1\n%s: -DPRE=1 %s '
                    '-DPOST=1\n' % (field, esc(arg)))
            with open(os.path.join(d, 'cal.pc'), 'w', encoding='utf-8',
                      errors='surrogateescape') as f:
                f.write(text)
        except (UnicodeError, OSError):
            continue
        rc, out, err = pkgconf(['--cflags' if field == 'Cflags' else '--libs', 'cal'],
                               [d])
        if rc == 0 and pcref.split_output(out) == ['-DPRE=1', arg, '-DPOST=1']:
            result = ename
            break
    with _cal_lock:
        _cal_cache[key] = result
    return result


_glob_lock = threading.Lock()
_glob_cal = {}


def global_calibration(lay):
    """Once per process: how does this pkgconf treat Requires.private and
    Conflicts in `--exists`?"""
    with _glob_lock:
        if _glob_cal:
            return _glob_cal
        d = os.path.join(lay.cal, 'glob')
        os.makedirs(d, exist_ok=True)

        def w(name, text):
            with open(os.path.join(d, name + '.pc'), 'w') as f:
                f.write(text)
        head = 'Name: x\nDescription: x\nVersion: 1.0\n'
        w('old', 'Name: old\nDescription: x\nVersion: 1.0\nCflags: -DOLD\nLibs: -lold\n')
        w('rpub', head + 'Requires: old >= 2.0\n')
        w('rpriv', head + 'Requires.private: old >= 2.0\n')
        w('rpriv_ok', head + 'Requires.private: old >= 0.5\nLibs: -lx\n')
        w('conf', head + 'Conflicts: old < 2.0\n')
        w('confreq', head + 'Requires: old\nConflicts: old < 2.0\n')
        w('confreq_ok', head + 'Requires: old\nConflicts: old > 2.0\n')
        w('two', head + 'Requires: old >= 0.5, old < 0.9\n')
        g = {}
        g['requires_enforced'] = pkgconf(['--exists', 'rpub'], [d])[0] != 0
        g['requires_private_enforced'] = pkgconf(['--exists', 'rpriv'], [d])[0] != 0
        g['requires_multi_entry_conjunction'] = pkgconf(['--exists', 'two'], [d])[0] != 0
        g['conflicts_enforced_vs_siblings'] = pkgconf(['--exists', 'conf', 'old'],
                                                      [d])[0] != 0
        g['conflicts_enforced_vs_own_requires'] = (
            pkgconf(['--exists', 'confreq'], [d])[0] != 0 and
            pkgconf(['--exists', 'confreq_ok'], [d])[0] == 0)
        rc, out, _ = pkgconf(['--cflags', 'rpriv_ok'], [d])
        g['private_cflags_in_cflags'] = b'-DOLD' in out
        rc, out, _ = pkgconf(['--libs', 'rpriv_ok'], [d])
        g['private_libs_in_plain_libs'] = b'-lold' in out
        rc, out, _ = pkgconf(['--libs', '--static', 'rpriv_ok'], [d])
        g['private_libs_in_static_libs'] = b'-lold' in out
        _glob_cal.update(g)
        return _glob_cal


# --------------------------------------------------------------------------
# the model: what each form must denote

def real(p):
    return os.path.realpath(p)


def closure(c, names, through_shared):
    libs = lib_by_name(c)
    seen = []

    def walk(n):
        for d in libs[n]['deps']:
            if d not in seen:
                seen.append(d)
            if libs[d]['kind'] == 'static' or through_shared:
                walk(d)
    for n in names:
        if libs[n]['kind'] == 'static' or through_shared:
            walk(n)
    return seen


def model(c, lay, form):
    libs = lib_by_name(c)
    m = {}
    if form == 'uninstalled':
        inc = []
        for i in c['includes']:
            p = real(os.path.join(lay.src, i['dir']))
            if p not in inc:
                inc.append(p)

        def libdir(l):
            return real(os.path.join(lay.build, os.path.dirname(l['path'])))
    else:
        idirs = c.get('install_dirs') or {'headers': None, 'libs': None}
        inc = [real(lay.install_base('includedir', idirs['headers']))] \
            if c['includes'] else []
        lbase = lay.install_base('libdir', idirs['libs'])

        def libdir(l):
            # (what a library needs is installed along with it, to the same place)
            return real(os.path.join(lbase, os.path.dirname(l['path'])))
    m['include_dirs'] = inc
    m['options'] = list(c['options'])
    pub = list(c['pc_libs'])
    priv = [n for n in c['pc_libs_private'] if n not in pub]
    need = [n for n in closure(c, pub + priv, False) if n not in pub and n not in priv]
    may = [n for n in closure(c, pub + priv, True) if n not in pub and n not in priv]
    m['libs_plain'] = pub
    m['libs_static_required'] = pub + priv + need
    m['libs_static_allowed'] = pub + priv + may
    m['static_order'] = pub + priv + need
    m['libdirs_plain'] = sorted({libdir(libs[n]) for n in pub})
    m['libdirs_static_required'] = sorted({libdir(libs[n]) for n in pub + priv + need})
    m['libdirs_static_allowed'] = sorted({libdir(libs[n]) for n in pub + priv + may})
    m['libdir_of'] = {n: libdir(libs[n]) for n in libs}
    m['link_options'] = list(c['link_options'])
    fwd = []
    for n in pub + priv + need:
        if libs[n]['kind'] == 'static':
            for o in libs[n].get('link_options', []):
                if o not in fwd:
                    fwd.append(o)
    m['link_options_static'] = list(c['link_options']) + fwd + \
        list(c['link_options_private'])
    pubreq = []
    for n, s in c['requires']:
        if n not in pubreq:
            pubreq.append(n)
    privreq = []
    for n, s in c['requires_private']:
        if n not in pubreq and n not in privreq:
            privreq.append(n)
    m['requires_public'] = pubreq
    m['requires_private'] = privreq
    m['name'] = expected_name(c)
    m['version'] = expected_version(c)
    return m


def parse_cflags(args, c, lay):
    inc, others, deps = [], [], []
    markers = {'-DDEP_%d=1' % d['id']: n for n, d in c['deps'].items()}
    i = 0
    while i < len(args):
        a = args[i]
        if a == '-I' and i + 1 < len(args):
            inc.append(real(args[i + 1]))
            i += 2
            continue
        if a.startswith('-I'):
            inc.append(real(a[2:]))
        elif a in markers:
            deps.append(markers[a])
        else:
            others.append(a)
        i += 1
    return {'include_dirs': inc, 'others': others, 'deps': deps}


def parse_libs(args, c, lay):
    dirs, names, others, deps = [], [], [], []
    markers = {real(os.path.join(lay.deps, 'L_%d' % d['id'])): n
               for n, d in c['deps'].items()}
    i = 0
    while i < len(args):
        a = args[i]
        val = None
        if a in ('-L', '-l') and i + 1 < len(args):
            a, val = a, args[i + 1]
            i += 1
        elif a.startswith('-L') or a.startswith('-l'):
            a, val = a[:2], a[2:]
        if val is None:
            others.append(a)
        elif a == '-L':
            p = real(val)
            if p in markers:
                deps.append(markers[p])
            else:
                dirs.append(p)
        else:
            names.append(val)
        i += 1
    return {'libdirs': dirs, 'libs': names, 'others': others, 'deps': deps}


def uniq(seq):
    out = []
    for x in seq:
        if x not in out:
            out.append(x)
    return out


def judge_cflags(m, got, g):
    """-> list of (what, expected, got)"""
    bad = []
    if got is None:
        return [('unparseable', None, None)]
    if sorted(set(got['include_dirs'])) != sorted(set(m['include_dirs'])):
        bad.append(('include-dirs', m['include_dirs'], got['include_dirs']))
    if got['others'] != m['options']:
        bad.append(('options', m['options'], got['others']))
    want = set(m['requires_public']) | (set(m['requires_private'])
                                        if g['private_cflags_in_cflags'] else set())
    if set(got['deps']) != want:
        bad.append(('dependency-cflags', sorted(want), sorted(set(got['deps']))))
    return bad


def judge_libs(m, got, g, static):
    bad = []
    if got is None:
        return [('unparseable', None, None)]
    if not static:
        if got['libs'] != m['libs_plain']:
            bad.append(('libs', m['libs_plain'], got['libs']))
        if sorted(set(got['libdirs'])) != m['libdirs_plain']:
            bad.append(('libdirs', m['libdirs_plain'], got['libdirs']))
        if got['others'] != m['link_options']:
            bad.append(('link-options', m['link_options'], got['others']))
        want = set(m['requires_public'])
        if g['private_libs_in_plain_libs']:
            want |= set(m['requires_private'])
        if set(got['deps']) != want:
            bad.append(('dependency-libs', sorted(want), sorted(set(got['deps']))))
    else:
        gl = set(got['libs'])
        if not (set(m['libs_static_required']) <= gl <= set(m['libs_static_allowed'])):
            bad.append(('libs-static', m['libs_static_required'], got['libs']))
        gd = set(got['libdirs'])
        if not (set(m['libdirs_static_required']) <= gd <=
                set(m['libdirs_static_allowed'])):
            bad.append(('libdirs-static', m['libdirs_static_required'],
                        got['libdirs']))
        if set(got['others']) != set(m['link_options_static']):
            bad.append(('link-options-static', m['link_options_static'],
                        got['others']))
        want = set(m['requires_public'])
        if g['private_libs_in_static_libs']:
            want |= set(m['requires_private'])
        if set(got['deps']) != want:
            bad.append(('dependency-libs-static', sorted(want),
                        sorted(set(got['deps']))))
    return bad


# --------------------------------------------------------------------------
# the hand-written reference .pc for a whole description

def reference_pc(c, lay, m, esc_of):
    def e(field, arg):
        name = esc_of.get((field, arg), 'plain')
        if name == 'plain':
            return arg
        return dict(pcref.ESCAPERS)[name](arg)
    cflags = ['-I' + p for p in m['include_dirs']] + m['options']
    libs, seen = [], []
    for n in m['libs_plain']:
        d = '-L' + m['libdir_of'][n]
        if d not in seen:
            seen.append(d)
            libs.append(d)
        libs.append('-l' + n)
    libs += m['link_options']
    lp, seenp = [], []
    for o in m['link_options_static']:
        if o not in m['link_options']:
            lp.append(o)
    for n in m['static_order']:
        if n in m['libs_plain']:
            continue
        d = '-L' + m['libdir_of'][n]
        if d not in seenp:
            seenp.append(d)
            lp.append(d)
        lp.append('-l' + n)
    lines = ['Name: %s' % m['name'], 'Description: hand-written reference',
             'Version: %s' % m['version']]
    pubs, privs = [], []
    for n in m['requires_public']:
        pubs += pcref.pc_requirement_entries(n, combined(c, n))
    for n in m['requires_private']:
        privs += pcref.pc_requirement_entries(n, combined(c, n))
    confs = []
    for n in uniq(x for x, y in c['conflicts']):
        cs = conflict_specs(c, n)
        if len(cs) <= 1:       # several conditions on one package: not expressible
            confs += pcref.pc_requirement_entries(n, cs)
    if confs:
        lines.append('Conflicts: ' + ', '.join(confs))
    if pubs:
        lines.append('Requires: ' + ', '.join(pubs))
    if privs:
        lines.append('Requires.private: ' + ', '.join(privs))
    if cflags:
        lines.append('Cflags: ' + ' '.join(e('Cflags', a) for a in cflags))
    if libs:
        lines.append('Libs: ' + ' '.join(e('Libs', a) for a in libs))
    if lp:
        lines.append('Libs.private: ' + ' '.join(e('Libs', a) for a in lp))
    return '\n'.join(lines) + '\n'


# --------------------------------------------------------------------------
# observation of one .pc through pkg-config

def observe(name, pcpath, c, lay, extra_env=None):
    o = {}
    rc, out, err = pkgconf(['--modversion', name], pcpath, extra_env)
    o['modversion'] = out.decode('utf-8', 'replace').strip() if rc == 0 else None
    o['modversion_err'] = err.strip()[:300]
    for key, args in (('cflags', ['--cflags']), ('libs', ['--libs']),
                      ('static', ['--libs', '--static'])):
        rc, out, err = pkgconf(args + [name], pcpath, extra_env)
        o[key + '_raw'] = out.decode('utf-8', 'replace')
        o[key + '_rc'] = rc
        o[key + '_err'] = err.strip()[:300]
        argv = pcref.split_output(out) if rc == 0 else None
        o[key + '_argv'] = argv
        if argv is None:
            o[key] = None
        elif key == 'cflags':
            o[key] = parse_cflags(argv, c, lay)
        else:
            o[key] = parse_libs(argv, c, lay)
    rc, out, err = pkgconf(['--print-requires', name], pcpath, extra_env)
    o['requires'] = [l.split()[0] for l in out.decode().splitlines() if l.strip()] \
        if rc == 0 else None
    rc, out, err = pkgconf(['--print-requires-private', name], pcpath, extra_env)
    o['requires_private'] = [l.split()[0] for l in out.decode().splitlines()
                             if l.strip()] if rc == 0 else None
    return o


# --------------------------------------------------------------------------
# classification helpers

def field_contexts(c, what, form):
    """(context, value) pairs that feed the failing field."""
    pairs = []
    r = c['roots']
    if what in ('include-dirs', 'options', 'dependency-cflags', 'unparseable-cflags'):
        pairs += [('option', o) for o in c['options']]
        if form == 'uninstalled':
            pairs += [('include-dir', i['dir']) for i in c['includes']]
            pairs.append(('srcdir', r['src']))
        else:
            pairs.append(('prefix', r['prefix']))
    else:
        pairs += [('link-option', o) for o in c['link_options']]
        pairs += [('private-link-option', o) for o in c['link_options_private']]
        if form == 'uninstalled':
            pairs.append(('builddir', r['build']))
        else:
            pairs.append(('prefix', r['prefix']))
    return pairs


_single_lock = threading.Lock()
_single_cache = {}


def singleton_fails(context, token):
    """Does the one-token probe for (context, token) violate oracle (1)?  Cached.
    -> (fails: bool|None, case, {what that failed})"""
    key = (context, token)
    with _single_lock:
        if key in _single_cache:
            return _single_cache[key]
    pc = probe_case(context, token, 'mid')
    pc['idx'] = -1
    sub = CaseResult()
    whats = set()
    try:
        _run(pc, sub, classify=False)
        fails = bool(sub.violations)
        whats = {w.get('what') for mech, w in sub.violations}
        if sub.inconclusive or sub.excluded.get('value-not-carried:' + context):
            fails = None
    except core.Timeout:
        fails = None
    with _single_lock:
        _single_cache[key] = (fails, pc, whats)
    return fails, pc, whats


def control_whats(context):
    """What fails for the same description with a harmless token: such a failure
    has nothing to do with the hostile token."""
    return singleton_fails(context, 'x')[2]


def report_flag_mismatch(res, c, form, field, bad, obs, classify):
    """Turn oracle-(1) mismatches into violations with root-cause tuples."""
    probe = c.get('probe')
    for what, exp, got in bad:
        wit = {'form': form, 'field': field, 'what': what, 'expected': exp, 'got': got,
               'raw_output': obs.get(field + '_raw'), 'rc': obs.get(field + '_rc'),
               'stderr': obs.get(field + '_err'), 'pc_name': expected_name(c)}
        if what.startswith('dependency-'):
            res.violate(('requires', 'public-private-split', what), wit)
            continue
        if probe:
            wit.update(context=probe['context'], token=probe['token'],
                       pos=probe['pos'])
            mech = ('pc-flags', probe['context'], probe['token'])
            if classify and what in control_whats(probe['context']):
                mech = ('pc-flags', 'structural', what)
            elif probe['pos'] != 'mid' and classify:
                # a cause that only bites at the edge of a value is another cause
                fails = singleton_fails(probe['context'], probe['token'])[0]
                if fails is False:
                    mech += (probe['pos'],)
            res.violate(mech, wit)
            continue
        if not classify:
            res.violate(('pc-flags', 'unclassified', what), wit)
            continue
        w2 = 'unparseable-' + field if what == 'unparseable' else what
        culprits = []
        seen = set()
        for ctx, val in field_contexts(c, w2, form):
            for tok in tokens_of(val):
                if (ctx, tok) in seen:
                    continue
                seen.add((ctx, tok))
                fails, pc, whats = singleton_fails(ctx, tok)
                if fails and not (whats <= control_whats(ctx)):
                    culprits.append((ctx, tok, pc))
        if culprits:
            for ctx, tok, pc in culprits:
                w = dict(wit)
                w.update(context=ctx, token=tok, pos='mid', found_in=c.get('kind'),
                         __case__=pc)
                res.violate(('pc-flags', ctx, tok), w)
        else:
            # no single hostile token reproduces it: the structure of the description
            wit['lib_graph'] = {l['name']: [l['kind'], l['path']] + l['deps']
                                for l in c['libs']}
            wit['pc_libs'] = c['pc_libs']
            wit['pc_libs_private'] = c['pc_libs_private']
            wit['auto_fill'] = c['auto_fill']
            wit['omit'] = c['omit']
            res.violate(('pc-flags', 'structural', what), wit)


# --------------------------------------------------------------------------
# the consumer

def consumer_source(c, m, uses=None):
    """uses: the public libraries this consumer calls (default: all of them)."""
    uses = m['libs_plain'] if uses is None else uses
    lines = ['#include <string.h>']
    for i in c['includes']:
        lines.append('#include <%s>' % i['header'])
    for n in uses:
        lines.append('extern int f_%s(void);' % n)
    lines.append('int main(void) {')
    code = 10
    for i in c['includes']:
        lines.append('  if (%s != %d) return %d;' % (i['macro'], i['value'], code))
        code += 1
    for o in c['options']:
        if o.startswith('-DSTR'):
            nm, val = o[2:].split('=', 1)
            lines.append('  if (strcmp(%s, %s) != 0) return %d;' % (nm, val, code))
        elif o.startswith('-D') and '=' in o and o.split('=', 1)[1].isdigit():
            nm, val = o[2:].split('=', 1)
            lines.append('  if (%s != %s) return %d;' % (nm, val, code))
        elif o.startswith('-D') and '=' not in o:
            lines.append('#ifndef %s\n  return %d;\n#endif' % (o[2:], code))
        code += 1
    for dn in m['requires_public'] + m['requires_private']:
        # (a package that is only in conflicts= contributes no flags)
        lines.append('#ifndef DEP_%d\n  return %d;\n#endif' % (c['deps'][dn]['id'],
                                                               code))
        code += 1
    for n in uses:
        lines.append('  if (f_%s() != %d) return %d;' % (n, lib_value(c, n), code))
        code += 1
    lines.append('  return 0;\n}')
    return '\n'.join(lines) + '\n'


def err_class(out):
    for pat, cls in (('undefined reference', 'undefined-reference'),
                     ('cannot find -l', 'cannot-find-library'),
                     ('No such file or directory', 'missing-file'),
                     ('error while loading shared libraries', 'loader'),
                     ('#error', 'error-directive'),
                     ('undeclared', 'undeclared'),
                     ('error:', 'compile-error')):
        if pat in out:
            return cls
    return 'other'


def run_consumer(res, c, lay, m, form, obs, use_static, uses=None):
    d = os.path.join(lay.root, 'cons_' + form)
    os.makedirs(d, exist_ok=True)
    with open(os.path.join(d, 'consumer.c'), 'w', encoding='utf-8',
              errors='surrogateescape') as f:
        f.write(consumer_source(c, m, uses))
    cflags = obs['cflags_argv']
    libs = obs['static_argv'] if use_static else obs['libs_argv']
    env = core.base_env()
    wit = {'form': form, 'static': use_static, 'cflags': cflags, 'libs': libs,
           'pc_libs': c['pc_libs'], 'pc_libs_private': c['pc_libs_private'],
           'consumer_calls': list(m['libs_plain'] if uses is None else uses),
           'lib_graph': {l['name']: [l['kind']] + l['deps'] for l in c['libs']}}
    rc, out = core.run(['gcc'] + cflags + ['-c', 'consumer.c', '-o', 'consumer.o'],
                       cwd=d, env=env, timeout=120)
    if rc != 0:
        wit['output'] = out[-1500:]
        res.violate(('consumer', 'compile', err_class(out)), wit)
        return
    rc, out = core.run(['gcc', 'consumer.o'] + libs + ['-o', 'consumer'],
                       cwd=d, env=env, timeout=120)
    if rc != 0:
        wit['output'] = out[-1500:]
        cls = err_class(out)
        if cls == 'undefined-reference':
            # a static library listed before a static library that needs it (and
            # not again after it) cannot satisfy it
            seq = [a[2:] for a in libs if a.startswith('-l')]
            byname = lib_by_name(c)
            for i, y in enumerate(seq):
                for x in (byname.get(y) or {'deps': []})['deps']:
                    if byname[y]['kind'] == 'static' and x in seq and \
                            max(j for j, z in enumerate(seq) if z == x) < i:
                        cls = 'static-order:dependency-listed-before-dependent'
                        wit['dependent'], wit['dependency'] = y, x
        res.violate(('consumer', 'link', cls), wit)
        return
    ldp = [a[2:] for a in libs if a.startswith('-L')]
    env2 = core.base_env({'LD_LIBRARY_PATH': os.pathsep.join(ldp)})
    rc, out = core.run([os.path.join(d, 'consumer')], cwd=d, env=env2, timeout=60)
    if rc != 0:
        wit['output'] = out[-800:]
        wit['exit'] = rc
        res.violate(('consumer', 'run', err_class(out) if rc > 100 or rc < 0
                     else 'wrong-value'), wit)
        return
    res.ev('consumer:built_and_ran')
    res.ev('consumer:' + form + (':static' if use_static else ':plain'))


# --------------------------------------------------------------------------
# versions

def ops_sig(specs):
    return ','.join(sorted({op for op, b in specs})) or 'unversioned'


def conflict_specs(c, dep):
    out = []
    for n, s in c['conflicts']:
        if n == dep:
            out += pcref.parse_specs(s)
    return out


def spec_feature(specs, minimal=True):
    """A root-cause label computed from a (minimised) specifier list."""
    ups = [b for op, b in specs if op in ('<', '<=')]
    los = [b for op, b in specs if op in ('>', '>=')]
    for side in (ups, los):
        if minimal and not (len(specs) == 2 and len(side) == 2):
            continue
        for a in side:
            for b in side:
                if a != b and (pcref.vt(a) < pcref.vt(b)) != (a < b):
                    return 'same-side-bounds-in-string-order'
    return ops_sig(specs)


def mini_requires_case(dep, specs, key='requires'):
    m = base_case('versions')
    add_dep(m, dep)
    m[key] = [[dep, spec_text(specs)]]
    m['idx'] = -1
    m['auto_fill'] = True     # configure must not itself load what it wrote
    if key == 'conflicts':
        m['requires'] = [[dep, None]]
    if not fix_good_versions(m):
        return None
    return m


def minimise_specs(dep, specs, fails_like):
    """Greedy: drop specifiers while a one-dependency description still shows a
    violation whose mechanism starts with `fails_like`.  -> (specs', case|None)"""
    def bad(ss):
        m = mini_requires_case(dep, ss, fails_like[0])
        if m is None:
            return None
        sub = CaseResult()
        try:
            _run(m, sub, classify=False)
        except core.Timeout:
            return None
        if any(mech[:2] == fails_like for mech, w in sub.violations):
            return m
        return None
    cur = list(specs)
    case = bad(cur)
    if case is None:
        return specs, None      # only the original arrangement shows it
    changed = True
    while changed and len(cur) > 1:
        changed = False
        for i in range(len(cur)):
            trial = cur[:i] + cur[i + 1:]
            m = bad(trial)
            if m is not None:
                cur, case, changed = trial, m, True
                break
    return cur, case


def check_entries(res, c, m, name, pcpath_gen, xenv, form):
    """The Requires / Requires.private entries pkg-config lists are exactly the
    declared (name, specifier) pairs - judged for every name that was declared
    with at most one specifier (bfg9000 may legitimately rewrite longer sets)."""
    for which, flag, names in (('public', '--print-requires', m['requires_public']),
                               ('private', '--print-requires-private',
                                m['requires_private'])):
        rc, out, err = pkgconf([flag, name], pcpath_gen, xenv)
        if rc != 0:
            continue
        got = {}
        for line in out.decode('utf-8', 'replace').splitlines():
            parts = line.split()
            if parts:
                got.setdefault(parts[0], []).append(tuple(parts[1:]))
        for dep in names:
            specs = combined(c, dep)
            if len(specs) > 1 or len({tuple(x) for x in specs}) > 1:
                continue
            want = [(pcref.PC_OP[specs[0][0]], specs[0][1])] if specs else [()]
            res.ev('requires:entries_checked')
            have = got.get(dep)
            if have is None or have == want:
                continue          # a missing name is the names check's business
            if want == [()]:
                why = 'undeclared-specifier'
            elif have == [()]:
                why = 'specifier-dropped'
            else:
                why = 'specifier-differs'
            res.violate(('requires', 'entries', why),
                        {'form': form, 'list': which, 'dependency': dep,
                         'declared': specs, 'listed_by_pkg_config': [list(x)
                                                                     for x in have],
                         'requires': c['requires'],
                         'requires_private': c['requires_private'],
                         'packages': c.get('packages')})


def check_versions(res, c, lay, name, pcpath_gen, pcpath_ref, form, g, xenv=None,
                   classify=True):
    """Oracle (3), Requires side, on one form.  pcpath_* contain lay.deps last."""
    for dep, d in c['deps'].items():
        specs = combined(c, dep)
        is_req = any(n == dep for n, s in c['requires'] + c['requires_private'])
        if not is_req:
            continue
        has_conf = any(n == dep for n, s in c['conflicts'])
        if not specs and has_conf:
            continue              # judged by check_conflicts
        if not g['requires_enforced'] or not g['requires_private_enforced']:
            res.exclude('pkgconf-does-not-enforce-requires')
            continue
        if has_conf:
            res.exclude('dependency-both-versioned-and-conflicting')
            continue
        mism = []
        # an unversioned requirement accepts every version of the dependency
        for v in (pcref.grid(specs) if specs else ['0.1', '9.9']):
            write_deps(c, lay, {dep: v})
            want = pcref.set_accepts(specs, v)
            rrc = pkgconf(['--exists', name], pcpath_ref)[0]
            if (rrc == 0) != want:
                res.exclude('reference-pc-disagrees-with-comparator')
                continue
            res.ev('version:ref_agrees')
            grc, _, gerr = pkgconf(['--exists', '--print-errors', name], pcpath_gen,
                                    xenv)
            res.ev('version:exists_eval')
            if (grc == 0) != want:
                mism.append((v, want, gerr.strip()[:300]))
        write_deps(c, lay)
        if mism:
            v, want, gerr = mism[0]
            kind = 'wrong-accept' if not want else 'wrong-reject'
            wit = {'form': form, 'dependency': dep, 'specifiers': spec_text(specs),
                   'requires': c['requires'], 'requires_private': c['requires_private'],
                   'version': v, 'original_set_accepts': want,
                   'pkg_config_exists': not want, 'pkg_config_stderr': gerr,
                   'all_mismatching_versions': [x[0] for x in mism]}
            feature = ops_sig(specs)
            if classify and specs:
                small, mcase = minimise_specs(dep, specs, ('requires', kind))
                if mcase is not None:
                    wit['minimal_specifiers'] = spec_text(small)
                    wit['__case__'] = mcase
                    feature = spec_feature(small)
                else:
                    feature = 'arrangement:' + ops_sig(specs)
            res.violate(('requires', kind, feature), wit)


def check_conflicts(res, c, lay, name, pcfile, pcpath_gen, pcpath_ref, form, g,
                    m, xenv=None, classify=True):
    """Oracle (3), Conflicts side.  pkgconf evaluates a package's Conflicts only
    against that package's own Requires list (calibrated); for a conflicting
    package that is not required the line is read by the reference reader."""
    if not c['conflicts']:
        return
    try:
        with open(pcfile, encoding='utf-8', errors='surrogateescape') as f:
            text = f.read()
    except OSError:
        return
    line = pcref.read_field(text, 'Conflicts') or ''
    entries = pcref.parse_requirement_list(line)
    for dep in uniq(n for n, s in c['conflicts']):
        specs = conflict_specs(c, dep)
        by_tool = (g['conflicts_enforced_vs_own_requires'] and
                   dep in m['requires_public'] and not combined(c, dep))
        mism = []
        for v in pcref.grid(specs):
            want = pcref.set_accepts(specs, v) if specs else True
            read = pcref.conflicts_matches(entries, dep, v)
            if by_tool:
                write_deps(c, lay, {dep: v})
                if len(specs) <= 1:
                    # a single condition is expressible: the reference must agree
                    rrc = pkgconf(['--exists', name], pcpath_ref)[0]
                    if (rrc != 0) != want:
                        res.exclude('reference-pc-disagrees-with-comparator')
                        continue
                    res.ev('conflicts:ref_agrees')
                got = pkgconf(['--exists', name], pcpath_gen, xenv)[0] != 0
                res.ev('conflicts:tool_eval')
                if read == got:
                    res.ev('conflicts:reader_agrees_with_tool')
                else:
                    res.notes.append('Conflicts reader disagrees with pkgconf on %r '
                                     'at %s %s' % (line, dep, v))
            else:
                got = read
                res.ev('conflicts:reference_reader_eval')
            if got != want:
                mism.append((v, want))
        if by_tool:
            write_deps(c, lay)
        else:
            res.exclude('conflicting-package-not-in-Requires:pkgconf-blind'
                        '(reference reader used)')
        if mism:
            v, want = mism[0]
            nent = len([e for e in entries if e[0] == dep])
            wit = {'form': form, 'dependency': dep, 'specifiers': spec_text(specs),
                   'conflicts_line': line, 'version': v,
                   'original_set_matches': want, 'written_list_matches': not want,
                   'observed_by': 'pkg-config --exists (dependency also required)'
                   if by_tool else
                   'reference reader of the Conflicts field (pkg-config(1): any '
                   'entry matching = conflict)',
                   'all_mismatching_versions': [x[0] for x in mism]}
            kind = 'wrong-match' if not want else 'missed-match'
            feature = ('entries-are-alternatives' if nent > 1 else
                       spec_feature(specs, minimal=False))
            if classify and nent <= 1 and len(specs) > 1:
                small, mcase = minimise_specs(dep, specs, ('conflicts', kind))
                if mcase is not None:
                    wit['minimal_specifiers'] = spec_text(small)
                    wit['__case__'] = mcase
                    feature = spec_feature(small)
            res.violate(('conflicts', kind, feature), wit)


# --------------------------------------------------------------------------
# one case

def expand_packages(c):
    """What a package() object declares: its version specifier speaks about the
    package's first .pc name; the .pc names of its submodules are required without
    a version.  Objects given to a library (packages=) are private requirements of
    a description that exposes that library.  The literal lists are kept for
    rendering."""
    if not c.get('packages') or 'literal_requires' in c:
        return
    for key in ('requires', 'requires_private', 'conflicts'):
        c['literal_' + key] = [list(x) for x in c[key]]
    for pk in c['packages']:
        key = 'requires_private' if pk['where'].startswith('lib:') else pk['where']
        for j, pcname in enumerate(pk['pcnames']):
            c[key].append([pcname, pk['spec'] if j == 0 else None])


MOPACK_STANDIN = '''#!%s
# stand-in for `mopack linkage --json <dep>` (mopack itself is broken in this image)
import json, os, sys
args = sys.argv[1:]
if args[:1] == ['linkage']:
    table = json.load(open(os.environ['VERIF_MOPACK_TABLE']))
    dep = args[-1]
    if dep not in table['deps']:
        print(json.dumps({'error': 'no such dependency ' + dep}))
        sys.exit(1)
    print(json.dumps({'name': dep, 'type': 'system', 'generated': False,
                      'auto_link': False, 'pcnames': table['deps'][dep],
                      'pkg_config_path': [table['pcdir']]}))
elif args[:1] == ['--version']:
    print('mopack 0.0')
else:
    sys.exit(2)
''' % core.PY


def write_mopack_standin(c, lay):
    exe = os.path.join(lay.root, 'mopack-standin')
    with open(exe, 'w') as f:
        f.write(MOPACK_STANDIN)
    os.chmod(exe, 0o755)
    table = {'pcdir': lay.deps, 'deps': {}}
    for pk in c['packages']:
        dep = pk['name'] + ('[%s]' % ','.join(pk['submodules'])
                            if pk['submodules'] else '')
        table['deps'][dep] = pk['pcnames']
    tpath = os.path.join(lay.root, 'mopack-table.json')
    with open(tpath, 'w') as f:
        json.dump(table, f)
    return {'MOPACK': exe, 'VERIF_MOPACK_TABLE': tpath}


def resolve_kinds(c):
    """What each library *is* under the configured library mode: library() without
    kind= follows --enable-shared/--enable-static (both => a dual-use library whose
    pkg-config face is the shared one, the static one being installed beside it)."""
    mode = c.get('libmode') or {'shared': True, 'static': False}
    for l in c['libs']:
        l['decl_kind'] = l['kind']
        ctor = l.get('ctor', 'library')
        if ctor == 'shared_library':
            l['kind'] = 'shared'
        elif ctor == 'static_library':
            l['kind'] = 'static'
        elif l['kind'] == 'auto':
            l['kind'] = ('dual' if mode['shared'] and mode['static'] else
                         'shared' if mode['shared'] else 'static')


def effective(c, lay, res):
    """Drop values that a hand-written .pc cannot carry either.  -> (case', esc_of)
    or (None, None) when a root directory itself cannot be carried."""
    c = json.loads(json.dumps(c))
    esc_of = {}
    resolve_kinds(c)
    expand_packages(c)

    def adm(field, arg, ctx):
        e = calibrate(lay, field, arg)
        if e is None:
            res.exclude('value-not-carried:' + ctx)
            res.ev('calib:value_excluded')
            return False
        if e != 'plain':
            res.ev('calib:value_admitted')
        esc_of[(field, arg)] = e
        return True
    for key, field, ctx in (('options', 'Cflags', 'option'),
                            ('link_options', 'Libs', 'link-option'),
                            ('link_options_private', 'Libs', 'private-link-option')):
        c[key] = [o for o in c[key] if adm(field, o, ctx)]
    for l in c['libs']:
        l['link_options'] = [o for o in l.get('link_options', [])
                             if adm('Libs', o, 'link-option')]
    lay_ok = True
    for p, field, ctx in ((lay.src, 'Cflags', 'srcdir'), (lay.build, 'Libs', 'builddir'),
                          (lay.includedir, 'Cflags', 'prefix'),
                          (lay.libdir, 'Libs', 'prefix')):
        if not adm(field, ('-I' if field == 'Cflags' else '-L') + real(p), ctx):
            lay_ok = False
    if not lay_ok:
        return None, None
    c['includes'] = [i for i in c['includes']
                     if adm('Cflags', '-I' + real(os.path.join(lay.src, i['dir'])),
                            'include-dir')]
    for l in c['libs']:
        for base in (lay.build, lay.libdir):
            adm('Libs', '-L' + real(os.path.join(base, os.path.dirname(l['path']))),
                'builddir')
    return c, esc_of


def is_nontrivial(c):
    if c.get('probe'):
        return True
    if any(l['deps'] for l in c['libs']):
        return True
    if c['requires'] or c['requires_private'] or c['conflicts']:
        return True
    vals = c['options'] + c['link_options'] + c['link_options_private'] + \
        [i['dir'] for i in c['includes']] + list(c['roots'].values())
    return any(tokens_of(v) for v in vals if v)


def run_case(case):
    res = CaseResult()
    res.evaluations = 1
    k = {x: y for x, y in case.items() if x != 'idx'}
    res.key(core.digest(k), is_nontrivial(case))
    _run(case, res, classify=True)
    return res


def _run(case, res, classify):
    root = core.mkscratch('c17')
    try:
        _run_in(case, res, classify, root)
    finally:
        core.rmtree(root)


def _run_in(case, res, classify, root):
    lay = Layout(case, root)
    g = global_calibration(lay)
    c, esc_of = effective(case, lay, res)
    if c is None:
        res.exclude('root-directory-not-carried')
        return
    res.classes.add('kind:' + c['kind'])
    if c.get('probe'):
        res.classes.add('probe:' + c['probe']['context'])
    res.classes.add('auto_fill' if c['auto_fill'] else 'explicit')
    proj.write_tree(lay.src, render_project(c))
    os.makedirs(lay.build, exist_ok=True)
    write_deps(c, lay)
    name = expected_name(c)

    # ---- expectations about configure
    unsat = []
    for dep in c['deps']:
        specs = combined(c, dep)
        if specs and not pcref.satisfiable(specs):
            unsat.append(('requires', dep, specs))
    for n, s in c['conflicts']:
        specs = pcref.parse_specs(s)
        if specs and not pcref.satisfiable(specs):
            unsat.append(('conflicts', n, specs))

    env = core.base_env({'CC': 'gcc', 'CXX': 'g++', 'PKG_CONFIG_PATH': lay.deps,
                         'PKG_CONFIG_LIBDIR': '/nonexistent-verif'})
    if c.get('packages'):
        env.update(write_mopack_standin(c, lay))
        res.classes.add('package-objects')
    rc, out = proj.configure(lay.src, lay.build, 'make', lay.configure_args(c), env)
    if unsat:
        kind, dep, specs = unsat[0]
        res.classes.add('unsat:' + kind)
        if rc == 0:
            pcs = {}
            for fn in (name + '.pc',):
                try:
                    with open(os.path.join(lay.build, 'pkgconfig', fn)) as f:
                        pcs[fn] = f.read()
                except OSError:
                    pass
            wit = {'list': kind, 'dependency': dep,
                   'specifiers': spec_text(specs), 'requires': c['requires'],
                   'requires_private': c['requires_private'],
                   'conflicts': c['conflicts'], 'configure_rc': rc,
                   'written': pcs}
            feature = ops_sig(specs)
            if classify:
                small, mcase = minimise_specs(dep, specs,
                                              (kind, 'unsatisfiable-accepted'))
                if mcase is not None:
                    wit['minimal_specifiers'] = spec_text(small)
                    wit['__case__'] = mcase
                    feature = spec_feature(small, minimal=False)
            res.violate((kind, 'unsatisfiable-accepted', feature), wit)
        else:
            res.ev('configure_rejected_unsat')
        return
    if rc != 0:
        if 'multiple specifiers' in out and 'pkg-config requirement' in out:
            multi = [d for d in c['deps'] if len(combined(c, d)) >= 2 or
                     len(conflict_specs(c, d)) >= 2]
            if multi:
                res.ev('configure_refused_multi')
                res.classes.add('refused:multiple-specifiers')
                return
            res.violate(('requires', 'spurious-refusal', 'single-specifier'),
                        {'output': out[-800:], 'requires': c['requires'],
                         'requires_private': c['requires_private']})
            return
        first = [l for l in out.splitlines() if l.startswith('error')]
        res.violate(('configure', 'unexpected-failure',
                     (c.get('probe') or {}).get('context', c['kind'])),
                    {'output': out[-1200:], 'error': (first or [''])[0][:300],
                     'token': (c.get('probe') or {}).get('token'),
                     'build_bfg': render_project(c)['build.bfg']})
        return
    res.ev('configure_ok')
    pcdir = os.path.join(lay.build, 'pkgconfig')
    if res.sample is None and c['kind'] in ('full', 'versions'):
        try:
            with open(os.path.join(pcdir, name + '.pc')) as f:
                res.sample = {'build_bfg': render_project(c)['build.bfg'],
                              'installed_pc': f.read()}
        except OSError:
            pass

    # ---- forms
    forms = [('uninstalled', [pcdir], os.path.join(pcdir, name + '-uninstalled.pc'),
              None)]
    built = False
    if c['build']:
        rc, out = proj.build(lay.build, 'make', ['install'], env=env, timeout=600)
        if rc != 0:
            res.inconclusive = 'make install failed: ' + out[-600:]
            return
        built = True
        res.ev('make_install_ok')
        if c.get('libmode'):
            res.classes.add('libmode:%s%s' % ('shared' if c['libmode']['shared'] else '',
                                              '+static' if c['libmode']['static'] else ''))
        for l in c['libs']:
            if l['kind'] == 'dual':
                d = os.path.join(lay.libdir, os.path.dirname(l['path']))
                if all(os.path.exists(os.path.join(d, 'lib%s.%s' % (l['name'], e)))
                       for e in ('so', 'a')):
                    res.ev('dual:both_variants_installed')
        ipc = os.path.join(lay.libdir, 'pkgconfig')
        try:
            with open(os.path.join(ipc, name + '.pc'), 'rb') as f1, \
                    open(os.path.join(pcdir, name + '.pc'), 'rb') as f2:
                if f1.read() == f2.read():
                    res.ev('installed_pc_identical')
                else:
                    res.violate(('install', 'pc-file', 'differs-from-build-copy'),
                                {'installed': ipc})
        except OSError as e:
            res.violate(('install', 'pc-file', 'not-installed'),
                        {'expected_at': os.path.join(ipc, name + '.pc'),
                         'error': str(e)})
            return
        forms.append(('installed', [ipc], os.path.join(ipc, name + '.pc'), None))
    else:
        forms.append(('installed', [pcdir], os.path.join(pcdir, name + '.pc'),
                      {'PKG_CONFIG_DISABLE_UNINSTALLED': '1'}))

    for form, pcp, pcfile, xenv in forms:
        m = model(c, lay, form)
        pcpath_gen = pcp + [lay.deps]
        cenv = xenv        # environment for the Conflicts check
        # Conflicts are irrelevant to flags and to the Requires grid
        xenv = dict(xenv or {}, PKG_CONFIG_IGNORE_CONFLICTS='1')
        # which file did pkg-config pick?
        rc, o, e = pkgconf(['--print-errors', '--variable=pcfiledir', name],
                           pcpath_gen, xenv)
        urc = pkgconf(['--uninstalled', name], pcpath_gen, xenv)[0]
        if rc != 0:
            why = ('requirement-not-found' if 'required by' in e else
                   'conflict' if 'conflict' in e else 'other')
            res.violate(('pc-file', 'not-loadable', why),
                        {'form': form, 'stderr': e[:500], 'pc_name': name,
                         'requires': c['requires'],
                         'requires_private': c['requires_private'],
                         'token': (c.get('probe') or {}).get('token'),
                         'context': (c.get('probe') or {}).get('context')})
            continue
        if (urc == 0) != (form == 'uninstalled'):
            res.inconclusive = 'pkg-config picked the wrong variant for ' + form
            return
        if form == 'uninstalled':
            res.ev('form:uninstalled')
        elif built:
            res.ev('form:installed_after_make_install')
        else:
            res.ev('form:installed_preinstall_copy')

        # reference first
        refdir = os.path.join(lay.root, 'ref_' + form)
        os.makedirs(refdir, exist_ok=True)
        with open(os.path.join(refdir, name + '.pc'), 'w', encoding='utf-8',
                  errors='surrogateescape') as f:
            f.write(reference_pc(c, lay, m, esc_of))
        pcpath_ref = [refdir, lay.deps]
        ro = observe(name, pcpath_ref, c, lay)
        ok = {}
        ok['cflags'] = not judge_cflags(m, ro['cflags'], g)
        ok['libs'] = not judge_libs(m, ro['libs'], g, False)
        ok['static'] = not judge_libs(m, ro['static'], g, True)
        for k2, v in ok.items():
            if v:
                res.ev('ref:field_ok')
            else:
                res.exclude('reference-pc-fails-oracle:' + k2)
                res.notes.append('reference fails %s (%s): %r' % (
                    k2, form, ro.get(k2 + '_raw')))

        go = observe(name, pcpath_gen, c, lay, xenv)
        if go['modversion'] != m['version']:
            res.violate(('pc-fields', 'version', 'differs'),
                        {'form': form, 'expected': m['version'],
                         'got': go['modversion'], 'stderr': go['modversion_err']})
        else:
            res.ev('modversion_checked')
        flags_ok = True
        if ok['cflags']:
            bad = judge_cflags(m, go['cflags'], g)
            res.ev('flags:cflags_checked')
            if bad:
                flags_ok = False
                report_flag_mismatch(res, c, form, 'cflags', bad, go, classify)
        if ok['libs']:
            bad = judge_libs(m, go['libs'], g, False)
            res.ev('flags:libs_checked')
            if bad:
                flags_ok = False
                report_flag_mismatch(res, c, form, 'libs', bad, go, classify)
        if ok['static']:
            bad = judge_libs(m, go['static'], g, True)
            res.ev('flags:libs_static_checked')
            if bad:
                flags_ok = False
                report_flag_mismatch(res, c, form, 'static', bad, go, classify)
        if c['requires'] or c['requires_private']:
            if go['requires'] is not None and go['requires_private'] is not None:
                res.ev('requires:names_checked')
                if set(go['requires']) != set(m['requires_public']) or \
                        set(go['requires_private']) != set(m['requires_private']):
                    res.violate(('requires', 'public-private-split', 'names'),
                                {'form': form,
                                 'expected_public': m['requires_public'],
                                 'expected_private': m['requires_private'],
                                 'got_public': go['requires'],
                                 'got_private': go['requires_private'],
                                 'requires': c['requires'],
                                 'requires_private': c['requires_private']})
        if c['requires'] or c['requires_private']:
            check_entries(res, c, m, name, pcpath_gen, xenv, form)
        if c['deps']:
            check_versions(res, c, lay, name, pcpath_gen, pcpath_ref, form, g, xenv,
                           classify)
            check_conflicts(res, c, lay, name, pcfile, pcpath_gen, pcpath_ref, form,
                            g, m, cenv, classify)
        if c['consumer'] and built and flags_ok and all(ok.values()) and \
                go['cflags_argv'] is not None and go['libs_argv'] is not None:
            libs = lib_by_name(c)
            if form == 'installed':
                # the modelled install layout is the real one ...
                missing = [os.path.join(m['include_dirs'][0], i['header'])
                           for i in c['includes']
                           if not os.path.exists(os.path.join(m['include_dirs'][0],
                                                              i['header']))]
                for n in m['libs_static_required']:
                    pats = {'static': ['a'], 'shared': ['so'],
                            'dual': ['so', 'a']}[libs[n]['kind']]
                    missing += [os.path.join(m['libdir_of'][n], 'lib%s.%s' % (n, e))
                                for e in pats if not os.path.exists(os.path.join(
                                    m['libdir_of'][n], 'lib%s.%s' % (n, e)))]
                if missing:
                    res.inconclusive = ('installed layout differs from the model: '
                                        + ', '.join(missing)[:400])
                    return
                res.ev('install:files_at_modelled_place')
                # ... and the consumer sees nothing but the installed tree
                for d in (lay.build, lay.src):
                    os.rename(d, d + '.hidden')
                res.ev('consumer:installed_tree_only')
            need_static = bool(m['libs_static_required'][len(m['libs_plain']):]) and \
                any(libs[n]['kind'] == 'static' for n in m['libs_plain'])
            run_consumer(res, c, lay, m, form, go, need_static)
            for n in (m['libs_plain'] if len(m['libs_plain']) > 1 else []):
                # a consumer that uses only one of the public libraries
                if go['static_argv'] is not None:
                    run_consumer(res, c, lay, m, form, go,
                                 need_static or libs[n]['kind'] == 'static', [n])
            if not need_static and go['static_argv'] is not None:
                run_consumer(res, c, lay, m, form, go, True)
