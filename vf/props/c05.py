"""C05 - Distinct inputs never collide on one output path; outputs stay in builddir."""
import itertools
import json
import os

from .. import core, proj
from ..core import CaseResult

LEVEL = 'exploration'
MODE = 'thread'
DIRS1 = ['a', 'ab', 'cd', 'a.b']
STEMS = ['x', 'ab', 'cd', 'a.b']
EXTS = ['.c', '.cpp']
RULE = ('(A) every unordered pair of source paths = dir (<= 2 components over {a, ab, cd, a.b}, or '
        'none) + stem {x, ab, cd, a.b} + ext {.c, .cpp} given to one executable (168 paths, 14028 '
        'pairs; enumerated completely in thorough, seeded sample in quick), ~40 pairs per generated '
        'script, collision pairs (same dir and stem) one script each; (B) seeded random source sets '
        '(2-8 paths incl. 1/2-char names, dots, equal basenames, ../ out of a submodule, long names) '
        'for executable / static_library / shared_library / object_files / copy_files, with and '
        'without intermediate_dirs, submodule depth 0-2, driven through configure -> build -> '
        'regenerate -> clean -> dist with the source tree hashed before and after; (C) scripts that '
        'name one output twice must be refused; distinct = (kind, canonical path set); non-trivial '
        '= the set has a 2-character component, equal basenames, equal stems or a ../ reference')
ASSUMPTIONS = [
    'output paths are taken from what the stub tool chain was really asked to write (and from '
    'compile_commands.json output fields in the configure-only part)',
    'the literal component name PAR is never generated (reserved by the implementation)',
]
EXTRA_COVERAGE = {'exhaustive': lambda tier: tier == 'thorough',
                  'exhaustive_scope': 'part (A) only: all 14028 unordered pairs of the 168-path space'}


def floors(tier):
    return {'pairs:distinct-accepted': 300, 'pairs:collision-refused': 5,
            'sets:lifecycle': 15, 'dup-output:refused': 5, 'stemfam:accepted': 10, 'sibling:accepted': 20, 'abs:outputs-inside-builddir': 8, 'distinct_nontrivial': 300}


def all_paths():
    dirs = [''] + DIRS1 + ['%s/%s' % (a, b) for a in DIRS1 for b in DIRS1]
    return ['%s%s%s' % (d + '/' if d else '', s, e) for d in dirs for s in STEMS for e in EXTS]


TWINS = [('.a/x.c', 'a/x.c'), ('.compat/io.c', 'compat/io.c'), ('.v.c', 'v.c'),
         ('..a/x.c', 'a/x.c'), ('a./x.c', 'a/x.c'), ('a/.x.c', 'a/x.c'), ('a/..x.c', 'a/x.c'),
         ('A/x.c', 'a/x.c'), ('a/X.c', 'a/x.c'), ('a-b/x.c', 'a_b/x.c'), ('a/b/x.c', 'a_b/x.c'),
         ('a/b/x.c', 'a.b/x.c'), ('ab/x.c', 'a/b/x.c'), ('a/x.c', 'a/a/x.c'),
         ('.a/.b/x.c', 'a/b/x.c'), ('a/.b/x.c', 'a/b/x.c'), ('...a/x.c', '.a/x.c')]


def collides(p, q):
    return os.path.splitext(p)[0] == os.path.splitext(q)[0]


def cases(tier, seed):
    rng = core.rng_for(seed, 'c05')
    paths = all_paths()
    pairs = list(itertools.combinations(paths, 2))
    good = [pq for pq in pairs if not collides(*pq)]
    bad = [pq for pq in pairs if collides(*pq)]
    if tier == 'quick':
        good = rng.sample(good, 600)
        bad = rng.sample(bad, 8)
    per = 40
    for backend in ('make', 'ninja'):
        gl = good if backend == 'make' or tier == 'thorough' else good[:160]
        for i in range(0, len(gl), per):
            yield {'kind': 'pairs', 'backend': backend, 'pairs': gl[i:i + per], 'expect': 'accept'}
        for pq in bad:
            yield {'kind': 'pairs', 'backend': backend, 'pairs': [pq], 'expect': 'refuse'}
        # twins: two sources whose paths differ by characters a tidy-up of the placement code
        # might strip or fold (leading / trailing dots, case, look-alike separators)
        yield {'kind': 'pairs', 'backend': backend, 'pairs': TWINS, 'expect': 'accept'}
    # families of stems that differ only by characters that also occur in the extension
    # (cal.c / calc.c, a.cpp / app.cpp, c.c / cc.c ...): suffix-stripping slips collide these
    fams = []
    for base in ('cal', 'mis', 'a', 'x', 'ab', 'lib.c', 'h'):
        for ext in ('.c', '.cpp'):
            letters = sorted(set(ext))
            stems = [base] + [base + l for l in letters] + [base + ext.strip('.')] + \
                [base + ext + ext.strip('.')]
            fams.append([st + ext for st in dict.fromkeys(stems)])
    for backend in ('make', 'ninja'):
        for fam in (fams if tier == 'thorough' else fams[:8]):
            for d in ('', 'd/'):
                yield {'kind': 'stemfam', 'backend': backend, 'srcs': [d + f for f in fam]}
    # a target below the top of the build tree with a source in a SIBLING directory whose name
    # extends the target directory's name (sub / subdir, bin / binx): string-prefix slips in
    # the '..' -> PAR mapping fold '../subdir/util.c' onto 'dir/util.c'
    for backend in ('make', 'ninja'):
        for d, sib, rest in (('sub', 'subdir', 'dir'), ('bin', 'binx', 'x'), ('out', 'out-gen', '-gen'),
                             ('m', 'm.old', '.old'), ('lib', 'lib64', '64')):
            for form in ('submodule', 'named-target', 'copy-directory'):
                yield {'kind': 'sibling', 'backend': backend, 'dir': d, 'sibling': sib,
                       'rest': rest, 'form': form}
    # a target two or more directories deep with sources from OTHER trees that repeat one of
    # its directory names at the same depth (tools/common <- src/common/util.c, test/common/
    # util.c): a relative-path computation that counts matching components instead of the
    # common prefix folds both onto '../common/util'
    for backend in ('make', 'ninja'):
        for tdir, a, b in (('tools/common', 'src/common/util', 'test/common/util'),
                           ('a/b/c', 'x/b/c/m', 'y/b/c/m'), ('one/two', 'two/two/f', 'one/one/f'),
                           ('p/q/r', 'p/x/r/u', 'p/y/r/u')):
            for form in ('submodule', 'named-target', 'copy-directory'):
                yield {'kind': 'sibling', 'backend': backend, 'dir': tdir, 'sibling': None,
                       'rest': None, 'form': form, 'sources': [a, b], 'tag': 'cross-tree'}
    for backend in ('make', 'ninja'):
        for fl in sorted(GENSHARED):
            yield {'kind': 'genshared', 'backend': backend, 'flavour': fl}
    n = 30 if tier == 'quick' else 250
    for i in range(n):
        r = core.rng_for(seed, 'c05set', i)
        yield gen_set_case(r, i)
    for backend in ('make', 'ninja'):
        for form in sorted(ABS_FORMS):
            yield {'kind': 'abs', 'backend': backend, 'form': form}
    dups = sorted(DUPS)
    for i, d in enumerate(dups):
        for backend in ('make', 'ninja'):
            yield {'kind': 'dup', 'backend': backend, 'flavour': d}


NAMES = ['a', 'b', 'ab', 'cd', 'xy', 'a.b', 'lib', 'src', 'x', 's1', 's2', 'm-n', 'u_v',
         'a_very_long_component_name_that_goes_on_and_on', 'Z9',
         # dot-prefixed twins of other names: a hidden directory is a directory like any other
         '.a', '.x', '.lib', '..a']


def gen_set_case(rng, index):
    depth = rng.choice([0, 0, 1, 2])
    subdir = '/'.join(rng.choice(['sub', 'sb', 'm']) for _ in range(depth))
    nsrc = rng.randint(2, 8)
    srcs = []
    seen_keys = set()
    while len(srcs) < nsrc:
        comps = [rng.choice(NAMES) for _ in range(rng.randint(0, 2))]
        stem = rng.choice(NAMES + ['x', 'x', 'main'])
        ext = rng.choice(['.c', '.c', '.cpp'])
        up = rng.randint(0, depth) if depth and rng.random() < 0.4 else 0
        rel = '/'.join(['..'] * up + comps + [stem + ext])
        key = os.path.normpath(os.path.join(subdir, os.path.splitext(rel)[0]))
        if key in seen_keys or key.startswith('..'):
            continue
        seen_keys.add(key)
        srcs.append(rel)
    return {'kind': 'set', 'index': index, 'subdir': subdir, 'srcs': srcs,
            'target': rng.choice(['executable', 'static_library', 'shared_library',
                                  'object_files', 'copy_files']),
            'intermediate_dirs': rng.random() < 0.7,
            'backend': rng.choice(['make', 'ninja']),
            'name': rng.choice(['t', 'out/t', 'tgt', 'o/tgt'])}


def script_for_pairs(pairs):
    L = []
    files = {}
    for i, (p, q) in enumerate(pairs):
        for s in (p, q):
            files[s] = 'int f_%d;\n' % (len(files))
        L.append('executable(%r, files=[%r, %r])' % ('t%d' % i, p, q))
    files['build.bfg'] = '\n'.join(L) + '\n'
    return files


def run_pairs(case, res):
    backend = case['backend']
    pairs = [tuple(pq) for pq in case['pairs']]
    root = core.mkscratch('c05p')
    try:
        src, bld = os.path.join(root, 'src'), os.path.join(root, 'bld')
        proj.write_tree(src, script_for_pairs(pairs))
        env = core.base_env(proj.stub_toolchain_env())
        rc, out = proj.configure(src, bld, backend, env=env)
        res.evaluations = len(pairs)
        for p, q in pairs:
            res.key(['pair', backend, p, q],
                    any(len(c) == 2 for c in (p + '/' + q).replace('.cpp', '').replace('.c', '')
                        .split('/')) or os.path.basename(p) == os.path.basename(q))
        if case['expect'] == 'refuse':
            if rc == 0:
                res.violate((backend, 'collision-accepted', 'same-stem-different-extension'),
                            {'backend': backend, 'pair': list(pairs[0])})
            else:
                res.ev('pairs:collision-refused')
            return
        if rc != 0:
            if len(pairs) > 1:
                # isolate: halves
                mid = len(pairs) // 2
                for part in (pairs[:mid], pairs[mid:]):
                    run_pairs(dict(case, pairs=part), res)
                return
            p, q = pairs[0]
            same_dir = os.path.dirname(p) == os.path.dirname(q)
            res.violate((backend, 'distinct-sources-refused',
                         'same-basename-different-dir' if os.path.basename(p) == os.path.basename(q)
                         else 'different-stems'),
                        {'backend': backend, 'pair': [p, q], 'same_dir': same_dir,
                         'output': out[-600:],
                         '__case__': dict(case, pairs=[[p, q]])})
            return
        with open(os.path.join(bld, 'compile_commands.json')) as f:
            db = json.load(f)
        outs = {}
        for e in db:
            if 'output' in e:
                o = os.path.normpath(os.path.join(e['directory'], e['output']))
                outs.setdefault(o, []).append(e['file'])
        for o, fs in outs.items():
            if len(fs) > 1:
                res.violate((backend, 'two-sources-one-object'),
                            {'backend': backend, 'output': o, 'files': fs})
            if not (o.startswith(bld + os.sep)):
                res.violate((backend, 'output-outside-builddir'),
                            {'backend': backend, 'output': o})
        # 2 objects per target
        compile_outs = [o for o in outs if o.endswith('.o')]
        if len(compile_outs) != 2 * len(pairs):
            res.violate((backend, 'object-count-differs'),
                        {'backend': backend, 'objects': len(compile_outs), 'expected': 2 * len(pairs),
                         '__case__': case})
        res.ev('pairs:distinct-accepted', len(pairs))
        if res.sample is None:
            res.sample = {'kind': 'pairs', 'backend': backend, 'pair': list(pairs[0]),
                          'objects': sorted(os.path.relpath(o, bld) for o in outs
                                            if '/t0.int/' in o)}
    finally:
        core.rmtree(root)


def set_script(case):
    """-> files dict (srcdir), model of produced outputs count"""
    sub = case['subdir']
    files = {}
    lines = []
    if not case['intermediate_dirs']:
        lines.append("project('p', intermediate_dirs=False)")
    chain = sub.split('/') if sub else []
    # nested submodule scripts
    cur = ''
    for d in chain:
        parent_script = os.path.join(cur, 'build.bfg')
        files.setdefault(parent_script, '')
        files[parent_script] += "submodule(%r)\n" % d
        cur = os.path.join(cur, d)
    tgt = case['target']
    srcl = ', '.join(repr(s) for s in case['srcs'])
    if tgt in ('executable', 'static_library', 'shared_library'):
        body = "%s(%r, files=[%s])\n" % (tgt, case['name'], srcl)
    elif tgt == 'object_files':
        body = "default(object_files([%s]))\n" % srcl
    else:
        body = "default(copy_files([%s]))\n" % srcl
    leaf = os.path.join(cur, 'build.bfg')
    files[leaf] = files.get(leaf, '') + body
    files['build.bfg'] = '\n'.join(lines) + ('\n' if lines else '') + files.get('build.bfg', '')
    for k, s in enumerate(case['srcs']):
        p = os.path.normpath(os.path.join(sub, s))
        files[p] = 'int g_%d;\n' % k
    return files


def run_set(case, res):
    backend = case['backend']
    root = core.mkscratch('c05s')
    try:
        src, bld = os.path.join(root, 'src'), os.path.join(root, 'bld')
        files = set_script(case)
        proj.write_tree(src, files)
        log = os.path.join(root, 'log')
        extra = proj.stub_toolchain_env(log)
        extra.update({'CP': 'vwrap-cp -f', 'VSTUB_ENVKEYS': 'NONE'})
        env = core.base_env(extra)
        before = proj.snapshot(src)
        wb = {'backend': backend, 'target': case['target'], 'srcs': case['srcs'],
              'subdir': case['subdir'], 'intermediate_dirs': case['intermediate_dirs']}
        nt = (any(len(c) == 2 for s in case['srcs'] for c in os.path.splitext(s)[0].split('/'))
              or len({os.path.basename(s) for s in case['srcs']}) < len(case['srcs'])
              or any(s.startswith('..') for s in case['srcs']))
        res.key(['set', case['target'], sorted(case['srcs']), case['subdir'],
                 case['intermediate_dirs']], nt)
        res.evaluations = 1
        stems = [os.path.normpath(os.path.join(case['subdir'], os.path.splitext(s)[0]))
                 for s in case['srcs']]
        # without intermediate dirs / for copy_files equal basenames may legitimately land on
        # one path only if their *relative paths* are equal, which the generator excludes
        rc, out = proj.configure(src, bld, backend, env=env)
        if rc != 0:
            res.violate((backend, 'distinct-sources-refused', case['target'],
                         'parent-ref' if any(s.startswith('..') for s in case['srcs']) else 'plain'),
                        dict(wb, output=out[-700:]))
            return
        rc, out = proj.build(bld, backend, [], env=env)
        recs = proj.read_log(log)
        if rc != 0:
            res.violate((backend, 'build-failed', case['target']), dict(wb, output=out[-700:]))
            return
        outs = []
        for r in recs:
            o = proj.step_outputs(r)
            base = os.path.basename(r['name'])
            if base == 'vwrap-cp':
                o = [os.path.normpath(os.path.join(r['cwd'], r['argv'][-1]))]
            outs.extend(o)
        per_src = [o for o in outs if o.endswith('.o') or case['target'] == 'copy_files']
        if len(set(per_src)) != len(case['srcs']) or len(per_src) != len(case['srcs']):
            res.violate((backend, 'outputs-collide', case['target']),
                        dict(wb, outputs=[os.path.relpath(o, bld) for o in per_src]))
        for o in outs:
            if not o.startswith(bld + os.sep):
                res.violate((backend, 'output-outside-builddir', case['target']),
                            dict(wb, output=o))
        # regenerate, clean, dist
        proj.bump(os.path.join(src, 'build.bfg'), bld, src)
        rc, out = proj.build(bld, backend, [], env=env)
        if rc != 0:
            res.violate((backend, 'regenerate-failed', case['target']), dict(wb, output=out[-500:]))
        rc, out = proj.build(bld, backend, ['clean'], env=env)
        rc2, out2 = proj.build(bld, backend, ['dist-gzip'], env=env)
        if rc2 != 0:
            res.violate((backend, 'dist-failed', case['target']), dict(wb, output=out2[-500:]))
        after = proj.snapshot(src)
        # bump() changed build.bfg's mtime only; content hash must be equal
        if before != after:
            changed = sorted(set(before.items()) ^ set(after.items()))[:6]
            res.violate((backend, 'source-tree-changed', case['target']),
                        dict(wb, changed=[c[0] for c in changed]))
        res.ev('sets:lifecycle')
        res.classes.add(case['target'])
        res.sample = dict(wb, outputs=sorted(os.path.relpath(o, bld) for o in set(per_src)))
    finally:
        core.rmtree(root)


DUPS = {
    'exe-exe': "executable('t', files=['a.c'])\nexecutable('t', files=['b.c'])\n",
    'obj-obj': "object_file('o', file='a.c')\nobject_file('o', file='b.c')\n",
    'copy-copy': "copy_file('c.out', 'a.c')\ncopy_file('c.out', 'b.c')\n",
    'step-step': "build_step('g.txt', cmd=['vrec', '--touch', build_step.output, '--end'])\n"
                 "build_step(['h.txt', 'g.txt'], cmd=['vrec', '--touch', build_step.output, '--end'])\n",
    'exe-step': "executable('t', files=['a.c'])\n"
                "build_step('t', cmd=['vrec', '--touch', build_step.output, '--end'])\n",
    'lib-lib': "static_library('l', files=['a.c'])\nstatic_library('l', files=['b.c'])\n",
    'obj-implicit': "object_file('t.int/a', file='b.c')\nexecutable('t', files=['a.c'])\n",
}


def _step(names):
    names = names[0] if len(names) == 1 else names
    return "build_step(%r, cmd=['vrec', '--touch', build_step.output, '--end'])\n" % (names,)


# a multi-output step and a second producer of ONE of its outputs, for every position of the
# shared name in the list and both orders of the two rules
for _pos, _outs in (('first', ['x.gen', 'm1.gen', 'm2.gen']), ('middle', ['m1.gen', 'x.gen', 'm2.gen']),
                    ('last', ['m1.gen', 'm2.gen', 'x.gen']), ('first-of-two', ['x.gen', 'm1.gen']),
                    ('last-of-two', ['m1.gen', 'x.gen'])):
    for _second, _text in (('copy', "copy_file('x.gen', 'a.c')\n"), ('step', _step(['x.gen'])),
                           ('multi', _step(['n1.gen', 'x.gen']))):
        DUPS['multi-%s-then-%s' % (_pos, _second)] = _step(_outs) + _text
        DUPS['%s-then-multi-%s' % (_second, _pos)] = _text + _step(_outs)


# the same duplicates with names the back ends have to escape (the duplicate test must compare
# what the names denote, not one escaped and one unescaped spelling)
for _tag, _n in (('space', 'out file.txt'), ('dollar', 'a$b.txt'), ('colon', 'gen:data'),
                 ('hash', 'x#y.txt'), ('percent', '100%.txt')):
    DUPS['copy-copy-%s' % _tag] = "copy_file(%r, 'a.c')\ncopy_file(%r, 'b.c')\n" % (_n, _n)
    DUPS['step-copy-%s' % _tag] = _step([_n]) + "copy_file(%r, 'b.c')\n" % _n
DUPS['objs-in-spaced-target'] = "executable('my prog', files=['x.c', 'x.cpp'])\n"
DUPS['objs-in-spaced-srcdir'] = "executable('prog', files=['my dir/x.c', 'my dir/x.cpp'])\n"
DUPS['objs-in-dollar-target'] = "executable('my$prog', files=['x.c', 'x.cpp'])\n"


# project(intermediate_dirs=False): implicit objects of different targets share the build
# directory's top, so a source used by two targets names one object twice - whatever the
# options of the two compilations are
_NOINT = "project('p', intermediate_dirs=False)\n"
DUPS['noint-shared-source'] = _NOINT + "executable('one', files=['a.c', 'x.c'])\n" \
    "executable('two', files=['b.c', 'x.c'])\n"
DUPS['noint-shared-source-other-options'] = _NOINT + \
    "executable('one', files=['a.c', 'x.c'], compile_options=['-DWHO=1'])\n" \
    "executable('two', files=['b.c', 'x.c'], compile_options=['-DWHO=2'])\n"
DUPS['noint-shared-source-lib-exe'] = _NOINT + "static_library('l', files=['x.c'])\n" \
    "executable('e', files=['a.c', 'x.c'])\n"
DUPS['noint-same-stem-across-targets'] = _NOINT + "executable('one', files=['x.c'])\n" \
    "executable('two', files=['x.cpp'])\n"
DUPS['noint-object-file-and-implicit'] = _NOINT + "object_file(file='x.c')\n" \
    "executable('t', files=['a.c', 'x.c'])\n"
DUPS['noint-object-files-twice'] = _NOINT + "object_files(['a.c', 'x.c'])\n" \
    "object_files(['x.c', 'b.c'], compile_options=['-DQ'])\n"
# the very same declaration written twice (a rule table that "merges identical rules" accepts
# these; the second declaration still names an existing output)
# a name used for a produced file AND for a phony target of the same build file (an alias,
# the test target): two rules for one name, whichever is declared first
DUPS['exe-then-alias-of-the-same-name'] = "e = executable('t', files=['a.c'])\nalias('t', [e])\n"
DUPS['alias-then-exe-of-the-same-name'] = "o = object_file('o', file='b.c')\nalias('t', [o])\n" \
    "executable('t', files=['a.c'])\n"
DUPS['exe-named-like-the-test-target'] = "e = executable('tests', files=['a.c'])\n" \
    "o = executable('other', files=['b.c'])\ntest(o)\n"
DUPS['step-then-alias-of-the-same-name'] = _step(['g.txt']) + "alias('g.txt', [])\n"
DUPS['same-exe-twice'] = "executable('t', files=['a.c'])\n" * 2
DUPS['same-obj-twice'] = "object_file('o', file='a.c')\n" * 2
DUPS['same-obj-twice-other-options'] = "object_file('o', file='a.c')\n" \
    "object_file('o', file='a.c', compile_options=['-DQ'])\n"
DUPS['same-copy-twice'] = "copy_file('c.out', 'a.c')\n" * 2
DUPS['same-step-twice'] = _step(['g.txt']) * 2
DUPS['same-multi-step-twice'] = _step(['g.txt', 'h.txt']) * 2
DUPS['same-lib-twice'] = "static_library('l', files=['a.c'])\n" * 2
DUPS['same-pch-twice'] = "precompiled_header('pp', file='h.h')\n" * 2
# one name twice INSIDE one declaration / one rule (nothing compares a batch with itself
# unless somebody thought of it)
DUPS['multi-step-same-name-twice'] = _step(['g.txt', 'g.txt'])
DUPS['multi-step-same-name-twice-of-three'] = _step(['g.txt', 'h.txt', 'g.txt'])
DUPS['pkg-config-uninstalled-name-clash'] = (
    "project('p', '1.0')\n"
    "pkg_config('foo', version='1.0')\npkg_config('foo-uninstalled', version='1.0')\n")
DUPS['pkg-config-same-name-twice'] = (
    "project('p', '1.0')\npkg_config('foo', version='1.0')\npkg_config('foo', version='2.0')\n")
# the same header precompiled for two targets under one (implicit) output name
DUPS['pch-string-two-targets'] = ("executable('one', files=['a.c'], pch='h.h')\n"
                                  "executable('two', files=['b.c'], pch='h.h')\n")
DUPS['pch-string-two-targets-other-includes'] = (
    "executable('one', files=['a.c'], pch='h.h', includes=['my dir'])\n"
    "executable('two', files=['b.c'], pch='h.h', compile_options=['-DQ'])\n")


def run_dup(case, res):
    backend = case['backend']
    root = core.mkscratch('c05d')
    try:
        src, bld = os.path.join(root, 'src'), os.path.join(root, 'bld')
        proj.write_tree(src, {'build.bfg': DUPS[case['flavour']], 'a.c': 'int a;\n',
                              'b.c': 'int b;\n', 'x.c': 'int x;\n', 'x.cpp': 'int xx;\n',
                              'my dir/x.c': 'int x;\n', 'my dir/x.cpp': 'int xx;\n',
                              'h.h': '#define H\n'})
        env = core.base_env(proj.stub_toolchain_env())
        rc, out = proj.configure(src, bld, backend, env=env)
        res.evaluations = 1
        res.key(['dup', backend, case['flavour']], True)
        if rc == 0:
            res.violate((backend, 'duplicate-output-accepted', case['flavour']),
                        {'backend': backend, 'flavour': case['flavour'],
                         'script': DUPS[case['flavour']]})
        else:
            res.ev('dup-output:refused')
            if 'Traceback' in out:
                res.notes.append('refusal came with a traceback for ' + case['flavour'])
    finally:
        core.rmtree(root)


def run_stemfam(case, res):
    backend = case['backend']
    root = core.mkscratch('c05f')
    try:
        src, bld = os.path.join(root, 'src'), os.path.join(root, 'bld')
        files = {p: 'int v_%d;\n' % k for k, p in enumerate(case['srcs'])}
        files['build.bfg'] = 'executable(%r, files=[%s])\n' % (
            'fam', ', '.join(repr(p) for p in case['srcs']))
        try:
            proj.write_tree(src, files)
        except OSError:
            res.exclude('file system refuses the name')
            return
        env = core.base_env(proj.stub_toolchain_env())
        rc, out = proj.configure(src, bld, backend, env=env)
        res.evaluations = 1
        res.key(['stemfam', backend, case['srcs']], True)
        if rc != 0:
            res.violate((backend, 'distinct-sources-refused', 'stems-differ-by-extension-letters'),
                        {'backend': backend, 'srcs': case['srcs'], 'output': out[-500:]})
            return
        with open(os.path.join(bld, 'compile_commands.json')) as f:
            db = json.load(f)
        outs = [os.path.normpath(os.path.join(e['directory'], e['output']))
                for e in db if 'output' in e and e['output'].endswith('.o')]
        if len(set(outs)) != len(case['srcs']):
            res.violate((backend, 'two-sources-one-object', 'stems-differ-by-extension-letters'),
                        {'backend': backend, 'srcs': case['srcs'],
                         'objects': sorted(os.path.relpath(o, bld) for o in outs)})
        for o in outs:
            if not o.startswith(bld + os.sep):
                res.violate((backend, 'output-outside-builddir'), {'backend': backend, 'output': o})
        res.ev('stemfam:accepted')
        res.sample = {'kind': 'stemfam', 'backend': backend, 'srcs': case['srcs'],
                      'objects': sorted(os.path.relpath(o, bld) for o in outs)}
    finally:
        core.rmtree(root)


def run_sibling(case, res):
    backend, d, sib, rest = case['backend'], case['dir'], case['sibling'], case['rest']
    root = core.mkscratch('c05b')
    try:
        src, bld = os.path.join(root, 'src'), os.path.join(root, 'bld')
        ext = '.txt' if case['form'] == 'copy-directory' else '.c'
        tag = case.get('tag') or 'sibling-dir-name-extends-target-dir'
        up = '/'.join(['..'] * (d.count('/') + 1)) + '/'
        if case.get('sources'):
            a, b = [x + ext for x in case['sources']]
            sub_refs = [up + a, up + b]
        else:
            a = '%s/util%s' % (sib, ext)            # sibling directory
            b = '%s/%s/util%s' % (d, rest, ext)     # what a prefix-stripping slip would fold it onto
            sub_refs = ['../' + a, '%s/util%s' % (rest, ext)]
        files = {a: 'int a_;\n', b: 'int b_;\n'}
        if case['form'] == 'submodule':
            files['build.bfg'] = 'submodule(%r)\n' % d
            files[d + '/build.bfg'] = "executable('prog', files=[%r, %r])\n" % tuple(sub_refs)
        elif case['form'] == 'named-target':
            files['build.bfg'] = "executable(%r, files=[%r, %r])\n" % (d + '/tool', a, b)
        else:
            files['build.bfg'] = "default(copy_files([%r, %r], directory=%r))\n" % (
                a, b, d + '/stage')
        try:
            proj.write_tree(src, files)
        except OSError:
            res.exclude('file system refuses the name')
            return
        log = os.path.join(root, 'log')
        extra = proj.stub_toolchain_env(log)
        extra.update({'CP': 'vwrap-cp -f', 'VSTUB_ENVKEYS': 'NONE'})
        env = core.base_env(extra)
        res.evaluations = 1
        res.key(['sibling', backend, d, sib or case.get('sources'), case['form']], True)
        wb = {'backend': backend, 'form': case['form'], 'sources': [a, b]}
        rc, out = proj.configure(src, bld, backend, env=env)
        if rc != 0:
            res.violate((backend, 'distinct-sources-refused', tag),
                        dict(wb, output=out[-500:]))
            return
        rc, out = proj.build(bld, backend, [], env=env)
        outs = []
        for r in proj.read_log(log):
            o = proj.step_outputs(r)
            if os.path.basename(r['name']) == 'vwrap-cp':
                o = [os.path.normpath(os.path.join(r['cwd'], r['argv'][-1]))]
            outs.extend(x for x in o if x.endswith('.o') or ext == '.txt')
        if rc != 0 or len(outs) != 2 or len(set(outs)) != 2:
            res.violate((backend, 'outputs-collide', tag),
                        dict(wb, outputs=[os.path.relpath(o, bld) for o in outs], rc=rc,
                             output=out[-300:]))
        for o in outs:
            if not o.startswith(bld + os.sep):
                res.violate((backend, 'output-outside-builddir'), dict(wb, output=o))
        res.ev('sibling:accepted')
        res.sample = dict(wb, outputs=sorted(os.path.relpath(o, bld) for o in outs))
    finally:
        core.rmtree(root)


GENSHARED = {
    # a source that lives in the BUILD directory (generated by a step, or named with an
    # explicit build-dir Path) compiled for two different targets: two different objects
    'generated-source-in-library-and-program':
        "g = build_step('gen/version.c', cmd=['vrec', '--touch', build_step.output, '--end'])\n"
        "lib = static_library('core', files=[g], compile_options=['-DL=1'])\n"
        "default(executable('tool', files=['main.c', g], libs=[lib]))\n",
    'step-output-in-two-programs':
        "g = build_step('gen/tab.c', cmd=['vrec', '--touch', build_step.output, '--end'])\n"
        "default(executable('p1', files=['main.c', g]), executable('bin/p2', files=['main.c', g]))\n",
    'builddir-path-in-program-and-submodule':
        "g = build_step('cfg/who.c', cmd=['vrec', '--touch', build_step.output, '--end'])\n"
        "default(executable('top', files=['main.c', Path('cfg/who.c', Root.builddir)]))\n"
        "submodule('sub')\n",
}


def run_genshared(case, res):
    backend = case['backend']
    root = core.mkscratch('c05g')
    try:
        src, bld = os.path.join(root, 'src'), os.path.join(root, 'bld')
        files = {'build.bfg': GENSHARED[case['flavour']], 'main.c': 'int main(void){return 0;}\n',
                 'version.c.in': 'int v;\n',
                 'sub/build.bfg': "default(executable('subprog', files=['m.c', "
                                  "Path('cfg/who.c', Root.builddir)]))\n",
                 'sub/m.c': 'int main(void){return 0;}\n'}
        proj.write_tree(src, files)
        log = os.path.join(root, 'log')
        extra = proj.stub_toolchain_env(log)
        extra.update({'CP': 'vwrap-cp -f', 'VSTUB_ENVKEYS': 'NONE'})
        env = core.base_env(extra)
        res.evaluations = 1
        res.key(['genshared', backend, case['flavour']], True)
        wb = {'backend': backend, 'flavour': case['flavour'], 'script': GENSHARED[case['flavour']]}
        rc, out = proj.configure(src, bld, backend, env=env)
        if rc != 0:
            res.violate((backend, 'distinct-targets-refused', 'shared-build-dir-source'),
                        dict(wb, output=out[-500:]))
            return
        rc, out = proj.build(bld, backend, [], env=env)
        objs = []
        for r in proj.read_log(log):
            if '-c' in r['argv']:
                objs.extend(proj.step_outputs(r))
        if rc != 0 or len(objs) != len(set(objs)) or len(objs) < 3:
            res.violate((backend, 'outputs-collide', 'shared-build-dir-source'),
                        dict(wb, objects=[os.path.relpath(o, bld) for o in objs], rc=rc,
                             output=out[-300:]))
        for o in objs:
            if not o.startswith(bld + os.sep):
                res.violate((backend, 'output-outside-builddir'), dict(wb, output=o))
        res.ev('genshared:accepted')
        res.sample = dict(wb, objects=sorted(os.path.relpath(o, bld) for o in objs))
    finally:
        core.rmtree(root)


ABS_FORMS = {
    # a source named by an absolute path: below the source directory / somewhere else
    'object-of-source-in-srcdir': "executable('prog', files=['main.c', '@SRC@/sub/foo.c'])\n",
    'object-of-source-elsewhere': "executable('prog', files=['main.c', '@EXT@/foo.c'])\n",
    'object-file-of-source-elsewhere': "default(object_file(file='@EXT@/foo.c'))\n"
                                       "default(executable('prog', files=['main.c']))\n",
    'copy-of-file-elsewhere': "default(copy_file(file='@EXT@/data.txt'))\n"
                              "default(executable('prog', files=['main.c']))\n",
    'copies-of-files-elsewhere': "default(copy_files(['@EXT@/data.txt']))\n"
                                 "default(executable('prog', files=['main.c']))\n",
    # ... the same with directory= (the output is placed below that directory)
    'copy-of-file-elsewhere-into-directory':
        "default(copy_file(file='@EXT@/data.txt', directory='out'))\n"
        "default(executable('prog', files=['main.c']))\n",
    'copies-of-files-elsewhere-into-directory':
        "default(copy_files(['@EXT@/data.txt', '@SRC@/sub/foo.c'], directory='out'))\n"
        "default(executable('prog', files=['main.c']))\n",
    'object-files-of-sources-elsewhere-into-directory':
        "default(object_files(['@EXT@/foo.c'], directory='objs'))\n"
        "default(executable('prog', files=['main.c']))\n",
    'object-file-of-source-in-srcdir-into-directory':
        "default(object_file(file='@SRC@/sub/foo.c', directory='objs'))\n"
        "default(executable('prog', files=['main.c']))\n",
    # the precompiled header of a header named by an absolute path
    'pch-of-header-elsewhere': "executable('prog', files=['main.c'], pch='@EXT@/pre.h')\n",
    'pch-of-header-in-srcdir': "executable('prog', files=['main.c'], pch='@SRC@/sub/pre.h')\n",
    # a relative source path whose remainder below the target's directory starts with a
    # component spelled like a home-directory reference (it is a plain directory name here)
    'object-of-source-below-tilde-directory':
        "executable('sub/prog', files=['sub/main.c', 'sub/~/foo.c'])\n",
    'objects-of-sources-below-tilde-directory':
        "default(object_files(['sub/~/foo.c'], directory='sub/objs'))\n"
        "default(executable('prog', files=['main.c']))\n",
    # ... and a TOP-level directory of that name, addressed as './~' (a bare leading '~' typed
    # in a script means the home directory by design)
    'object-file-of-source-below-top-level-tilde-directory':
        "default(object_file(file='./~/foo.c'))\n"
        "default(executable('prog', files=['main.c']))\n",
    'pch-of-header-below-top-level-tilde-directory':
        "executable('prog', files=['main.c'], pch='./~/pre.h')\n",
    'sources-below-top-level-tilde-directory-no-intermediate-dirs':
        "project('p', intermediate_dirs=False)\n"
        "executable('prog', files=['main.c', './~/foo.c'])\n",
    'copy-of-file-below-top-level-tilde-directory':
        "default(copy_file(file='./~/note.txt'))\n"
        "default(executable('prog', files=['main.c']))\n",
    'copies-of-files-below-tilde-directory':
        "default(copy_files(['sub/~/note.txt'], directory='sub/out'))\n"
        "default(executable('prog', files=['main.c']))\n",
}


def run_abs(case, res):
    """Implicitly named outputs of inputs given by ABSOLUTE paths: still inside the build
    directory; nothing appears beside the input (least of all in the source directory)."""
    backend, form = case['backend'], case['form']
    root = core.mkscratch('c05a')
    try:
        src, bld, ext = (os.path.join(root, x) for x in ('src', 'bld', 'ext'))
        text = ABS_FORMS[form].replace('@SRC@', src).replace('@EXT@', ext)
        proj.write_tree(src, {'build.bfg': text, 'main.c': 'int main(void){return 0;}\n',
                              'sub/foo.c': 'int foo;\n', 'sub/pre.h': '#define PRE 1\n',
                              'sub/main.c': 'int main(void){return 0;}\n',
                              'sub/~/foo.c': 'int foo;\n', 'sub/~/note.txt': 'n\n',
                              '~/foo.c': 'int foo;\n', '~/note.txt': 'n\n',
                              '~/pre.h': '#define PRE 1\n'})
        proj.write_tree(ext, {'foo.c': 'int foo;\n', 'data.txt': 'd\n',
                              'pre.h': '#define PRE 1\n'})
        os.makedirs(os.path.join(root, 'home'))
        log = os.path.join(root, 'log')
        extra = proj.stub_toolchain_env(log, backend)
        extra.update({'CP': 'vwrap-cp -f', 'VSTUB_ENVKEYS': 'NONE',
                      'HOME': os.path.join(root, 'home')})
        env = core.base_env(extra)
        before = (proj.snapshot(src), proj.snapshot(ext))
        res.evaluations = 1
        res.key(['abs', backend, form], True)
        w = {'backend': backend, 'form': form, 'script': ABS_FORMS[form]}
        how = 'tilde-directory-name' if 'tilde' in form else 'absolute-input-path'
        rc, out = proj.configure(src, bld, backend, env=env)
        if rc != 0:
            # a refusal is loud; the property only forbids writing outside the build directory
            res.ev('abs:refused-at-configure')
            return
        rc, out = proj.build(bld, backend, [], env=env,
                             extra=['-k'] if backend == 'make' else ['-k', '0'])
        recs = proj.read_log(log)
        outs = []
        for r in recs:
            o = proj.step_outputs(r)
            if os.path.basename(r['name']) in ('vwrap-cp', 'vwrap-ln') and len(r['argv']) >= 3:
                o = [os.path.normpath(os.path.join(r['cwd'], r['argv'][-1]))]
            outs += o
        res.ev('abs:built')
        mid = (proj.snapshot(src), proj.snapshot(ext))
        # ... and `clean` removes products, never inputs
        proj.build(bld, backend, ['clean'], env=env)
        after = (proj.snapshot(src), proj.snapshot(ext))
        gone = sorted(k for k in before[1] if k not in after[1]) + \
            sorted(k for k in before[0] if k not in after[0])
        if gone:
            res.violate((backend, 'clean-removed-an-input', how, form),
                        dict(w, removed=gone[:4]))
        after = mid
        new_src = sorted(set(after[0]) - set(before[0]))
        new_ext = sorted(set(after[1]) - set(before[1]))
        changed = sorted(k for k in before[1] if after[1].get(k) != before[1][k]) + \
            sorted(k for k in before[0] if after[0].get(k) != before[0][k])
        outside = sorted(o for o in outs if not o.startswith(bld + os.sep))
        if new_src or new_ext or outside or changed:
            where = 'in-source-directory' if new_src else 'beside-the-input'
            res.violate((backend, 'output-outside-builddir', how, where),
                        dict(w, created_in_srcdir=new_src[:6], created_beside_input=new_ext[:6],
                             step_outputs_outside=[os.path.relpath(o, root) for o in outside][:6],
                             inputs_changed=changed[:4]))
        else:
            res.ev('abs:outputs-inside-builddir')
        res.sample = dict(w, step_outputs=[os.path.relpath(o, root) for o in outs][:6])
    finally:
        core.rmtree(root)


def run_case(case):
    res = CaseResult()
    {'pairs': run_pairs, 'set': run_set, 'dup': run_dup, 'stemfam': run_stemfam,
     'sibling': run_sibling, 'genshared': run_genshared, 'abs': run_abs}[case['kind']](case, res)
    return res
