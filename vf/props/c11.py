"""C11 - find_files / find_paths return exactly what the documented glob
semantics select.

Workload: seeded random real directory trees (names with dots, spaces, glob
metacharacters, hidden, backup/lock names, symlinked directories, empty
directories, depth <= 5; a second tree in the build directory and a third one
outside both) and 40-60 find_files/find_paths calls per tree packed into one
generated build.bfg that writes every return value as a JSON line: the
observation point is the scripting API inside a real `bfg9000 configure`.

Oracle: vf/ref/refglob.py (written from doc/reference/builtins.md; walks
everything, no pruning, no caching; two-sided where the documentation is open:
must <= result <= may).  Further monitors: every returned entry exists and has
the reported kind; a repeated call (served from the cache) and the same call
with the cache switched the other way return the same set; the in-process
monitor vf/mon/findmon.py logs every exclude_recursive verdict so that a missing
entry is pinned on pruning (never / exclude glob / filter) or on the matcher;
everything found plus the extra/not_now entries of dist=True calls is in the
source distribution (dist rule of the generated Makefile; member list of a real
`make dist-gzip` archive in a subset of the cases).
"""
import json
import os
import shlex
import tarfile

from .. import core, proj
from ..core import CaseResult
from ..ref import refglob

LEVEL = 'exploration'
MODE = 'thread'
RULE = ('case 0 = the reference against 22 hand-written expectations; every other case = '
        'one random tree (25-70 entries in the source dir, depth <= 5, names '
        'from a hostile pool, symlinks to directories/files, empty directories; 5-12 '
        'entries under <builddir>/gen; 5-10 under an outside directory) + one generated '
        'build.bfg of call groups; a group = a base call (patterns derived from existing '
        'entries by generalising components to * ? [..] [!..] and collapsing 0..n '
        'components into ** (up to 3 runs), or random patterns; 1-3 patterns with '
        'different bases/roots; type/extra/exclude/filter/dist/cache drawn at random), the '
        'same call repeated, the same call with cache flipped, and 0-2 variants that differ '
        'in exactly one argument; every tree also gets up to 3 directory triples {A, B nested '
        'in A, sibling named A + a character below "/" (- . space + , !) + suffix} with files, '
        'and two directed groups per triple whose pattern list has exactly these three bases '
        '(plus random groups derived from entries below them), and up to 3 symbolic links to '
        'non-empty directories (relative/absolute targets, sibling/nested/outside tree) with '
        'one directed group each whose literal prefix ends in or passes through the link '
        '(sometimes with a second base beside or above it); 15 % of the cases hand the '
        'source directory itself to bfg9000 through a symlink (configure-into) '
        '; 20 % (35 % in small cases) of the groups with extra= or a filter never run with '
        'cache=True (base and repeat with cache=False, dist=True, no cache-flipped twin), and '
        'every tree gets 2 (small: 1) groups of directory(name, include=..)/'
        'header_directory(name, include=..) calls, half of them with cache=False, with '
        'extra=/filter_by_platform/lambda filters returning not_now '
        '(60-100 calls per script; plus "small" cases of 4-9 calls on '
        '12-30 entries so that the global dist check is not masked by other calls); '
        'distinct = (tree digest, patterns, type, extra, exclude, '
        'find_exclude, filter); non-trivial = the reference selects at least one entry and '
        'rejects at least one entry below the pattern bases')
ASSUMPTIONS = [
    'refglob.py is the reading of doc/reference/builtins.md described in its docstring '
    '(open points are two-sided: hidden names vs wildcards, exclusion of the literal-prefix '
    'directories, filter_by_platform beyond the spelled-out name shapes, anything reached '
    'through a symlinked directory below the literal prefix; a link inside the literal '
    'prefix is path resolution and what lies behind it is required unless another pattern '
    'of the call has its prefix strictly above the link)',
    'an explicit type also governs extra/exclude globs; type="f" with slash-terminated '
    'globs (an input error) is not generated',
    'find_exclude is always set explicitly (documented vs coded default is out of scope)',
    'patterns whose literal prefix does not exist are generated rarely and must only '
    'return nothing without raising',
    'bracket expressions use no ranges, no leading ^, no ] member, no backslash '
    '(not documented); unclosed [ is never generated in patterns',
    'the dist member list is the argument list of the dist-gzip recipe in the generated '
    'Makefile (shlex after $$ -> $), cross-checked against the archive written by the real '
    'doppel in the real_dist subset',
    'target platform is linux/posix (filter_by_platform)',
    'directory()/header_directory(): the search type is undocumented, so their selection is '
    'only bounded from above (union of the readings type="*" and type="f") and their dist '
    'demands are what both readings demand; header_directory() is only given header '
    'patterns because it raises AttributeError for a found file without a known language',
]

BFG = os.path.join(core.VENV_BIN, 'bfg9000')

DIR_POOL = ['src', 'lib', 'include', 'sub', 'a', 'b', 'ab', 'abc', 'd.1', 'v1.2',
            'sp ace', '.hid', '.git', 'old~', 'x[1]', 'x1', 'st*r', 'star', 'q?',
            'qx', 'windows', 'linux', 'foo_darwin', 'posix', 'Src', 'test', 'a-b',
            'a+b', 'été', '[x]', 'x', 'a!b', 'x]y', 'c,d', 'deep', 'gen2',
            # directory entries that merely LOOK like home-directory references
            '~', '~root', '~x', '~']
FILE_POOL = ['a.c', 'b.c', 'ab.c', 'abc.c', 'main.cpp', 'x.h', 'y.hpp', 'README',
             'a.b.c', '.hidden', '.hid.c', 'f~', 'g.c~', '#lock#', '.#lk', '.lk#',
             'sp ace.c', 'st*r.c', 'star.c', 'wh?t.h', 'what.h', 'br[1].c', 'br1.c',
             'br]x.c', 'foo_windows.c', 'foo_linux.c', 'posix.c', 'win9x.h',
             'windows', 'a!b.c', '-dash.c', 'é.c', 'x.c.bak', 'Makefile', 'a',
             'ab', 'abc', 'c', '.c', 'c.', 'x.C', 'foo_windows.tar.gz',
             'mywindows.c', 'darwin.c', '[.c', '!x.c', 'a]', '**', '*', '?', 'x.c',
             'y.c', 'z.h', 'lib.h', 'util.c', 'util.h', 'test_a.c', 'a_msdos.h',
             '~root', '~x.c', '~.h']
FIND_EXCLUDES = [[], ['*~'], ['.*#', '*~', '#*#'], ['.#*', '*~', '#*#'],
                 ['*~', 'old~/'], ['*.bak', '.*'], ['*~', '.git/']]
CLASS_CHARS = 'abcsxyz01._ *?[,+~'
SIMPLE_POOL = ['*.h', '*.hpp', '*~', '.*', '#*#', '.#*', '*.bak', '*.c', '?', '??',
               '*.*', 'README', '[ab]*', '[!a]*', '*b*', 'x*', 'sub', 'test',
               'Makefile', '*_windows.c']


def floors(tier):
    # about half of what seeds 0-2 produce on the unchanged tree
    if tier == 'quick':
        return {'reference-selfchecks': 22, 'calls-judged': 1800,
                'directory-calls-judged': 200,
                'entries-compared': 50000, 'selected-must': 7000,
                'exists-checked': 8000, 'lists-checked-for-duplicates': 1800,
                'repeat-compared': 450,
                'cacheflip-compared': 450, 'variant-compared': 450,
                'served-from-cache': 500, 'match-evals': 25000,
                'prune-verdicts': 6000, 'pruned-dirs-checked': 1500,
                'dist-entries-checked': 6000, 'real-dist-runs': 3,
                'distinct_nontrivial': 600}
    return {'reference-selfchecks': 22, 'calls-judged': 30000,
            'directory-calls-judged': 3000,
            'entries-compared': 900000, 'selected-must': 150000,
            'exists-checked': 170000, 'lists-checked-for-duplicates': 30000,
            'repeat-compared': 7000,
            'cacheflip-compared': 7000, 'variant-compared': 7000,
            'served-from-cache': 8000, 'match-evals': 500000,
            'prune-verdicts': 120000, 'pruned-dirs-checked': 30000,
            'dist-entries-checked': 110000, 'real-dist-runs': 40,
            'distinct_nontrivial': 10000}


# --------------------------------------------------------------------------
# generation

def gen_tree(rng, lo, hi, top=None, max_depth=5, links=True):
    """-> {relpath: content | None | ['symlink', target]} (insertion-ordered)"""
    tree = {}
    dirs = [[]]
    if top:
        tree[top] = None
        dirs = [[top]]
    used = {(): set()}
    target = rng.randint(lo, hi)
    tries = 0
    while len(tree) < target and tries < target * 20:
        tries += 1
        # favour deeper directories a little so that depth 4-5 is reached
        parent = rng.choice(dirs if rng.random() < 0.6 else dirs[-6:])
        depth = len(parent) + 1
        r = rng.random()
        names = used.setdefault(tuple(parent), set())
        if r < 0.30 and depth < max_depth:
            name = rng.choice(DIR_POOL)
            if name in names:
                continue
            names.add(name)
            tree['/'.join(parent + [name])] = None
            dirs.append(parent + [name])
        elif r < 0.36 and links and len(dirs) > 2:
            name = rng.choice(['lnk', 'link.d', 'up', 'alias', 'l n k'])
            if name in names:
                continue
            dest = rng.choice(dirs)
            if dest == parent + [name]:
                continue
            names.add(name)
            rel = os.path.relpath('/'.join(dest) or '.', '/'.join(parent) or '.')
            tree['/'.join(parent + [name])] = ['symlink', rel]
        elif r < 0.39 and links:
            name = rng.choice(['flink.c', 'flink.h', 'fl'])
            if name in names:
                continue
            files = [k for k, v in tree.items() if isinstance(v, str)]
            if not files:
                continue
            dest = rng.choice(files)
            names.add(name)
            rel = os.path.relpath(dest, '/'.join(parent) or '.')
            tree['/'.join(parent + [name])] = ['symlink', rel]
        else:
            name = rng.choice(FILE_POOL)
            if name in names or (not parent and name.startswith('-')):
                continue
            names.add(name)
            tree['/'.join(parent + [name])] = 'x\n'
    return tree


def tree_entries(tree):
    """[(components, isdir)] of the generated (not link-resolved) entries."""
    out = []
    for rel, v in tree.items():
        if v is None:
            out.append((rel.split('/'), True))
        elif isinstance(v, str):
            out.append((rel.split('/'), False))
        else:
            out.append((rel.split('/'), None))     # a link: kind decided on disk
    return out


def lit_escape(s):
    return s.replace('[', '[[]').replace('*', '[*]').replace('?', '[?]')


def generalise(rng, name, allow_lit=True):
    """One component glob that matches `name` (written from the grammar in the docs)."""
    kinds = ['star', 'ext', 'pre', 'mid', 'q', 'cls', 'neg', 'starq']
    if allow_lit:
        kinds += ['lit', 'lit', 'lit']
    kind = rng.choice(kinds)
    if kind == 'lit':
        return lit_escape(name)
    if kind == 'ext' and '.' in name[1:]:
        return '*' + lit_escape(name[name.rindex('.'):])
    if kind == 'pre':
        k = rng.randint(1, min(3, len(name)))
        return lit_escape(name[:k]) + '*'
    if kind == 'mid' and len(name) >= 2:
        return lit_escape(name[0]) + '*' + lit_escape(name[-1])
    if kind == 'starq' and len(name) >= 1:
        return '?' + '*' if rng.random() < 0.5 else '*' + '?'
    if kind in ('q', 'cls', 'neg'):
        chars = list(name)
        pos = rng.sample(range(len(chars)), min(len(chars), rng.randint(1, 2)))
        out = []
        for i, ch in enumerate(chars):
            if i not in pos:
                out.append(lit_escape(ch))
            elif kind == 'q' or ch in ']^-!\\':
                out.append('?')
            elif kind == 'cls':
                members = set(ch)
                for _ in range(rng.randint(0, 2)):
                    members.add(rng.choice(CLASS_CHARS))
                members = sorted(members)
                rng.shuffle(members)
                out.append('[' + ''.join(members) + ']')
            else:
                members = [c for c in rng.sample(CLASS_CHARS, rng.randint(1, 3))
                           if c != ch]
                if not members:
                    out.append('?')
                else:
                    out.append('[!' + ''.join(members) + ']')
        return ''.join(out)
    return '*'


def derive_pattern(rng, entries, min_prefix=0, prefix_s=''):
    """A pattern built from an existing entry.  -> (string, wants_dir)"""
    comps, isdir = rng.choice(entries)
    n = len(comps)
    lo = min(min_prefix, n - 1)
    k = rng.randint(lo, max(lo, n - 1))
    # a literal prefix must not contain glob characters
    while k > lo and any(refglob.is_glob_component(c) for c in comps[:k]):
        k -= 1
    if any(refglob.is_glob_component(c) for c in comps[:k]):
        return None
    rest = [generalise(rng, c) for c in comps[k:]]
    if len(rest) >= 2 and rng.random() < 0.12:
        # three or more SEPARATE '**' runs, each of which has to match nothing at all for
        # the entry the pattern was derived from ('**/a/**/b/**/f.c' finds a/b/f.c)
        rest = [x for c in rest for x in ('**', c)]
        if rng.random() < 0.5:
            rest.insert(len(rest) - 1, '**')      # ... the last run two stars long
        nss = 0
    else:
        nss = rng.choice([0, 0, 0, 1, 1, 1, 1, 2, 2, 3])
    for _ in range(nss):
        i = rng.randint(0, len(rest))
        j = min(len(rest), i + rng.choice([0, 0, 1, 1, 2, 3]))
        rest[i:j] = ['**']
    if not any(refglob.is_glob_component(c) for c in rest):
        if rest:
            rest[-1] = generalise(rng, comps[-1], allow_lit=False)
        else:
            rest = ['*']
    s = '/'.join(comps[:k] + rest)
    wants_dir = bool(isdir) or isdir is None
    return prefix_s + s, wants_dir


def random_pattern(rng, dirs):
    base = rng.choice(dirs)
    if any(refglob.is_glob_component(c) for c in base):
        base = []
    pool = ['*', '**', '*.c', '*.h', '?', '??*', 'a*', '[as]*', 'src', 'sub',
            'include', '*.*', '.*', '[!.]*', 'x*', '*b*']
    rest = [rng.choice(pool) for _ in range(rng.randint(1, 4))]
    if not any(refglob.is_glob_component(c) for c in rest):
        rest.append('*')
    return '/'.join(base + rest), False


def simple_glob(rng, entries, allow_slash):
    if rng.random() < 0.45:
        g = rng.choice(SIMPLE_POOL)
        if allow_slash and rng.random() < 0.25:
            g += '/'
        return g
    comps, isdir = rng.choice(entries)
    g = generalise(rng, comps[-1])
    if g in ('*',) and rng.random() < 0.7:
        g = generalise(rng, comps[-1])
    if allow_slash and (isdir or isdir is None) and rng.random() < 0.75:
        g += '/'
    return g


def gen_rules(rng, entries):
    rules = []
    for _ in range(rng.randint(1, 3)):
        comps, isdir = rng.choice(entries)
        name = comps[-1]
        pred = rng.choice(['base_startswith', 'base_endswith', 'base_contains',
                           'base_eq', 'isdir', 'depth_ge'])
        if pred == 'base_startswith':
            arg = name[:rng.randint(1, 2)]
        elif pred == 'base_endswith':
            arg = rng.choice(['.c', '.h', '~', name[-2:]])
        elif pred == 'base_contains':
            arg = rng.choice(['_', '.', name[len(name) // 2], 'b'])
        elif pred == 'base_eq':
            arg = name
        elif pred == 'isdir':
            arg = rng.random() < 0.5
        else:
            arg = rng.randint(2, 4)
        result = rng.choice(['exclude', 'exclude', 'not_now', 'not_now',
                             'exclude_recursive', 'exclude_recursive', 'include'])
        rules.append([pred, arg, result])
    return {'rules': rules}


SIBLING_CHARS = ['-', '.', ' ', '+', ',', '!']      # all sort below '/'


def add_prefix_siblings(rng, tree, count):
    """Directory triples (A, B nested in A, S = A's name + a character below
    '/' + suffix, next to A), each with matching files: the shape in which
    "children sort right after their parent" differs between component order
    and string order (A < A-gen < A/sub as strings).  -> [(A, B, S)] as paths"""
    triples = []
    dirs = [k for k, v in tree.items() if v is None and
            not any(refglob.is_glob_component(c) for c in k.split('/')) and
            k.count('/') < 3]
    rng.shuffle(dirs)
    for a in dirs[:count]:
        kids = [k for k, v in tree.items() if v is None and
                k.startswith(a + '/') and k.count('/') == a.count('/') + 1 and
                not refglob.is_glob_component(k.rsplit('/', 1)[1])]
        if kids and rng.random() < 0.6:
            b = rng.choice(kids)
        else:
            b = a + '/' + rng.choice(['sub', 'nest', 'in.ner', 'b'])
            if b in tree and tree[b] is not None:
                continue
            tree[b] = None
        for name in rng.sample(['sub.c', 'x.c', 'y.h', 'z'], 2):
            tree.setdefault(b + '/' + name, 'x\n')
        tree.setdefault(a + '/' + rng.choice(['main.c', 'x.c', 'top.h']), 'x\n')
        sib = a + rng.choice(SIBLING_CHARS) + rng.choice(['gen', 'old', '2', 'x'])
        if sib in tree and tree[sib] is not None:
            continue
        tree[sib] = None
        for name in rng.sample(['gen.c', 'x.c', 'g.h', 'z'], 2):
            tree.setdefault(sib + '/' + name, 'x\n')
        triples.append((a, b, sib))
    return triples


LINK_NAMES = ['vendor', 'lnk2', 'ln.k', 'l k', 'third', 'alias2']


def add_symlink_bases(rng, tree, ext, count):
    """Symbolic links to directories that have content, to be used as (part of)
    the literal prefix of patterns: relative and absolute targets, a sibling
    directory, a nested one, one in the outside tree.
    -> [(link path, [virtual entries below the link])]"""
    out = []
    real = [k for k, v in tree.items() if v is None and
            any(isinstance(tree[o], str) and o.startswith(k + '/') for o in tree)]
    parents = [''] + [k for k, v in tree.items() if v is None and
                      not any(refglob.is_glob_component(c) for c in k.split('/'))
                      and k.count('/') < 2]
    for _ in range(count):
        if not real:
            break
        parent = rng.choice(parents)
        name = rng.choice(LINK_NAMES)
        link = (parent + '/' if parent else '') + name
        if link in tree:
            continue
        kind = rng.choice(['rel', 'rel', 'abs', 'nested', 'ext'])
        if kind == 'ext':
            dirs = [k for k, v in ext.items() if v is None and
                    any(isinstance(ext[o], str) and o.startswith(k + '/')
                        for o in ext)]
            if not dirs:
                kind = 'rel'
        if kind == 'ext':
            dest = rng.choice(dirs)
            tree[link] = ['symlink', '@EXT@/' + dest]
            src_tree, dest_c = ext, dest.split('/')
        else:
            cands = real
            if kind == 'nested':
                cands = [k for k in real if parent and k.startswith(parent + '/')
                         and k.count('/') > parent.count('/') + 1] or real
            dest = rng.choice(cands)
            if dest == link or dest.startswith(link + '/'):
                continue
            if kind == 'abs':
                tree[link] = ['symlink', '@SRC@/' + dest]
            else:
                tree[link] = ['symlink', os.path.relpath(dest, parent or '.')]
            src_tree, dest_c = tree, dest.split('/')
        lc = link.split('/')
        virt = []
        for e_comps, isdir in tree_entries(src_tree):
            if e_comps[:len(dest_c)] == dest_c and len(e_comps) > len(dest_c):
                # entries behind a further link below the target are not reached
                inner = ['/'.join(e_comps[:n]) for n in
                         range(len(dest_c) + 1, len(e_comps))]
                if any(isinstance(src_tree.get(x), list) for x in inner):
                    continue
                virt.append((lc + e_comps[len(dest_c):], isdir))
        if virt:
            out.append((link, virt))
    return out


def symlink_base_patterns(rng, ctx, linkinfo):
    """Patterns whose literal prefix contains the link (as last or as a middle
    component); sometimes further patterns beside it."""
    link, virt = linkinfo
    lc = link.split('/')
    pats, wants = [], []
    for _ in range(rng.choice([1, 1, 1, 2])):
        p = None
        for _ in range(6):
            p = derive_pattern(rng, virt, min_prefix=len(lc))
            if p and p[0].split('/')[:len(lc)] == lc:
                break
            p = None
        if p is None:
            p = (link + '/' + rng.choice(['*', '*.c', '**/*', '**/*.[ch]']), False)
        obj = rng.random() < 0.2
        pats.append({'s': p[0], 'root': 'srcdir' if obj else None, 'obj': obj})
        wants.append(p[1])
    r = rng.random()
    if r < 0.25:
        # a second base beside (not above) the link
        sib = [e for e in ctx['src_entries'] if e[0][:1] != lc[:1] and len(e[0]) > 1]
        p = derive_pattern(rng, sib, min_prefix=1) if sib else None
        if p:
            pats.append({'s': p[0], 'root': None, 'obj': False})
            wants.append(p[1])
    elif r < 0.35:
        # a base above the link: what lies behind it is then open (upper bound)
        p = derive_pattern(rng, ctx['src_entries'])
        if p:
            pats.append({'s': p[0], 'root': None, 'obj': False})
            wants.append(p[1])
    order = list(range(len(pats)))
    rng.shuffle(order)
    return [pats[i] for i in order], [wants[i] for i in order]


def directed_patterns(rng, triple):
    """A, sibling and nested base in one list, in random order."""
    a, b, sib = triple
    tails = ['*', '*.c', '*.*', '**/*.c', '?*', '**', '*.[ch]', '**/*']
    pats = [{'s': d + '/' + rng.choice(tails), 'root': None, 'obj': False}
            for d in (a, sib, b)]
    if rng.random() < 0.3:
        pats.append({'s': rng.choice([a, b, sib]) + '/' + rng.choice(tails),
                     'root': None, 'obj': False})
    rng.shuffle(pats)
    if rng.random() < 0.25:
        for q in pats:
            q['obj'], q['root'] = True, 'srcdir'
    return pats


def gen_group(rng, g, ctx, small=False, preset=None, preset_wants=None):
    """-> list of call dicts (base, repeat, flip, variants)."""
    src_entries, src_dirs = ctx['src_entries'], ctx['src_dirs']
    fe_slash = any(x.endswith('/') for x in ctx['find_exclude'])

    def one_pattern():
        r = rng.random()
        if r < 0.08 and ctx['gen_entries']:
            p = derive_pattern(rng, ctx['gen_entries'], min_prefix=1)
            if p:
                return {'s': p[0], 'root': 'builddir', 'obj': True}, p[1]
        elif r < 0.14 and ctx['ext_entries']:
            p = derive_pattern(rng, ctx['ext_entries'], prefix_s='@EXT@/')
            if p:
                return {'s': p[0], 'root': 'absolute',
                        'obj': rng.random() < 0.5}, p[1]
        elif r < 0.22:
            s, wd = random_pattern(rng, src_dirs)
            return {'s': s, 'root': None, 'obj': False}, wd
        elif r < 0.24:
            return {'s': 'no-such-dir/' + rng.choice(['*', '**/*.c', '*/x?']),
                    'root': None, 'obj': False}, False
        p = None
        while p is None:
            p = derive_pattern(rng, src_entries)
        obj = rng.random() < 0.2
        return {'s': p[0], 'root': 'srcdir' if obj else None, 'obj': obj}, p[1]

    npat = rng.choice([1, 1, 1, 1, 1, 2, 2, 3])
    pats, wants = [], []
    for _ in range(npat):
        p, wd = one_pattern()
        pats.append(p)
        wants.append(wd)
    if preset is None and npat > 1 and ctx.get('triples') and rng.random() < 0.2:
        # random part: patterns derived from entries below A, its sibling and
        # the nested directory (bases at or below those directories)
        preset_dirs = list(rng.choice(ctx['triples']))
        rng.shuffle(preset_dirs)
        pats, wants = [], []
        for d in preset_dirs:
            dc = d.split('/')
            below = [e for e in src_entries
                     if e[0][:len(dc)] == dc and len(e[0]) > len(dc)]
            p = derive_pattern(rng, below, min_prefix=len(dc)) if below else None
            if p:
                pats.append({'s': p[0], 'root': None, 'obj': False})
                wants.append(p[1])
        if not pats:
            p, wd = one_pattern()
            pats, wants = [p], [wd]
        npat = len(pats)
    if preset is not None:
        pats, wants = preset, preset_wants or [False] * len(preset)
        npat = len(pats)
    elif npat > 1 and rng.random() < 0.4:
        # nested bases: a second pattern below (or above) the first one's base
        p = None
        for _ in range(5):
            p = derive_pattern(rng, src_entries)
            if p:
                break
        if p:
            pats[-1] = {'s': p[0], 'root': None, 'obj': False}
            wants[-1] = p[1]

    typ = rng.choice([None] * 11 + ['f'] * 3 + ['d'] * 3 + ['*'] * 3)
    if fe_slash and typ == 'f':
        typ = None
    for p, wd in zip(pats, wants):
        if typ != 'f' and wd and rng.random() < (0.8 if typ is None else 0.4):
            p['s'] += '/'
        elif typ != 'f' and not wd and rng.random() < 0.05:
            p['s'] += '/'
    allow_slash = typ != 'f'
    for p in pats:
        # a TYPED string starting with '~' means the home directory (by design); a top-level
        # entry that merely has such a name is addressed as './~...'
        if p['s'].startswith('~'):
            p['s'] = './' + p['s']

    def globs(prob):
        if rng.random() >= prob:
            return None
        return [simple_glob(rng, src_entries, allow_slash)
                for _ in range(rng.choice([1, 1, 2]))]

    extra = globs(0.8 if small else 0.35)
    exclude = globs(0.45)
    r = rng.random()
    flt, fid = None, None
    if r < 0.15:
        flt, fid = 'platform', 'platform'
    elif r < 0.35:
        flt, fid = gen_rules(rng, src_entries), 'g%d' % g
    base = {'fn': rng.choice(['find_files', 'find_paths']), 'patterns': pats,
            'scalar': npat == 1 and rng.random() < 0.6, 'type': typ,
            'extra': extra, 'exclude': exclude, 'filter': flt, 'fid': fid,
            'dist': rng.random() < 0.7, 'cache': rng.random() < 0.75,
            'group': g, 'role': 'base'}
    out = [base, dict(base, role='repeat',
                      fn=rng.choice(['find_files', 'find_paths'])),
           dict(base, role='flip', cache=not base['cache'])]
    # groups that never run with cache=True, so that what an uncached search
    # owes the source distribution is not supplied by its cached twin
    nocache_only = bool(extra or flt) and rng.random() < (0.35 if small else 0.2)
    if nocache_only:
        base['cache'], base['dist'] = False, True
        out = [base, dict(out[1], cache=False, dist=True)]

    nvar = rng.choice([0, 1, 1, 2]) if not small else rng.choice([1, 2])
    for v in range(nvar):
        fields = ['type', 'exclude', 'extra', 'filter', 'dist', 'dist',
                  'pattern', 'order']
        if small:
            fields += ['dist'] * 4
        field = rng.choice(fields)
        var = json.loads(json.dumps(base))
        var['cache'] = not nocache_only
        var['role'] = 'variant:' + field
        if field == 'type':
            has_slash = (any(p['s'].endswith('/') for p in pats) or fe_slash or
                         any(x.endswith('/') for x in (extra or []) + (exclude or [])))
            choices = [t for t in (None, 'f', 'd', '*') if t != typ and
                       not (t == 'f' and has_slash)]
            var['type'] = rng.choice(choices)
        elif field in ('exclude', 'extra'):
            cur = list(var[field] or [])
            if cur and rng.random() < 0.4:
                cur.pop(rng.randrange(len(cur)))
            else:
                cur.append(simple_glob(rng, src_entries, allow_slash))
            var[field] = cur or None
        elif field == 'filter':
            if flt is None:
                if rng.random() < 0.4:
                    var['filter'], var['fid'] = 'platform', 'platform'
                else:
                    var['filter'] = gen_rules(rng, src_entries)
                    var['fid'] = 'g%dv%d' % (g, v)
            else:
                var['filter'], var['fid'] = None, None
        elif field == 'dist':
            var['dist'] = not base['dist']
        elif field == 'pattern':
            k = rng.randrange(len(var['patterns']))
            p = var['patterns'][k]
            if p['s'].endswith('/'):
                p['s'] = p['s'].rstrip('/')
            elif typ != 'f' and rng.random() < 0.5:
                p['s'] += '/'
            else:
                comps = p['s'].split('/')
                # one more ** somewhere behind the literal prefix
                idx = [i for i, c in enumerate(comps)
                       if refglob.is_glob_component(c)]
                at = rng.randint(idx[0], len(comps)) if idx else len(comps)
                if at >= len(comps):
                    at = len(comps) - 1
                comps.insert(at, '**')
                p['s'] = '/'.join(comps)
        elif field == 'order':
            if len(var['patterns']) > 1:
                var['patterns'].reverse()
            else:
                var['scalar'] = not var['scalar']
                var['fn'] = ('find_paths' if var['fn'] == 'find_files'
                             else 'find_files')
        out.append(var)
    return out


def gen_dir_group(rng, g, ctx, small=False):
    """directory(name, include=...) / header_directory(name, include=...):
    "include, extra, exclude, filter, dist and cache are forwarded to
    find_files".  -> list of call dicts or []"""
    src_entries = ctx['src_entries']
    fe_slash = any(x.endswith('/') for x in ctx['find_exclude'])
    dirs = [d for d in ctx['src_dirs'] if d and
            not any(refglob.is_glob_component(c) for c in d) and
            sum(1 for e in src_entries if e[0][:len(d)] == d and
                len(e[0]) > len(d)) >= 2]
    if not dirs:
        return []
    d = rng.choice(dirs)
    below = [e for e in src_entries if e[0][:len(d)] == d and len(e[0]) > len(d)]
    name = '/'.join(d)
    include = []
    for _ in range(rng.choice([1, 1, 2])):
        p = derive_pattern(rng, below, min_prefix=len(d))
        if p and p[0].startswith(name + '/'):
            include.append(p[0][len(name) + 1:])
        else:
            include.append(rng.choice(['*', '*.h', '**/*.h', '**/*', '*.[ch]']))
    fn = 'directory' if fe_slash or rng.random() < 0.5 else 'header_directory'
    allow_slash = fn == 'directory'
    if fn == 'header_directory':
        # header_directory() raises AttributeError ('File' object has no
        # attribute 'lang') as soon as a found file has no known language
        # (README, x.bak): not a matter of which files are found - only header
        # patterns here
        include = [rng.choice(['*.h', '**/*.h', '*.hpp', '**/*.hpp', '*/*.h',
                               '[uwxyz]*.h', '?*.h'])
                   for _ in include]

    def globs(prob):
        if rng.random() >= prob:
            return None
        return [simple_glob(rng, below, allow_slash)
                for _ in range(rng.choice([1, 1, 2]))]
    extra = globs(0.7)
    exclude = globs(0.3)
    r = rng.random()
    flt, fid = None, None
    if r < 0.3:
        flt, fid = 'platform', 'platform'
    elif r < 0.55:
        flt, fid = gen_rules(rng, below), 'g%d' % g
        # make sure the diverting verdict occurs
        flt['rules'].append([rng.choice(['base_endswith', 'base_contains']),
                             rng.choice(['.h', '.c', 'a', '.']), 'not_now'])
    if name.startswith('~'):
        name = './' + name      # (see find_files above: a typed '~' is the home directory)
    include = ['./' + i if i.startswith('~') else i for i in include]
    base = {'fn': fn, 'dirname': name, 'include': include,
            'patterns': [{'s': name + '/' + i, 'root': None, 'obj': False}
                         for i in include],
            'scalar': len(include) == 1 and rng.random() < 0.5, 'type': None,
            'extra': extra, 'exclude': exclude, 'filter': flt, 'fid': fid,
            'dist': rng.random() < 0.85, 'cache': rng.random() < 0.5,
            'group': g, 'role': 'base'}
    out = [base, dict(base, role='repeat')]
    if base['cache']:
        out.append(dict(base, role='flip', cache=False))
    return out


def gen_case(seed, idx, small):
    rng = core.rng_for(seed, 'c11', idx)
    tree = gen_tree(rng, 25, 70) if not small else gen_tree(rng, 12, 30)
    triples = add_prefix_siblings(rng, tree, 3 if not small else 2)
    gen = gen_tree(rng, 5, 12, top='gen', max_depth=4)
    ext = gen_tree(rng, 5, 10, max_depth=3, links=False)
    linkbases = add_symlink_bases(rng, tree, ext, 3 if not small else 2)
    ctx = {
        'find_exclude': rng.choice(FIND_EXCLUDES),
        'src_entries': tree_entries(tree),
        'src_dirs': [[]] + [k.split('/') for k, v in tree.items() if v is None],
        'gen_entries': [e for e in tree_entries(gen) if len(e[0]) > 1],
        'ext_entries': tree_entries(ext),
        'triples': triples,
    }
    calls = []
    g = 0
    # directed groups: {A, directory nested in A, sibling "A<char below />..."}
    for t in triples:
        calls.extend(gen_group(rng, g, ctx, small,
                               preset=directed_patterns(rng, t)))
        g += 1
    # directed groups: the literal prefix of the pattern is / goes through a
    # symbolic link to a directory
    for li in linkbases:
        pats, wants = symlink_base_patterns(rng, ctx, li)
        calls.extend(gen_group(rng, g, ctx, small, preset=pats,
                               preset_wants=wants))
        g += 1
    for _ in range(2 if not small else 1):
        calls.extend(gen_dir_group(rng, g, ctx, small))
        g += 1
    budget = len(calls) + (rng.randint(28, 40) if not small else
                           rng.randint(4, 9))
    while len(calls) < budget:
        calls.extend(gen_group(rng, g, ctx, small))
        g += 1
    return {'idx': idx, 'small': small, 'tree': tree, 'gen': gen, 'ext': ext,
            # the source directory itself is handed to bfg9000 through a symlink
            'src_via_link': core.rng_for(seed, 'c11srclink', idx).random() < 0.15,
            'find_exclude': ctx['find_exclude'], 'calls': calls,
            # a directory name with ']' (walked directory or literal prefix of a
            # pattern) sends `make` into an endless regenerate loop (escaping in
            # the find depfile, not this property): no real archive then
            'real_dist': (rng.random() < (0.2 if not small else 0.3) and
                          not any(']' in k for t in (tree, gen, ext)
                                  for k, v in t.items() if v is None) and
                          not any(']' in literal_prefix(p['s'])
                                  for c in calls for p in c['patterns']))}


def literal_prefix(s):
    out = []
    for comp in s.split('/'):
        if refglob.is_glob_component(comp):
            break
        out.append(comp)
    return '/'.join(out)


SELFCHECK_TREE = {
    'README': 'x', 'src/a.c': 'x', 'src/b.h': 'x', 'src/sub/c.c': 'x',
    'src/sub/deep/d.c': 'x', 'src/.hid.c': 'x', 'src/old~/e.c': 'x',
    'src/x[1].c': 'x', 'src/windows/w.c': 'x', 'src/foo_windows.c': 'x',
    'src/empty': None,
    'vendor': ['symlink', 'src/sub'], 'src/lnk': ['symlink', 'sub'],
}
# (call, find_exclude, expected must, expected may-only), written by hand from
# doc/reference/builtins.md; directories end with '/'
SELFCHECK = [
    ({'patterns': ['src/*.c']}, [],
     ['src/a.c', 'src/x[1].c', 'src/foo_windows.c'], ['src/.hid.c']),
    ({'patterns': ['src/**/*.c']}, [],
     ['src/a.c', 'src/x[1].c', 'src/foo_windows.c', 'src/sub/c.c',
      'src/sub/deep/d.c', 'src/old~/e.c', 'src/windows/w.c'], ['src/.hid.c']),
    ({'patterns': ['src/**/']}, [],
     ['src/', 'src/sub/', 'src/sub/deep/', 'src/old~/', 'src/windows/',
      'src/empty/', 'src/lnk/'], []),      # the link is listed, not descended
    ({'patterns': ['src/**/*.c'], 'exclude': ['sub/']}, ['old~/'],
     ['src/a.c', 'src/x[1].c', 'src/foo_windows.c', 'src/windows/w.c'],
     ['src/.hid.c']),
    ({'patterns': ['src/**/*.c']}, ['*~'],      # a file glob: old~/ is a directory
     ['src/a.c', 'src/x[1].c', 'src/foo_windows.c', 'src/sub/c.c',
      'src/sub/deep/d.c', 'src/old~/e.c', 'src/windows/w.c'], ['src/.hid.c']),
    ({'patterns': ['src/**/d.c']}, [], ['src/sub/deep/d.c'], []),
    ({'patterns': ['src/**/sub/**/*.c']}, [],
     ['src/sub/c.c', 'src/sub/deep/d.c'], []),
    ({'patterns': ['src/x[[]1].c']}, [], ['src/x[1].c'], []),
    ({'patterns': ['src/x[1].c']}, [], [], []),
    ({'patterns': ['src/?.?']}, [], ['src/a.c', 'src/b.h'], []),
    ({'patterns': ['src/[!a].?']}, [], ['src/b.h'], []),
    ({'patterns': ['src/*'], 'type': 'd'}, [],
     ['src/sub/', 'src/old~/', 'src/windows/', 'src/empty/', 'src/lnk/'], []),
    # a symbolic link inside the literal prefix is ordinary path resolution
    ({'patterns': ['vendor/*.c']}, [], ['vendor/c.c'], []),
    ({'patterns': ['vendor/**/*.c']}, [], ['vendor/c.c', 'vendor/deep/d.c'], []),
    ({'patterns': ['src/lnk/deep/*.c']}, [], ['src/lnk/deep/d.c'], []),
    # ... unless another pattern's prefix lies above the link
    ({'patterns': ['src/*.h', 'src/lnk/*.c']}, [], ['src/b.h'], ['src/lnk/c.c']),
    ({'patterns': ['README*', 'src/lnk/*.c']}, [], ['README'], ['src/lnk/c.c']),
    ({'patterns': ['src/sub/*.c', 'src/lnk/*.c']}, [],
     ['src/sub/c.c', 'src/lnk/c.c'], []),
    ({'patterns': ['src/*', 'R*'], 'type': '*', 'exclude': ['*.c']}, [],
     ['src/sub/', 'src/old~/', 'src/windows/', 'src/empty/', 'src/lnk/',
      'src/b.h', 'README'], ['src/.hid.c']),      # upper bound: hidden-name readings mixed
    ({'patterns': ['src/**/*.c'], 'filter': 'platform'}, [],
     ['src/a.c', 'src/x[1].c', 'src/sub/c.c', 'src/sub/deep/d.c',
      'src/old~/e.c'], ['src/.hid.c', 'src/windows/w.c']),
    ({'patterns': ['**']}, [],
     ['README', 'src/a.c', 'src/b.h', 'src/x[1].c', 'src/foo_windows.c',
      'src/sub/c.c', 'src/sub/deep/d.c', 'src/old~/e.c', 'src/windows/w.c'],
     ['src/.hid.c']),
]


def run_selfcheck(case):
    """The reference against hand-written expectations (the oracle's own test)."""
    res = CaseResult()
    scratch = core.mkscratch('c11self')
    try:
        src = os.path.join(scratch, 'proj')
        proj.write_tree(src, SELFCHECK_TREE)
        rootdirs = {'srcdir': src, 'builddir': scratch, 'absolute': '/'}

        def names(keys):
            return sorted(k[1] + ('/' if k[2] else '') for k in keys)
        for call, fe, must, mayonly in SELFCHECK:
            c = dict(call, patterns=[{'s': s, 'root': 'srcdir'}
                                     for s in call['patterns']])
            sel = refglob.select(c, fe, rootdirs)
            res.ev('reference-selfchecks')
            if names(sel['must']) != sorted(must) or \
               names(sel['may'] - sel['must']) != sorted(mayonly):
                res.inconclusive = ('reference self-check failed for %r: must %r '
                                    'may-only %r' % (call, names(sel['must']),
                                                     names(sel['may'] - sel['must'])))
                return res
        c = {'patterns': [{'s': 'src/*.c', 'root': 'srcdir'}], 'extra': ['*.h']}
        sel = refglob.select(c, [], rootdirs)
        res.ev('reference-selfchecks')
        if sorted(k[1] for k in sel['must_dist']) != sorted(
                ['src/a.c', 'src/x[1].c', 'src/foo_windows.c', 'src/b.h']):
            res.inconclusive = 'reference self-check failed for must_dist'
        res.evaluations = len(SELFCHECK) + 1
        return res
    finally:
        core.rmtree(scratch)


def cases(tier, seed):
    nbig, nsmall = (60, 90) if tier == 'quick' else (900, 900)
    yield {'kind': 'selfcheck'}
    for i in range(nbig):
        yield gen_case(seed, i, False)
    for i in range(nsmall):
        yield gen_case(seed, 100000 + i, True)


# --------------------------------------------------------------------------
# the build script

SCRIPT_HEAD = r'''# generated by vf/props/c11.py
import json as _json
import os as _os

project('p', find_exclude=%(find_exclude)r)

_OUT = %(out)r
_RES = {'include': FindResult.include, 'not_now': FindResult.not_now,
        'exclude': FindResult.exclude,
        'exclude_recursive': FindResult.exclude_recursive}


def _mk(rules):
    def flt(p):
        base = p.basename()
        comps = [c for c in p.suffix.split('/') if c]
        for pred, arg, result in rules:
            if pred == 'base_startswith':
                ok = base.startswith(arg)
            elif pred == 'base_endswith':
                ok = base.endswith(arg)
            elif pred == 'base_contains':
                ok = arg in base
            elif pred == 'base_eq':
                ok = base == arg
            elif pred == 'isdir':
                ok = bool(p.directory) == bool(arg)
            elif pred == 'depth_ge':
                ok = len(comps) >= arg
            if ok:
                return _RES[result]
        return FindResult.include
    return flt


def _ser(x):
    p = x.path if hasattr(x, 'path') else x
    return [p.root.name, p.suffix, bool(p.directory), type(x).__name__]


def _calld(i, fn, name, kw):
    _os.environ['VF_CALL'] = str(i)
    try:
        r = fn(name, **kw)
        rec = {'i': i, 'ok': [_ser(x) for x in (r.files or [])]}
    except Exception as e:
        rec = {'i': i, 'error': type(e).__name__, 'msg': str(e)[:300]}
    _os.environ['VF_CALL'] = ''
    with open(_OUT, 'a') as f:
        f.write(_json.dumps(rec) + '\n')


def _call(i, fn, pats, kw):
    _os.environ['VF_CALL'] = str(i)
    try:
        r = fn(pats, **kw)
        rec = {'i': i, 'ok': [_ser(x) for x in r]}
    except Exception as e:
        rec = {'i': i, 'error': type(e).__name__, 'msg': str(e)[:300]}
    _os.environ['VF_CALL'] = ''
    with open(_OUT, 'a') as f:
        f.write(_json.dumps(rec) + '\n')


_F = {'platform': filter_by_platform}
'''


def resolve(s, extdir):
    return s.replace('@EXT@', extdir)


def render_pattern(p, extdir):
    s = resolve(p['s'], extdir)
    if not p.get('obj'):
        return repr(s)
    if p['root'] == 'builddir':
        return 'Path(%r, Root.builddir)' % s
    if p['root'] == 'absolute':
        return 'Path(%r)' % s if len(s) % 2 else 'Path(%r, Root.absolute)' % s
    return 'Path(%r, Root.srcdir)' % s


def write_script(path, case, out, extdir):
    lines = [SCRIPT_HEAD % {'find_exclude': list(case['find_exclude']),
                            'out': out}]
    seen = set()
    for c in case['calls']:
        if isinstance(c.get('filter'), dict) and c['fid'] not in seen:
            seen.add(c['fid'])
            lines.append('_F[%r] = _mk(_json.loads(%r))' %
                         (c['fid'], json.dumps(c['filter']['rules'])))
    lines.append('')
    for i, c in enumerate(case['calls']):
        pats = [render_pattern(p, extdir) for p in c['patterns']]
        parg = pats[0] if (c.get('scalar') and len(pats) == 1) \
            else '[' + ', '.join(pats) + ']'
        kw = []
        if c.get('type') is not None:
            kw.append("'type': %r" % c['type'])
        for k in ('extra', 'exclude'):
            if c.get(k) is not None:
                v = c[k]
                kw.append('%r: %r' % (k, v[0] if len(v) == 1 and i % 2 else list(v)))
        if c.get('filter') is not None:
            kw.append("'filter': _F[%r]" % c['fid'])
        if not c.get('dist', True) or i % 3 == 0:
            kw.append("'dist': %r" % bool(c.get('dist', True)))
        if not c.get('cache', True) or i % 3 == 1:
            kw.append("'cache': %r" % bool(c.get('cache', True)))
        if c['fn'] in DIR_FNS:
            inc = c['include']
            kw.insert(0, "'include': %r" % (inc[0] if c.get('scalar') and
                                            len(inc) == 1 else list(inc)))
            lines.append('_calld(%d, %s, %r, {%s})' % (i, c['fn'], c['dirname'],
                                                       ', '.join(kw)))
            continue
        lines.append('_call(%d, %s, %s, {%s})' % (i, c['fn'], parg, ', '.join(kw)))
    with open(path, 'w', encoding='utf-8') as f:
        f.write('\n'.join(lines) + '\n')


# --------------------------------------------------------------------------
# judging

# the type directory()/header_directory() search with is not documented: the
# selection is judged two-sidedly over both readings, the coded one is only
# used to tell which calls share a cache entry
DIR_FNS = {'directory': '*', 'header_directory': 'f'}


def call_type(c):
    return DIR_FNS.get(c['fn'], c.get('type'))


def eff_root(p):
    if p['s'].startswith(('/', '@EXT@')):
        return 'absolute'
    return p.get('root') or 'srcdir'


def cache_spec(c, find_exclude=()):
    """What FileFilter equality is made of, in the script's terms: every glob
    with its *effective* type (type=None infers it from the trailing slash, so
    type='f' and type=None can denote the same filter)."""
    t = call_type(c)

    def eff(g):
        return t if t is not None else ('d' if g.endswith('/') else 'f')
    return json.dumps([[(p['s'].rstrip('/') if t is not None else p['s'],
                         eff_root(p), eff(p['s'])) for p in c['patterns']],
                       [(g, eff(g)) for g in c.get('extra') or []],
                       [(g, eff(g)) for g in
                        list(find_exclude) + list(c.get('exclude') or [])],
                       c.get('fid')])


def ref_spec(c):
    return json.dumps([[(p['s'], eff_root(p)) for p in c['patterns']],
                       c.get('type'), c.get('extra') or [], c.get('exclude') or [],
                       c.get('filter'), bool(c.get('dist', True))])


def patclass(sel):
    runs = max([p.nruns for p in sel['patterns']] or [1])
    return ({1: 'single-run', 2: 'one-starstar'}.get(runs, 'multi-starstar'),
            'patterns=1' if len(sel['patterns']) == 1 else 'patterns>1')


def via_symlink(rootdir, comps):
    cur = rootdir
    for c in comps[:-1]:
        cur = os.path.join(cur, c)
        if os.path.islink(cur):
            return True
    return False


def parse_dist_rule(makefile):
    """Member list of the dist-gzip recipe in the generated Makefile."""
    with open(makefile, encoding='utf-8') as f:
        lines = f.read().split('\n')
    for i, ln in enumerate(lines):
        if ln.startswith('dist-gzip:'):
            recipe = lines[i + 1]
            break
    else:
        return None
    if not recipe.startswith('\t'):
        return None
    argv = shlex.split(recipe[1:].replace('$$', '$'))
    try:
        k = argv.index('-P')
    except ValueError:
        return None
    return [os.path.normpath(a) for a in argv[k + 2:-1]]


def key_of(rec):
    root, suffix, isdir = rec[0], rec[1], rec[2]
    return (root, suffix.strip('/'), bool(isdir))


def mini_case(case, group):
    return dict(case, calls=[c for c in case['calls'] if c['group'] == group])


def run_case(case):
    if case.get('kind') == 'selfcheck':
        return run_selfcheck(case)
    res = CaseResult()
    scratch = core.mkscratch('c11')
    try:
        return _run_case(case, res, scratch)
    finally:
        core.rmtree(scratch)


def _run_case(case, res, scratch):
    src = os.path.join(scratch, 'proj')
    bld = os.path.join(scratch, 'build')
    ext = os.path.join(scratch, 'ext')
    out = os.path.join(scratch, 'results.jsonl')
    monlog = os.path.join(scratch, 'monlog.jsonl')
    def place(tree):
        return {k: (['symlink', v[1].replace('@SRC@', src).replace('@EXT@', ext)]
                    if isinstance(v, list) else v) for k, v in tree.items()}
    proj.write_tree(src, place(case['tree']))
    proj.write_tree(bld, case['gen'])
    proj.write_tree(ext, case['ext'])
    write_script(os.path.join(src, 'build.bfg'), case, out, ext)
    env = core.base_env({'BFG9000_VERIF_MONLOG': monlog}, inject=True,
                        monitors='findmon')
    if case.get('src_via_link'):
        # the source directory is given through a symbolic link
        real_src, src = src, os.path.join(scratch, 'proj-link')
        os.symlink('proj', src)
        res.classes.add('srcdir:given-through-symlink')
        rc, output = proj.configure(src, bld, 'make', env=env, timeout=40,
                                    sub='configure-into')
    else:
        rc, output = proj.configure(src, bld, 'make', env=env, timeout=40)
    calls = case['calls']
    res.evaluations = len(calls)
    res.ev('configures')

    results = {}
    if os.path.exists(out):
        with open(out, encoding='utf-8') as f:
            for ln in f:
                if ln.strip():
                    d = json.loads(ln)
                    results[d['i']] = d
    if len(results) < len(calls):
        res.inconclusive = ('build script did not reach every call (rc=%d): %s'
                            % (rc, output[-600:]))
        return res

    mon = None
    if os.path.exists(monlog):
        with open(monlog) as f:
            for ln in f:
                if ln.strip():
                    d = json.loads(ln)
                    if d.get('monitor') == 'findmon' and \
                            (mon is None or d.get('evals')):
                        mon = d
    if mon is None or not mon.get('patched'):
        res.inconclusive = 'findmon did not report (rc=%d): %s' % (rc, output[-300:])
        return res
    evals = {int(k): v for k, v in mon['evals'].items() if k.isdigit()}
    pruned = {}
    for c, root, suffix, isdir, source in mon['pruned']:
        if c.isdigit() and isdir:
            pruned.setdefault(int(c), []).append((root, suffix.strip('/'), source))
    res.ev('match-evals', sum(evals.values()))
    res.ev('prune-verdicts', len(mon['pruned']))
    for k, v in mon['verdicts'].items():
        res.ev('verdict:' + k, v)

    for k, v in case['tree'].items():
        name = k.rsplit('/', 1)[-1]
        if isinstance(v, list):
            res.classes.add('tree:symlink')
        if any(ch in name for ch in '*?[]'):
            res.classes.add('tree:glob-metachar-name')
        if name.startswith('.'):
            res.classes.add('tree:hidden-name')
        if name.endswith(('~', '#')):
            res.classes.add('tree:backup-or-lock-name')
        if ' ' in name:
            res.classes.add('tree:space-in-name')
        if v is None and not any(o.startswith(k + '/') for o in case['tree']):
            res.classes.add('tree:empty-directory')
        if k.count('/') >= 4:
            res.classes.add('tree:depth-5')
    rootdirs = {'srcdir': src, 'builddir': bld, 'absolute': '/'}
    tdigest = core.digest([case['tree'], case['gen'], case['ext']])
    refs = {}

    def reference(c):
        k = ref_spec(c)
        if k not in refs:
            cc = dict(c, patterns=[dict(p, s=resolve(p['s'], ext),
                                        root=eff_root(p)) for p in c['patterns']])
            refs[k] = refglob.select(cc, case['find_exclude'], rootdirs)
        return refs[k]

    def show(c):
        return {'fn': c['fn'], 'directory': c.get('dirname'),
                'include': c.get('include'),
                'patterns': [p['s'] + ('' if eff_root(p) == 'srcdir' else
                                       ' @' + eff_root(p)) for p in c['patterns']],
                'type': c.get('type'), 'extra': c.get('extra'),
                'exclude': c.get('exclude'),
                'filter': c.get('filter'), 'dist': c.get('dist', True),
                'cache': c.get('cache', True), 'role': c['role']}

    first_with_spec = {}       # cache_spec -> index of the call that filled the cache
    gotsets = {}
    dist_demands = []          # (call index, key, why)
    sample_done = False

    for i, c in enumerate(calls):
        r = results[i]
        res.ev('calls')
        res.classes.add('fn:' + c['fn'])
        res.classes.add('type:%s' % c.get('type'))
        res.classes.add('role:' + c['role'].split(':')[0])
        for p in c['patterns']:
            res.classes.add('root:' + eff_root(p))
        if c.get('filter'):
            res.classes.add('filter:' + ('platform' if c['filter'] == 'platform'
                                         else 'lambda'))
        if c.get('extra'):
            res.classes.add('extra')
        if c.get('exclude'):
            res.classes.add('exclude')
        wit_base = {'call': show(c), 'find_exclude': case['find_exclude'],
                    '__case__': mini_case(case, c['group'])}
        if c['fn'] in DIR_FNS:
            # undocumented search type: upper bound = union over the readings
            # '*' and 'f', distribution demands = what both readings demand,
            # no lower bound on the selection
            sa = reference(dict(c, type='*'))
            sb = reference(dict(c, type='f'))
            sel = {'must': set(), 'may': sa['may'] | sb['may'],
                   'universe': sa['universe'] | sb['universe'],
                   'must_dist': sa['must_dist'] & sb['must_dist'],
                   'info': {**sb['info'], **sa['info']},
                   'patterns': sa['patterns']}
            res.ev('directory-calls-judged')
            res.classes.add('fn:' + c['fn'] + (':cache=False' if not c['cache']
                                               else ''))
        else:
            sel = reference(c)
        pc = patclass(sel)
        res.classes.add(pc[0])
        res.classes.add(pc[1])
        if 'error' in r:
            res.violate(('raised', r['error']) + pc,
                        dict(wit_base, error=r['error'], message=r['msg']))
            continue
        res.ev('calls-judged')
        got_list = [key_of(x) for x in r['ok']]
        got = set(got_list)
        gotsets[i] = got
        spec = cache_spec(c, case['find_exclude'])
        served_from_cache = c.get('cache', True) and spec in first_with_spec
        source_call = first_with_spec.get(spec, i) if served_from_cache else i
        if c.get('cache', True) and spec not in first_with_spec:
            first_with_spec[spec] = i
        foreign_hit = (not served_from_cache) and evals.get(i, 0) == 0
        if served_from_cache:
            res.ev('served-from-cache')
            if evals.get(i, 0):
                res.ev('cache-miss-on-equal-filter')

        res.ev('entries-compared', len(sel['universe']))
        res.ev('selected-must', len(sel['must']))
        res.ev('selected-may-only', len(sel['may'] - sel['must']))
        res.ev('got-entries', len(got))
        res.key([tdigest, ref_spec(c), case['find_exclude']],
                bool(sel['must']) and len(sel['must']) < len(sel['universe']))

        # -- the result LIST names every entry once
        res.ev('lists-checked-for-duplicates')
        if len(got_list) != len(got):
            dup = sorted(k for k in got if got_list.count(k) > 1)
            bases = sorted(set((q.root, '/'.join(q.base)) for q in sel['patterns']))
            nested = [b for b in bases if any(
                a[0] == b[0] and a != b and
                (a[1] == '' or b[1].startswith(a[1] + '/')) for a in bases)]
            below_nested = any(k[0] == b[0] and (k[1] == b[1] or
                                                 k[1].startswith(b[1] + '/'))
                               for k in dup for b in nested)
            res.violate(('duplicate-entry', 'below-a-base-nested-in-another-base'
                         if below_nested else 'other'),
                        dict(wit_base, duplicates=[k[1] for k in dup][:5],
                             n_duplicates=len(dup),
                             pattern_bases=[b[1] for b in bases],
                             nested_bases=[b[1] for b in nested],
                             returned=[k[1] for k in got_list][:20]))

        # -- every returned entry exists and is of the reported kind
        for x in r['ok']:
            k = key_of(x)
            p = os.path.join(rootdirs[k[0]], k[1])
            res.ev('exists-checked')
            if not os.path.lexists(p) and any(
                    k[0] == q.root and k[1] == '/'.join(q.base)
                    for q in sel['patterns']):
                # `nonexistent/**/`: outside the quantifier (the literal prefix
                # does not exist)
                res.exclude('literal-prefix-does-not-exist')
            elif not os.path.lexists(p):
                res.violate(('entry', 'does-not-exist') + pc,
                            dict(wit_base, entry=k[1], root=k[0]))
            elif os.path.isdir(p) != k[2]:
                is_prefix = any(k[0] == q.root and k[1] == '/'.join(q.base)
                                for q in sel['patterns'])
                res.violate(('entry', 'literal-prefix-is-a-file-reported-as-directory')
                            if is_prefix and k[2] else
                            ('entry', 'wrong-kind') + pc,
                            dict(wit_base, entry=k[1], root=k[0], reported_dir=k[2]))
            if c['fn'] == 'find_files':
                res.ev('object-kind-checked')
                if (x[3] in ('Directory', 'HeaderDirectory')) != k[2]:
                    res.violate(('entry', 'wrong-object-type') + pc,
                                dict(wit_base, entry=k[1], object=x[3]))

        # -- must <= got
        def pruned_by(key):
            for root, suffix, source in pruned.get(source_call, ()):
                if root == key[0] and suffix != '' and \
                        (key[1] == suffix or key[1].startswith(suffix + '/')):
                    return source, suffix
            return None

        missing = sorted(sel['must'] - got)
        if missing:
            key = missing[0]
            pb = pruned_by(key)
            rec0 = sel['info'][key]
            if foreign_hit:
                cause = 'cache-key'
            elif pb:
                cause = 'pruned:' + pb[0]
            elif any(m['inc_lo'] and m['base_link'] for m in rec0['pat'].values()):
                cause = 'literal-prefix-goes-through-symlink'
            elif os.path.islink(rootdirs[key[0]]):
                cause = 'root-directory-given-through-symlink'
            else:
                cause = 'matcher'
            res.violate(('cache', 'foreign-entry-served') if foreign_hit else
                        ('missing', cause) + (() if 'symlink' in cause else pc),
                        dict(wit_base, entry=key[1], root=key[0], entry_is_dir=key[2],
                             pruned_directory=pb[1] if pb else None,
                             n_missing=len(missing),
                             missing=[k[1] for k in missing[:8]],
                             got=sorted(k[1] for k in got)[:20]))
        # -- got <= may
        unexpected = []
        for key in sorted(got - sel['may']):
            if key not in sel['universe']:
                comps = key[1].split('/') if key[1] else []
                if via_symlink(rootdirs[key[0]], comps):
                    res.exclude('result-reached-through-symlinked-directory')
                    continue
                p = os.path.join(rootdirs[key[0]], key[1])
                if not os.path.lexists(p) or os.path.isdir(p) != key[2]:
                    continue            # reported above
                unexpected.append((key, 'outside-pattern-bases'))
                continue
            rec = sel['info'][key]
            hits = [pi for pi, m in rec['pat'].items() if m['inc_hi']]
            if foreign_hit:
                cause = 'cache-key'
            elif not hits:
                cause = 'matcher'
            elif all(rec['ex_lo'][pi] for pi in hits):
                why, depth = rec['ex_lo'][hits[0]]
                cause = 'not-excluded:%s:%s' % (
                    why, 'self' if depth == len(rec['full']) else 'ancestor')
            else:
                cause = 'filter-ignored:' + '+'.join(rec['filter'])
            unexpected.append((key, cause))
        if unexpected:
            key, cause = unexpected[0]
            res.violate(('cache', 'foreign-entry-served') if foreign_hit else
                        ('unexpected', cause) + (pc if cause in (
                            'matcher', 'outside-pattern-bases') else ()),
                        dict(wit_base, entry=key[1], root=key[0], entry_is_dir=key[2],
                             n_unexpected=len(unexpected),
                             unexpected=[k[1] for k, _ in unexpected[:8]],
                             must=sorted(k[1] for k in sel['must'])[:20]))

        # -- no selected entry inside a pruned directory (independent of `got`)
        for root, suffix, source in pruned.get(i, ()):
            res.ev('pruned-dirs-checked')
            inside = [k for k in sel['must'] if k[0] == root and
                      (k[1] == suffix or k[1].startswith(suffix + '/'))
                      and suffix != '']
            if inside and not missing:
                res.violate(('pruned-but-selected', source) + pc,
                            dict(wit_base, pruned_directory=suffix,
                                 entry=inside[0][1]))
                break

        # -- source distribution demands
        if c.get('dist', True):
            for key in got:
                if key[0] == 'srcdir' and key[1]:
                    dist_demands.append((i, key, 'found', served_from_cache, foreign_hit))
            for key in sel['must_dist'] - got:
                why = sel['info'][key].get('dist_why')
                if why == 'found':
                    continue          # already reported as missing
                dist_demands.append((i, key, why, served_from_cache, foreign_hit))

        if not sample_done and sel['must'] and c['role'] == 'base':
            sample_done = True
            res.sample = {'call': show(c), 'find_exclude': case['find_exclude'],
                          'entries_below_bases': len(sel['universe']),
                          'reference_must': sorted(k[1] + ('/' if k[2] else '')
                                                   for k in sel['must'])[:12],
                          'reference_may_only': sorted(
                              k[1] for k in sel['may'] - sel['must'])[:6],
                          'returned': sorted(k[1] + ('/' if k[2] else '')
                                             for k in got)[:12],
                          'match_evaluations': evals.get(i, 0),
                          'pruned': [s for _, s, _ in pruned.get(i, ())][:6]}

    # -- repeated / cache-flipped calls return the same set
    groups = {}
    for i, c in enumerate(calls):
        groups.setdefault(c['group'], {}).setdefault(c['role'], i)
    for g, roles in groups.items():
        b = roles.get('base')
        if b is None or b not in gotsets:
            continue
        for role, evname, mech in (('repeat', 'repeat-compared', 'repeat-differs'),
                                   ('flip', 'cacheflip-compared',
                                    'cache-flip-differs')):
            j = roles.get(role)
            if j is None or j not in gotsets:
                continue
            res.ev(evname)
            if gotsets[j] != gotsets[b]:
                diff = sorted(gotsets[j] ^ gotsets[b])
                res.violate(('cache', mech) + patclass(reference(calls[b])),
                            {'call': show(calls[b]), 'other': show(calls[j]),
                             'difference': [k[1] for k in diff[:8]],
                             'find_exclude': case['find_exclude'],
                             '__case__': mini_case(case, g)})
            elif results[j]['ok'] != results[b]['ok'] and \
                    calls[j]['fn'] == calls[b]['fn']:
                res.ev('order-differs-on-repeat')
        for role, j in roles.items():
            if role.startswith('variant') and j in gotsets:
                res.ev('variant-compared')

    # -- source distribution
    distlist = None
    if rc == 0 and os.path.exists(os.path.join(bld, 'Makefile')):
        distlist = parse_dist_rule(os.path.join(bld, 'Makefile'))
    if distlist is None:
        res.exclude('dist-list-unavailable')
        res.notes.append('no dist rule (configure rc=%d): %s' % (rc, output[-300:]))
        return res
    res.ev('makefile-dist-lists')
    distset = set(distlist)
    source = 'makefile-dist-rule'
    if case.get('real_dist'):
        # -r: the find depfile lists directories as targets, which GNU make's
        # built-in rules would otherwise try to "compile" (dir gen/abc + file
        # gen/abc.c); not this property's business
        try:
            mrc, mout = proj.build(bld, 'make', ['dist-gzip'], env=core.base_env(),
                                   extra=['-r'], timeout=40)
        except core.Timeout:
            mrc, mout = -1, 'watchdog'
        tarpath = os.path.join(bld, 'p.tar.gz')
        if mrc == -1:
            res.exclude('real-make-dist-watchdog')
        elif mrc != 0 or not os.path.exists(tarpath):
            res.exclude('real-make-dist-failed')
            res.notes.append('make dist-gzip failed: ' + mout[-300:])
        else:
            with tarfile.open(tarpath) as tf:
                members = [m.name for m in tf.getmembers()]
            tarset = set(os.path.normpath(m[2:]) for m in members
                         if m.startswith('p/'))
            res.ev('real-dist-runs')
            res.classes.add('dist:real-archive')
            if tarset - {'.'} != distset - {'.'}:
                res.ev('archive-differs-from-dist-rule')
                res.notes.append('archive members differ from dist rule: %r' %
                                 sorted(tarset ^ distset)[:5])
            distset = tarset
            source = 'archive-members'
    reported = set()
    for i, key, why, cached, foreign in dist_demands:
        res.ev('dist-entries-checked')
        res.ev('dist-checked:' + why)
        if os.path.normpath(key[1]) in distset:
            continue
        c = calls[i]
        first = first_with_spec.get(cache_spec(c, case['find_exclude']))
        if foreign:
            how = 'served-from-foreign-cache-entry'
        elif not cached and not c.get('cache', True):
            how = 'computed-without-cache'
        elif not cached:
            how = 'computed'
        elif first is not None and not calls[first].get('dist', True):
            how = 'served-from-cache-filled-by-dist-false-call'
        else:
            how = 'served-from-cache'
        mech = ('dist', 'found-not-distributed' if why == 'found' else
                'extra-or-not_now-not-distributed', how)
        if (mech, c['group']) in reported:
            continue
        reported.add((mech, c['group']))
        res.violate(mech, {
            'call': show(c), 'entry': key[1], 'entry_is_dir': key[2],
            'diverted_by': why, 'dist_source': source,
            'find_exclude': case['find_exclude'],
            'cache_filled_by': show(calls[first]) if cached and first is not None
            else None,
            'cache_filled_with_dist': (bool(calls[first].get('dist', True))
                                       if cached and first is not None else None),
            '__case__': mini_case(case, c['group'])})
    return res
