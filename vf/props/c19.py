"""C19 - Scripts are isolated and relative: submodules, options, user arguments.

Workload (vf/gen/c19gen.py): random trees of build.bfg / options.bfg scripts
(depth <= 4, `../` references, scripts included twice from different parents or
twice by the same parent, early `raise SystemExit(0)` and exceptions caught by
the caller).  Every script assigns random global names in a dozen syntactic
forms (also names that shadow builtins), probes every name assigned by any
script at its start and end (`try: x / except NameError`), exports random
values / files / targets / closures, declares targets with relative inputs and
outputs, and appends what it saw to a JSON-lines file.  options.bfg scripts
(with option submodules) declare random project arguments.

Subject: real `bfg9000 configure|configure-into|regenerate` processes with the
stub tool chain and the Make back end, then a real `make`.

Oracles (all from the generator's own model, see Sim in c19gen): the exact
sequence of log records each context must produce (probe results, submodule()
return values), where each target's inputs/outputs must be (target records,
compile_commands.json, the argv/cwd of every executed stub step, files on
disk), the namespace each command line must yield (vf/ref/c19args.py), equality
of that namespace across plain/--x- spellings, across every script of a run and
across regenerations (same cwd; other cwd + perturbed environment; a
regeneration triggered by make).
"""
import json
import os
import posixpath
import re

from .. import core, proj
from ..core import CaseResult
from ..gen import c19gen
from ..ref import c19args

LEVEL = 'exploration'
MODE = 'thread'
RULE = ('tree case = random directory tree (2-7 dirs, depth<=4) with build.bfg in ~85% '
        'and options.bfg in ~40% of the directories; call graph = nearest scripted '
        'ancestor + 0-2 extra edges written with ../ (a script and its whole subtree '
        'then run twice; sometimes the same parent calls twice); path spellings x, ./x, '
        'x/, x/../x, x/./y; ~10% of the scripts end in raise SystemExit(0) or raise an '
        'exception their caller catches; 1-4 assigned names per script from a pool of '
        '20 (+builtin-shadowing names) in 12 syntactic forms; 0-3 export() calls (plain '
        'values, source files, targets, closures); 0-4 targets of 14 kinds '
        '(object_file named/default/directory=, executable, find_files executable, '
        'static/shared library, copy_file named/default, build_step, command) with '
        'names, inputs, include directories and extra_deps in the current, a nested, '
        'the parent (../, ../../) or a sibling directory; 5 project arguments; one '
        'accepted command line spelled plain and --x-; launched as configure <abs>, '
        'configure <rel>, configure <srcdir> from the build dir, configure-into or 9k. '
        'args case = small tree with 8 arguments (store/int/choices/nargs/const/'
        'required/dest/aliases, store_true/false/const, append, count, enable, with) '
        'and 4 command lines x 3 spellings (plain, --x-, mixed), incl. lines the model '
        'rejects. distinct = digest of the script texts (tree) / (declarations, command '
        'line) (args); a tree is non-trivial when it has depth>=2, a ../ submodule '
        'reference or a script executed more than once; a command line when it names at '
        'least one project argument')
ASSUMPTIONS = [
    'the stub tool chain (vcc/vc++/var/vrec) records argv and cwd faithfully',
    'make is run with DEPFIXER=: (the dependency fixer is not part of this property) and '
    '-k (a target whose already reported dependency is missing must not hide the others)',
    'directory names have >= 3 characters and no make/sh metacharacters (two-character '
    'components are rewritten by within_directory: C05; metacharacters: C01/C04)',
    'project argument names never equal a built-in bfg9000 option (the documented reason '
    'for --x-) and never start with x- (rejected as reserved by design)',
    'option values that start with "-" are always attached with "=" and project arguments '
    'that take separate value tokens are placed after the directory argument (argparse '
    'cannot tell otherwise)',
    'the default output name of a step whose input lives in another directory and the '
    'layout below <name>.int / directory= are naming policy: only "under the matching '
    'build directory" is demanded there',
]
EXTRA_COVERAGE = {}

BFG = os.path.join(core.VENV_BIN, 'bfg9000')
# steps run by real tools (cp, gzip): no stub record of what they read
NOT_RECORDED = ('copy', 'copy_default', 'copy_files', 'man', 'man_plain')
NINEK = os.path.join(core.VENV_BIN, '9k')


def floors(tier):
    if tier == 'quick':
        return {'submodule:identity-checked': 150, 'submodule:kept-checked': 150,
                'path:extra-dep': 15, 'path:include': 50,
                'run:configure': 150, 'run:regenerate': 60, 'run:make': 20,
                'probe:foreign': 5000, 'probe:own': 300, 'probe:builtin': 300,
                'submodule:return-checked': 150, 'script:executions': 600,
                'path:target-record': 100, 'path:compdb-entry': 100,
                'path:exec-step': 100, 'path:disk-output': 60,
                'args:spelling-pair': 120, 'args:model': 90,
                'args:regen-compare': 80, 'pcsub:include-dir-checked': 20,
                'cwd:checked-in-submodule': 2000,
                'distinct_nontrivial': 90}
    return {'submodule:identity-checked': 3000, 'submodule:kept-checked': 3000,
            'path:extra-dep': 300, 'path:include': 1000,
            'run:configure': 3000, 'run:regenerate': 1500, 'run:make': 350,
            'probe:foreign': 100000, 'probe:own': 6000, 'probe:builtin': 6000,
            'submodule:return-checked': 3000, 'script:executions': 12000,
            'path:target-record': 2500, 'path:compdb-entry': 2500,
            'path:exec-step': 2500, 'path:disk-output': 1500,
            'args:spelling-pair': 3000, 'args:model': 2500,
            'args:regen-compare': 2000, 'distinct_nontrivial': 2000}


def cases(tier, seed):
    for c in gen_pcsub_cases():
        yield c
    ntree, nargs = (30, 25) if tier == 'quick' else (600, 750)
    # interleave so that a --limit run sees both kinds
    per = max(1, ntree // max(1, nargs))
    ti = ai = 0
    while ti < ntree or ai < nargs:
        if ai < nargs:
            rng = core.rng_for(seed, 'c19', 'args', ai)
            yield c19gen.gen_args_case(rng, 'args-%d-%d' % (seed, ai))
            ai += 1
        for _ in range(per):
            if ti < ntree:
                rng = core.rng_for(seed, 'c19', 'tree', ti)
                yield c19gen.gen_tree_case(rng, 'tree-%d-%d' % (seed, ti))
                ti += 1


# ---------------------------------------------------------------------------
# running the subject

def launch(kind, sub_args, src, bld, root, user, before):
    """-> (argv, cwd) for a configure of src into bld."""
    flags = ['--backend', 'make', '--no-resolve-packages']
    pre = list(user) if before else []
    post = [] if before else list(user)
    if kind == 'src-abs':
        return [BFG, 'configure'] + pre + [bld] + flags + post, src
    if kind == 'src-rel':
        return ([BFG, 'configure'] + pre + [os.path.relpath(bld, src)] + flags +
                post, src)
    if kind == 'bld-cwd':
        os.makedirs(bld, exist_ok=True)
        return ([BFG, 'configure'] + pre + [os.path.relpath(src, bld)] + flags +
                post, bld)
    if kind == '9k-rel':
        return ([NINEK] + pre + [os.path.relpath(bld, src)] + flags + post, src)
    if kind == 'into-rel':
        return ([BFG, 'configure-into'] + pre +
                [os.path.relpath(src, root), os.path.relpath(bld, root)] +
                flags + post, root)
    raise ValueError(kind)


def read_records(path):
    out = []
    if not os.path.exists(path):
        return out
    with open(path) as f:
        for line in f:
            line = line.strip()
            if line:
                out.append(json.loads(line))
    return out


def error_class(out):
    """A stable class for a failed run: usage error / exception type (+ the
    bfg9000 builtin that raised, when a --debug traceback is available)."""
    if 'Traceback' not in out and re.search(r'(?m)^(usage:|\S+: error:)', out):
        m = re.search(r'error: (argument|unrecognized arguments|the following)',
                      out)
        return 'usage:' + (m.group(1) if m else 'other')
    exc = None
    m = re.search(r'(?m)^error: (?:[^:\n]*:\d+: )?(?:\w+\.)*(\w+(?:Error|Exception|Exit)): ',
                  out)
    if m:
        exc = m.group(1)
    else:
        for m in re.finditer(r'(?m)^(?:\w+\.)*(\w+(?:Error|Exception|Exit))\b', out):
            exc = m.group(1)
    fn = None
    # the innermost bfg9000 frame that is not the generic path class
    for m in re.finditer(r'File "[^"]*/bfg9000/([\w/]+)\.py", line \d+, in (\w+)',
                         out):
        if m.group(1).startswith('platforms/') or \
           m.group(1) in ('path', 'objutils', 'iterutils'):
            continue
        fn = m.group(1).split('/')[-1] + '.' + m.group(2)
    if exc:
        return exc + (':' + fn if fn else '')
    m = re.search(r'(?m)^error: [^:]*:\d+: (.{0,40})', out) or \
        re.search(r'(?m)^error: (.{0,40})', out)
    return 'error:' + (re.sub(r"[^A-Za-z' ]+", '#', m.group(1)).strip()
                       if m else 'unknown')


class Ctx:
    """Per-case bookkeeping: de-duplicated violations, counters."""

    def __init__(self, case, res):
        self.case = case
        self.res = res
        self.seen = set()

    def violate(self, mech, key, witness):
        k = (tuple(mech), json.dumps(key, sort_keys=True, default=str))
        if k in self.seen:
            return
        self.seen.add(k)
        w = dict(witness)
        w.setdefault('case_id', self.case['id'])
        w.setdefault('case_kind', self.case['kind'])
        self.res.violate(mech, w)


# ---------------------------------------------------------------------------
# oracle 1: the log a context must produce

def relation(seer, owner):
    """How the script that owns a marker relates to the one that saw it."""
    sctx, sdir = seer.split(':', 1)
    octx, odir = owner.split(':', 1)
    if sctx != octx:
        return '%s-to-%s' % (octx, sctx)
    if sdir == odir:
        return 'same-script'
    if odir == '' or sdir.startswith(odir + '/'):
        return 'ancestor-to-descendant'
    if sdir == '' or odir.startswith(sdir + '/'):
        return 'descendant-to-ancestor'
    return 'unrelated-directories'


def marker_owner(m):
    # 'M:<ctx>:<dir>:<name>'
    parts = m.split(':')
    return parts[1] + ':' + ':'.join(parts[2:-1])


def enc_match(exp, got):
    if isinstance(exp, list) and exp and exp[0] == 'file-under':
        if not (isinstance(got, list) and len(got) == 3 and got[0] == 'file'
                and got[1] == exp[1]):
            return False
        q = got[2]
        under = exp[2]
        ok_dir = (under == '' or q.startswith(under + '/'))
        return ok_dir and posixpath.basename(q) == exp[3]
    if isinstance(exp, dict) and isinstance(got, dict) and \
       '__dict__' in exp and '__dict__' in got:
        a, b = exp['__dict__'], got['__dict__']
        return (len(a) == len(b) and
                all(x[0] == y[0] and enc_match(x[1], y[1])
                    for x, y in zip(a, b)))
    if isinstance(exp, list) and isinstance(got, list):
        if exp and exp[0] in ('file', 'fn', 'obj', 'inst') and exp == got:
            return True
        return (len(exp) == len(got) and
                all(enc_match(x, y) for x, y in zip(exp, got)))
    if isinstance(exp, float) or isinstance(got, float):
        return exp == got
    return type(exp) is type(got) and exp == got


def how_misplaced(out, got_path, script_dir=None):
    """Classify a wrong path: did it resolve as if written in the root script?
    out: the modelled output ({'exact', 'asroot'} or {'under', ...})."""
    if got_path is None:
        return 'no-path'
    asroot = out.get('asroot')
    if asroot is not None and asroot != out.get('exact') and \
       posixpath.normpath(asroot) == posixpath.normpath(got_path):
        return 'resolved-against-root'
    if script_dir and out.get('exact') is not None and \
       posixpath.normpath(got_path) == join_norm(script_dir, out['exact']):
        return 'script-directory-applied-twice'
    return 'elsewhere'


def join_norm(a, b):
    return posixpath.normpath(posixpath.join(a, b))


def culprit_action(decls, occs, output):
    """Which declaration does a usage error talk about?"""
    m = re.search(r'error: (?:argument |unrecognized arguments: )?(--[^\s:,/=]+)',
                  output or '')
    if m:
        name = m.group(1)[2:]
        if name.startswith('x-'):
            name = name[2:]
        for d in decls:
            for n in d['names']:
                forms = [n]
                if d['action'] in c19args.TOGGLE:
                    forms = [p + n for p in c19args.TOGGLE[d['action']]]
                if name in forms:
                    return d['action']
    return first_action(decls, occs)


def check_log(cx, run, ctxname, expected, observed, targets):
    """Compare the records one context wrote with the modelled sequence."""
    res = cx.res
    tix = {(t['id'], t['inst']): t for t in targets}
    n = min(len(expected), len(observed))
    for i in range(n):
        e, o = expected[i], observed[i]
        skel_e = (e['t'], e['me'], e['inst'], e.get('k'), e.get('id'))
        skel_o = (o.get('t'), o.get('me'), o.get('inst'), o.get('k'),
                  o.get('id'))
        if skel_e != skel_o:
            what = 'wrong-script' if e['t'] == 'start' and o.get('t') == 'start' \
                else 'after-exit-ran' if o.get('t') == 'after-exit' \
                else 'sequence'
            cx.violate(('log', what, ctxname), [run],
                       {'run': run, 'index': i, 'expected': skel_e,
                        'observed': skel_o})
            return False
        t = e['t']
        # the process's own working directory is the script's directory whenever the script
        # is the one running (at its start, and again after every submodule it called)
        want_cwd = e['me'].split(':', 1)[1] or '.'
        res.ev('cwd:checked')
        if want_cwd != '.':
            res.ev('cwd:checked-in-submodule')
        if o.get('cwd') != want_cwd:
            cx.violate(('cwd', 'not-the-scripts-directory', ctxname),
                       [e['me'], t],
                       {'run': run, 'script': e['me'], 'record': t, 'inst': e['inst'],
                        'expected_cwd': want_cwd, 'got_cwd': o.get('cwd')})
        if t in ('start', 'end'):
            if t == 'start':
                res.ev('script:executions')
            for name, want in e['probes'].items():
                got = o['probes'].get(name)
                if want == 'unset':
                    res.ev('probe:foreign')
                    ok = got == 'unset'
                elif want == 'builtin':
                    res.ev('probe:builtin')
                    ok = isinstance(got, str) and got.startswith('other:')
                else:
                    res.ev('probe:own')
                    ok = got == want
                if ok:
                    continue
                wit = {'run': run, 'script': e['me'], 'inst': e['inst'],
                       'phase': t, 'name': name, 'expected': want, 'got': got}
                if isinstance(got, str) and got.startswith('M:'):
                    owner = marker_owner(got)
                    rel = relation(e['me'], owner)
                    wit['owner'] = owner
                    kind = {'unset': 'foreign-name-visible',
                            'builtin': 'builtin-shadowed-by-other-script'}.get(
                                want, 'own-name-overwritten')
                    cx.violate(('scope', kind, rel),
                               [e['me'], name, t], wit)
                elif want not in ('unset', 'builtin'):
                    cx.violate(('scope', 'own-name-lost', t),
                               [e['me'], name, t], wit)
                else:
                    cx.violate(('scope', 'foreign-name-visible', 'unmarked'),
                               [e['me'], name, t], wit)
        elif t == 'sub':
            res.ev('submodule:return-checked')
            if 'raised' in e:
                res.ev('submodule:raise-caught')
                if o.get('raised') != e['raised']:
                    cx.violate(('submodule', 'exception-not-propagated'),
                               [e['me'], e['k']],
                               {'run': run, 'script': e['me'], 'path': e['path'],
                                'expected': e['raised'], 'got': o})
                continue
            if 'got' not in o:
                cx.violate(('submodule', 'raised-unexpectedly'),
                           [e['me'], e['k']],
                           {'run': run, 'script': e['me'], 'path': e['path'],
                            'got': o})
                continue
            res.ev('submodule:identity-checked')
            if o.get('fresh') is not True:
                cx.violate(('exports', 'same-object-returned-twice', ctxname),
                           [e['me'], e['k'], 'fresh'],
                           {'run': run, 'script': e['me'], 'inst': e['inst'],
                            'path': e['path'], 'got': o['got']})
            if not enc_match(e['got'], o['got']):
                ek = [k for k, _ in e['got']['__dict__']]
                ok_ = [k for k, _ in o['got'].get('__dict__', [])] \
                    if isinstance(o['got'], dict) else None
                if ok_ is None:
                    detail = 'not-a-dict'
                elif set(ok_) - set(ek):
                    # keys some caller put into an earlier result?
                    detail = ('caller-mutation-visible'
                              if all(k.startswith('mut_')
                                     for k in set(ok_) - set(ek))
                              else 'extra-keys')
                elif set(ek) - set(ok_):
                    detail = 'missing-keys'
                else:
                    detail = 'wrong-value'
                cx.violate(('exports', detail, ctxname), [e['me'], e['k']],
                           {'run': run, 'script': e['me'], 'inst': e['inst'],
                            'path': e['path'], 'expected': e['got'],
                            'got': o['got']})
        elif t == 'target':
            res.ev('path:target-record')
            if not enc_match(e['paths'], o.get('paths')):
                ti = tix[(e['id'], e['inst'])]
                if ti['kind'] in ('step', 'copy_files') and \
                   len(ti['outs']) > 1 and \
                   isinstance(o.get('paths'), list) and \
                   len(o['paths']) == len(ti['outs']):
                    exps, gots = e['paths'], o['paths']
                else:
                    exps, gots = [e['paths']], [o.get('paths')]
                for j, (x, g) in enumerate(zip(exps, gots)):
                    if enc_match(x, g):
                        continue
                    gp = g[2] if isinstance(g, list) and len(g) == 3 else None
                    wr = (ti.get('written') or [None])[min(
                        j, len(ti.get('written') or [None]) - 1)]
                    how = how_misplaced(ti['outs'][min(j, len(ti['outs']) - 1)],
                                        gp, ti['dir'])
                    cx.violate(('path', 'output', ti['kind'], how),
                               [ti['id'], ti['inst'], j],
                               {'run': run, 'script': e['me'],
                                'context': 'target-object', 'kind': ti['kind'],
                                'script_dir': ti['dir'], 'written': wr,
                                'declaration': ti.get('code'),
                                'expected': x, 'got': g})
        elif t == 'kept':
            # what the caller holds at its end: each result still has what the
            # callee exported plus what this caller itself put there
            for j, (x, g) in enumerate(zip(e['got'], o.get('got') or [])):
                res.ev('submodule:kept-checked')
                if not enc_match(x, g):
                    cx.violate(('exports', 'earlier-result-changed', ctxname),
                               [e['me'], e['inst'], j],
                               {'run': run, 'script': e['me'], 'inst': e['inst'],
                                'call_index': j, 'expected': x, 'got': g})
            if len(e['got']) != len(o.get('got') or []):
                cx.violate(('log', 'sequence', ctxname), [run, 'kept'],
                           {'run': run, 'script': e['me'],
                            'expected': len(e['got']),
                            'observed': len(o.get('got') or [])})
        elif t == 'argv':
            pass
    if len(expected) != len(observed):
        extra = observed[n] if len(observed) > n else None
        what = 'after-exit-ran' if extra and extra.get('t') == 'after-exit' or \
            (extra and any(r.get('t') == 'after-exit' for r in observed[n:])) \
            else 'truncated' if len(observed) < len(expected) else 'extra-records'
        cx.violate(('log', what, ctxname), [run],
                   {'run': run, 'expected_records': len(expected),
                    'observed_records': len(observed),
                    'first_extra': extra,
                    'first_missing': expected[n] if len(expected) > n else None})
        return False
    return True


def check_run_log(cx, run, records, want_ns=None):
    """Checks one run's log.  -> the namespace all scripts agreed on (or None)."""
    exp = cx.case['expect']
    obs_o = [r for r in records if r.get('me', '').startswith('options:')]
    obs_b = [r for r in records if r.get('me', '').startswith('build:')]
    check_log(cx, run, 'options', exp['options_log'], obs_o, exp['targets'])
    check_log(cx, run, 'build', exp['build_log'], obs_b, exp['targets'])
    nss = [(r['me'], r['ns']) for r in obs_b if r.get('t') == 'argv']
    if not nss:
        return None
    first = nss[0][1]
    for me, ns in nss[1:]:
        cx.res.ev('args:script-agree')
        if ns != first:
            cx.violate(('args', 'scripts-disagree'), [run],
                       {'run': run, 'script_a': nss[0][0], 'ns_a': first,
                        'script_b': me, 'ns_b': ns})
    return first


def ns_decode(ns):
    """{'__dict__': [[k, v]..]} -> plain dict (values stay encoded)."""
    if isinstance(ns, dict) and '__dict__' in ns:
        return {k: v for k, v in ns['__dict__']}
    return ns


# ---------------------------------------------------------------------------
# oracle 2: where targets read from and write to

class PathModel:
    def __init__(self, case, src, bld):
        self.src = src
        self.bld = bld
        self.targets = case['expect']['targets']
        self.src_by_base = {}
        for s in case['sources']:
            self.src_by_base[posixpath.basename(s)] = s
        self.out_by_base = {}
        self.step_by_out = {}
        for t in self.targets:
            for j, o in enumerate(t['outs']):
                if 'exact' in o:
                    self.out_by_base[posixpath.basename(o['exact'])] = (t, j)
                else:
                    self.out_by_base.setdefault('under:' + o['base'], (t, j))
        self.by_src = {}
        for t in self.targets:
            for s in t['srcs']:
                self.by_src.setdefault(s, []).append(t)

    def rel(self, root, path):
        r = os.path.relpath(path, root)
        return None if r.startswith('..') else ('' if r == '.' else r)

    def check_input(self, cx, where, run, abspath, seen_inputs):
        """abspath: an input some step read.  Known by basename?"""
        b = os.path.basename(abspath)
        want = self.src_by_base.get(b)
        if want is None:
            return None
        got = self.rel(self.src, abspath)
        ts = self.by_src.get(want, [])
        kind = ts[0]['kind'] if ts else 'file'
        seen_inputs[want] = seen_inputs.get(want, 0) + 1
        if got != want:
            t = ts[0] if ts else None
            cx.violate(('path', 'input', kind,
                        'outside-srcdir' if got is None else 'elsewhere'),
                       [want],
                       {'run': run, 'context': where, 'kind': kind,
                        'script_dir': t['dir'] if t else None,
                        'expected': want, 'got': got or abspath})
        return want

    def check_output(self, cx, where, run, abspath, src_rel=None):
        b = os.path.basename(abspath)
        got = self.rel(self.bld, abspath)
        hit = self.out_by_base.get(b)
        if hit is not None:
            t, j = hit
            want = t['outs'][j]['exact']
            if got != want:
                wr = (t.get('written') or [None] * (j + 1))[j]
                how = how_misplaced(t['outs'][j], got, t['dir']) \
                    if got is not None \
                    else 'outside-builddir'
                cx.violate(('path', 'output', t['kind'], how),
                           [t['id'], t['inst'], j],
                           {'run': run, 'context': where, 'kind': t['kind'],
                            'script_dir': t['dir'], 'written': wr,
                            'declaration': t.get('code'),
                            'expected': want, 'got': got or abspath})
            return ('exact', t)
        if src_rel is not None:
            # an object compiled from a modelled source without a declared
            # name: must sit under the build directory of one of its users
            cands = []
            for t in self.by_src.get(src_rel, []):
                for c in t['compiles']:
                    if c['src'] == src_rel and 'under' in c['out']:
                        cands.append((t, c['out']['under']))
            if cands:
                ok = got is not None and any(
                    u == '' or got.startswith(u + '/') for _, u in cands)
                if not ok:
                    t = cands[0][0]
                    cx.violate(('path', 'output', t['kind'], 'intermediate'),
                               [t['id'], t['inst'], src_rel],
                               {'run': run, 'context': where, 'kind': t['kind'],
                                'script_dir': t['dir'], 'source': src_rel,
                                'expected_under': sorted(set(u for _, u in cands)),
                                'got': got or abspath})
                return ('under', cands[0][0])
        return None

    def check_includes(self, cx, where, run, src_rel, incs_abs):
        ts = self.by_src.get(src_rel, [])
        if not ts:
            return
        got = sorted(self.rel(self.src, i) or i for i in incs_abs)
        wants = [sorted(t['incs']) for t in ts]
        cx.res.ev('path:include', len(got))
        if got not in wants:
            cx.violate(('path', 'include', ts[0]['kind']), [src_rel],
                       {'run': run, 'context': where, 'kind': ts[0]['kind'],
                        'script_dir': ts[0]['dir'], 'source': src_rel,
                        'expected': wants[0], 'got': got})

    def expected_compiles(self):
        out = {}
        for t in self.targets:
            for c in t['compiles']:
                out[c['src']] = out.get(c['src'], 0) + 1
        return out


def split_compile_argv(argv, cwd):
    """-> (src abs|None, out abs|None, [include abs])"""
    src = out = None
    incs = []
    i = 1
    while i < len(argv):
        a = argv[i]
        if a == '-c' and i + 1 < len(argv):
            src = argv[i + 1]
            i += 1
        elif a == '-o' and i + 1 < len(argv):
            out = argv[i + 1]
            i += 1
        elif a in ('-MF', '-x') and i + 1 < len(argv):
            i += 1
        elif a.startswith('-I') and len(a) > 2:
            incs.append(a[2:])
        i += 1

    def ab(p):
        return None if p is None else os.path.normpath(os.path.join(cwd, p))
    return ab(src), ab(out), [ab(x) for x in incs]


def check_compdb(cx, pm, run, bld):
    path = os.path.join(bld, 'compile_commands.json')
    try:
        with open(path) as f:
            db = json.load(f)
    except (OSError, ValueError) as e:
        cx.violate(('compdb', 'unreadable'), [run], {'run': run, 'error': repr(e)})
        return
    seen = {}
    for ent in db:
        cx.res.ev('path:compdb-entry')
        d = ent.get('directory', bld)
        f_abs = os.path.normpath(os.path.join(d, ent.get('file', '')))
        src_rel = pm.check_input(cx, 'compile_commands.json', run, f_abs, seen)
        args = ent.get('arguments') or []
        if src_rel and '-c' in args:
            s, o, incs = split_compile_argv(args, d)
            pm.check_includes(cx, 'compile_commands.json', run, src_rel, incs)
        if 'output' in ent:
            o_abs = os.path.normpath(os.path.join(d, ent['output']))
            pm.check_output(cx, 'compile_commands.json', run, o_abs,
                            src_rel if '-c' in args else None)
    for s, n in pm.expected_compiles().items():
        if seen.get(s, 0) < n:
            ts = pm.by_src[s]
            cx.violate(('path', 'input', ts[0]['kind'], 'never-compiled'), [s],
                       {'run': run, 'context': 'compile_commands.json',
                        'kind': ts[0]['kind'], 'script_dir': ts[0]['dir'],
                        'expected': s, 'times': n, 'seen': seen.get(s, 0)})


def check_makefile_deps(cx, pm, run, bld, case):
    """extra_deps given as strings are inputs too: every mention of such a file
    in the generated Makefile must be the file next to the declaring script.
    -> set of (id, inst) of targets whose dependency points elsewhere (make
    cannot build those)."""
    broken = set()
    try:
        with open(os.path.join(bld, 'Makefile'), encoding='utf-8') as f:
            text = f.read()
    except OSError:
        return broken
    for t in pm.targets:
        for dep in t.get('deps', []):
            cx.res.ev('path:extra-dep')
            base = posixpath.basename(dep)
            toks = set(re.findall(r'[^\s\'"]*' + re.escape(base) + r'(?![\w.])',
                                  text))
            got = set()
            for tok in toks:
                # prerequisites are written $(srcdir)/...; the bare relative
                # mentions belong to the dist rule's file list
                if '$(srcdir)' not in tok and not os.path.isabs(tok):
                    continue
                p_ = tok[tok.index('$(srcdir)'):] if '$(srcdir)' in tok else tok
                got.add(os.path.normpath(p_.replace('$(srcdir)', pm.src)))
            want = os.path.normpath(os.path.join(pm.src, dep))
            if got == {want}:
                continue
            broken.add((t['id'], t['inst']))
            wrong = sorted(g for g in got if g != want)
            rel = [pm.rel(pm.src, g) for g in wrong]
            written = posixpath.relpath(dep, t['dir'] or '.')
            how = ('not-mentioned' if not got else
                   'resolved-against-root'
                   if t['dir'] and rel and rel[0] is not None and
                   posixpath.normpath(rel[0]) == posixpath.normpath(written)
                   else 'elsewhere')
            cx.violate(('path', 'input', 'extra_deps', how),
                       [t['id'], t['inst'], dep],
                       {'run': run, 'context': 'Makefile', 'kind': t['kind'],
                        'arg': 'extra_deps', 'script_dir': t['dir'],
                        'declaration': t.get('code'), 'expected': dep,
                        'got': rel or sorted(got)})
    return broken


def check_exec(cx, pm, run, vlog, broken=()):
    recs = proj.read_log(vlog)
    seen = {}
    for r in recs:
        if 'corrupt' in r:
            continue
        base = os.path.basename(r['name'])
        argv, cwd = r['argv'], r['cwd']
        if base in ('vcc', 'vc++'):
            s, o, incs = split_compile_argv(argv, cwd)
            if s is not None:
                cx.res.ev('path:exec-step')
                src_rel = pm.check_input(cx, 'executed-compile', run, s, seen)
                if src_rel:
                    pm.check_includes(cx, 'executed-compile', run, src_rel, incs)
                if o:
                    pm.check_output(cx, 'executed-compile', run, o, src_rel)
            elif o is not None:
                cx.res.ev('path:exec-step')
                pm.check_output(cx, 'executed-link', run, o)
        elif base == 'var':
            if len(argv) >= 3:
                cx.res.ev('path:exec-step')
                pm.check_output(cx, 'executed-archive', run,
                                os.path.normpath(os.path.join(cwd, argv[2])))
        elif base == 'vrec':
            cx.res.ev('path:exec-step')
            touching = False
            for a in argv[1:]:
                if a == '--touch':
                    touching = True
                elif a == '--end':
                    touching = False
                elif touching:
                    pm.check_output(cx, 'executed-step', run,
                                    os.path.normpath(os.path.join(cwd, a)))
                elif a != 'cmd':
                    pm.check_input(cx, 'executed-step', run,
                                   os.path.normpath(os.path.join(cwd, a)), seen)
    for t in pm.targets:
        if (t['id'], t['inst']) in broken:
            continue
        for s in t['srcs']:
            if t['kind'] in NOT_RECORDED:
                continue
            if seen.get(s, 0) < 1:
                cx.violate(('path', 'input', t['kind'], 'never-read'), [s],
                           {'run': run, 'context': 'executed-steps',
                            'kind': t['kind'], 'script_dir': t['dir'],
                            'expected': s})


def check_disk(cx, pm, run, case, broken=()):
    for t in pm.targets:
        if (t['id'], t['inst']) in broken:
            continue
        for j, o in enumerate(t['outs']):
            cx.res.ev('path:disk-output')
            if 'exact' in o:
                p = os.path.join(pm.bld, o['exact'])
                ok = os.path.isfile(p)
                found = p if ok else None
            else:
                found = None
                base_dir = os.path.join(pm.bld, o['under'])
                for d, ds, fs in os.walk(base_dir):
                    if o['base'] in fs:
                        found = os.path.join(d, o['base'])
                        break
                ok = found is not None
            if not ok:
                # where did it go?
                where = None
                b = posixpath.basename(o.get('exact', o.get('base')))
                for d, ds, fs in os.walk(pm.bld):
                    if b in fs:
                        where = os.path.relpath(os.path.join(d, b), pm.bld)
                        break
                wr = (t.get('written') or [None] * (j + 1))[j]
                how = 'not-built' if where is None else \
                    how_misplaced(o, where, t['dir'])
                cx.violate(('path', 'output', t['kind'], how),
                           [t['id'], t['inst'], j],
                           {'run': run, 'context': 'on-disk', 'kind': t['kind'],
                            'script_dir': t['dir'], 'written': wr,
                            'declaration': t.get('code'),
                            'expected': o.get('exact', o.get('under')),
                            'got': where})
                continue
            if t['kind'] in ('copy', 'copy_default', 'copy_files', 'man'):
                cx.res.ev('path:copy-content')
                with open(found, 'rb') as f:
                    raw = f.read()
                if t['kind'] == 'man':
                    import gzip
                    try:
                        raw = gzip.decompress(raw)
                    except (OSError, EOFError):
                        pass
                content = raw.decode('utf-8', 'replace')
                want = case['files'][t['srcs'][min(j, len(t['srcs']) - 1)]]
                if content != want:
                    cx.violate(('path', 'input', t['kind'], 'wrong-content'),
                               [t['id'], t['inst']],
                               {'run': run, 'context': 'on-disk',
                                'kind': t['kind'], 'script_dir': t['dir'],
                                'expected': t['srcs'][min(j, len(t['srcs']) - 1)],
                                'got': content[:100]})


# ---------------------------------------------------------------------------
# the two case kinds

def subject_env(vlog, blog, extra=None):
    e = proj.stub_toolchain_env(vlog)
    e['C19_LOG'] = blog
    if extra:
        e.update(extra)
    return core.base_env(e)


def perturb(env, spec):
    e = dict(env)
    for k in spec['drop']:
        e.pop(k, None)
    e.update(spec['set'])
    return e


def configure_failed(cx, run, rc, out, argv, cwd=None, env=None):
    """A configure the model expects to succeed failed: classify it (re-run
    with --debug for a full traceback) and report."""
    dbg = out
    if cwd is not None and (argv[1] in ('configure', 'configure-into') or
                            argv[0] == NINEK):
        try:
            env2 = dict(env)
            env2['C19_LOG'] = env['C19_LOG'] + '.dbg'
            _, dbg = core.run([argv[0], '--debug'] + argv[1:], cwd=cwd,
                              env=env2, timeout=180)
        except core.Timeout:
            dbg = out
    cls = error_class(dbg)
    # which call of the failing script?
    m = None
    for m in re.finditer(r'(?m)^\s+(_t\d+ = (\w+)\(.*)$', dbg):
        pass
    cx.violate(('configure', 'failed', cls), [run],
               {'run': run, 'rc': rc, 'error_class': cls,
                'failing_call': m.group(1)[:300] if m else None,
                'argv': argv[1:], 'output': out[-1500:]})


def decode_ns(ns):
    return ns_decode(ns) if ns is not None else None


def compare_ns(cx, what, key, a_name, a, b_name, b, extra):
    if a == b:
        return True
    da, db = decode_ns(a) or {}, decode_ns(b) or {}
    diff = sorted(k for k in set(da) | set(db) if da.get(k, '<absent>') !=
                  db.get(k, '<absent>'))
    w = {a_name: a, b_name: b, 'differing_dests': diff}
    w.update(extra)
    cx.violate(what, key, w)
    return False


def decl_for_dest(decls, dest):
    for d in decls:
        if c19args.dest_of(d) == dest:
            return d
    return None


def mech_for_diff(decls, a, b):
    da, db = decode_ns(a) or {}, decode_ns(b) or {}
    diff = sorted(k for k in set(da) | set(db) if da.get(k, '<absent>') !=
                  db.get(k, '<absent>'))
    if not diff:
        return 'none'
    d = decl_for_dest(decls, diff[0])
    return d['action'] if d else 'unknown-dest'


def run_tree(case, res):
    cx = Ctx(case, res)
    root = core.mkscratch('c19t')
    try:
        src = os.path.join(root, 'src')
        bld = os.path.join(root, 'bld')
        proj.write_tree(src, case['files'])
        for d in case['dirs']:
            os.makedirs(os.path.join(src, d), exist_ok=True)
        vlog = os.path.join(root, 'vstub.log')
        decls = case['expect']['decls']
        cmd = case['cmds'][0]
        exp_status, exp_ns = cmd['expect']
        pm = PathModel(case, src, bld)
        st = case['stats']
        res.key(core.digest(sorted((k, v) for k, v in case['files'].items()
                                   if k.endswith('.bfg'))),
                st['maxdepth'] >= 2 or st['dotdot'] > 0 or bool(st['multi']))
        res.classes.update(['launch:' + case['launch'],
                            'depth:%d' % st['maxdepth']] +
                           (['multi-included'] if st['multi'] else []) +
                           (['dotdot-submodule'] if st['dotdot'] else []))
        for t in case['expect']['targets']:
            res.classes.add('target:' + t['kind'])
        for f in case['files'].values():
            if 'raise SystemExit(0)' in f:
                res.classes.add('child:early-exit')
            if "raise RuntimeError('boom" in f:
                res.classes.add('child:raises-caught')

        # ---- run 1: configure
        user = c19gen.render_cmdline(decls, cmd['occs'], cmd['spellings'][0])
        blog = os.path.join(root, 'log1.jsonl')
        env = subject_env(vlog, blog)
        argv, cwd = launch(case['launch'], None, src, bld, root, user,
                           cmd['before'])
        rc, out = core.run(argv, cwd=cwd, env=env, timeout=180)
        res.ev('run:configure')
        if exp_status != 'ok':
            # nothing to regenerate; just demand the rejection
            res.ev('args:model')
            if rc == 0:
                cx.violate(('args', 'model-differs', 'accepted'), ['c1'],
                           {'run': 'configure', 'argv': user,
                            'expected': cmd['expect']})
            return
        if rc != 0:
            configure_failed(cx, 'configure', rc, out, argv, cwd, env)
            return
        ns1 = check_run_log(cx, 'configure', read_records(blog))
        res.ev('args:model')
        want_ns = c19gen.enc_model(exp_ns)
        if ns1 != want_ns:
            cx.violate(('args', 'model-differs', mech_for_diff(decls, ns1, want_ns)),
                       ['c1'], {'run': 'configure', 'argv': user,
                                'expected': want_ns, 'got': ns1})
        check_compdb(cx, pm, 'configure', bld)
        broken = check_makefile_deps(cx, pm, 'configure', bld, case)

        # ---- make with the stub tool chain (-k: a target that cannot be
        # built because of an already reported dependency must not hide the
        # others)
        proj.clear_log(vlog)
        rc, out = proj.build(bld, 'make', env=env, extra=['-k', 'DEPFIXER=:'])
        res.ev('run:make')
        if rc != 0 and not broken:
            if not any(m[0] == 'path' for m, _ in res.violations):
                cx.violate(('make', 'failed'), ['make'],
                           {'run': 'make', 'rc': rc, 'output': out[-1500:]})
        else:
            if rc != 0:
                res.ev('run:make-partial')
            check_exec(cx, pm, 'make', vlog, broken)
            check_disk(cx, pm, 'make', case, broken)

        # ---- run 2: regenerate in place
        blog2 = os.path.join(root, 'log2.jsonl')
        env2 = subject_env(vlog, blog2)
        rc, out = core.run([BFG, 'regenerate'], cwd=bld, env=env2, timeout=180)
        res.ev('run:regenerate')
        if rc != 0:
            cx.violate(('regenerate', 'failed', error_class(out)), ['r1'],
                       {'run': 'regenerate', 'rc': rc, 'output': out[-1500:]})
        else:
            ns2 = check_run_log(cx, 'regenerate', read_records(blog2))
            res.ev('args:regen-compare')
            compare_ns(cx, ('args', 'regenerate-differs', 'same-cwd',
                            mech_for_diff(decls, ns1, ns2)), ['r1'],
                       'configure_ns', ns1, 'regenerate_ns', ns2,
                       {'argv': user})
            check_compdb(cx, pm, 'regenerate', bld)

        # ---- run 3: regenerate from another cwd under a perturbed environment
        blog3 = os.path.join(root, 'log3.jsonl')
        other = os.path.join(root, 'else', 'where')
        os.makedirs(other, exist_ok=True)
        env3 = perturb(subject_env(vlog, blog3), case['perturb'])
        rc, out = core.run([BFG, 'regenerate', os.path.relpath(bld, other)],
                           cwd=other, env=env3, timeout=180)
        res.ev('run:regenerate')
        res.ev('run:regenerate-other-cwd-env')
        if rc != 0:
            cx.violate(('regenerate', 'failed', error_class(out)), ['r2'],
                       {'run': 'regenerate-other-cwd-env', 'rc': rc,
                        'output': out[-1500:]})
        else:
            ns3 = check_run_log(cx, 'regenerate-other-cwd-env',
                                read_records(blog3))
            res.ev('args:regen-compare')
            compare_ns(cx, ('args', 'regenerate-differs', 'other-cwd-env',
                            mech_for_diff(decls, ns1, ns3)), ['r2'],
                       'configure_ns', ns1, 'regenerate_ns', ns3,
                       {'argv': user})
            check_compdb(cx, pm, 'regenerate-other-cwd-env', bld)

        # ---- run 4: regeneration triggered by make after a script changed
        blog4 = os.path.join(root, 'log4.jsonl')
        env4 = subject_env(vlog, blog4)
        victim = os.path.join(src, 'options.bfg' if case.get('touch') == 'options'
                              else 'build.bfg')
        proj.bump(victim, bld)
        rc, out = proj.build(bld, 'make', env=env4,
                             extra=['DEPFIXER=:'], targets=['Makefile'])
        recs4 = read_records(blog4)
        if rc == 0 and recs4:
            res.ev('run:regenerate')
            res.ev('run:regenerate-by-make')
            ns4 = check_run_log(cx, 'regenerate-by-make', recs4)
            res.ev('args:regen-compare')
            compare_ns(cx, ('args', 'regenerate-differs', 'by-make',
                            mech_for_diff(decls, ns1, ns4)), ['r3'],
                       'configure_ns', ns1, 'regenerate_ns', ns4,
                       {'argv': user})
        elif rc != 0:
            cx.violate(('regenerate', 'failed', error_class(out)), ['r3'],
                       {'run': 'regenerate-by-make', 'rc': rc,
                        'output': out[-1500:]})
        else:
            res.exclude('make did not regenerate after touching a script '
                        '(that is C08\'s subject)')

        # ---- run 5: the other spelling into a second build directory
        bld2 = os.path.join(root, 'bld two')
        for si, xs in enumerate(cmd['spellings'][1:], 1):
            user2 = c19gen.render_cmdline(decls, cmd['occs'], xs)
            if user2 == user:
                continue
            blog5 = os.path.join(root, 'log5-%d.jsonl' % si)
            env5 = subject_env(vlog, blog5)
            bldx = bld2 + str(si)
            argv, cwd = launch(case['launch2'], None, src, bldx, root, user2,
                               cmd['before'])
            rc, out = core.run(argv, cwd=cwd, env=env5, timeout=180)
            res.ev('run:configure')
            if rc != 0:
                cx.violate(('args', 'spelling-differs', 'rejected',
                            culprit_action(decls, cmd['occs'], out)), ['s', si],
                           {'argv_a': user, 'argv_b': user2, 'rc_b': rc,
                            'output_b': out[-800:]})
                continue
            ns5 = check_run_log(cx, 'configure-other-spelling',
                                read_records(blog5))
            res.ev('args:spelling-pair')
            compare_ns(cx, ('args', 'spelling-differs',
                            mech_for_diff(decls, ns1, ns5)), ['s', si],
                       'ns_a', ns1, 'ns_b', ns5,
                       {'argv_a': user, 'argv_b': user2})
        res.sample = {'kind': 'tree', 'id': case['id'], 'stats': st,
                      'launch': case['launch'], 'argv': user,
                      'namespace': decode_ns(ns1),
                      'scripts': sorted(k for k in case['files']
                                        if k.endswith('.bfg'))}
    finally:
        core.rmtree(root)


def first_action(decls, occs):
    return decls[occs[0]['decl']]['action'] if occs else 'none'


def run_args(case, res):
    cx = Ctx(case, res)
    root = core.mkscratch('c19a')
    try:
        src = os.path.join(root, 'src')
        proj.write_tree(src, case['files'])
        vlog = os.path.join(root, 'vstub.log')
        decls = case['expect']['decls']
        other = os.path.join(root, 'else', 'where')
        os.makedirs(other, exist_ok=True)
        for d in decls:
            res.classes.add('action:' + d['action'] +
                            (':nargs' if d.get('nargs') is not None else '') +
                            (':choices' if d.get('choices') is not None else '') +
                            (':int' if d.get('type') else ''))
        n = 0
        for ci, cmd in enumerate(case['cmds']):
            exp_status, exp_ns = cmd['expect']
            want_ns = c19gen.enc_model(exp_ns) if exp_status == 'ok' else None
            outcomes = []
            plain = c19gen.render_cmdline(decls, cmd['occs'], cmd['spellings'][0])
            res.key([core.digest(decls), plain], bool(cmd['occs']))
            for o in cmd['occs']:
                d = decls[o['decl']]
                res.classes.add('cmdline:' + d['action'] +
                                (':neg' if o['neg'] else '') +
                                (':eq' if o['eq'] else '') +
                                (':alias' if o['name'] != d['names'][0] else ''))
            res.classes.add('expect:' + exp_status +
                            (':' + str(exp_ns) if exp_status != 'ok' else ''))
            if cmd['before']:
                res.classes.add('cmdline:before-directory')
            for si, xs in enumerate(cmd['spellings']):
                n += 1
                user = c19gen.render_cmdline(decls, cmd['occs'], xs)
                if si and user == plain:
                    continue
                bld = os.path.join(root, 'b%d_%d' % (ci, si))
                blog = os.path.join(root, 'log%d_%d.jsonl' % (ci, si))
                env = subject_env(vlog, blog)
                kind = c19gen.LAUNCHES[(ci + si + len(case['id'])) %
                                       len(c19gen.LAUNCHES)]
                argv, cwd = launch(kind, None, src, bld, root, user,
                                   cmd['before'])
                rc, out = core.run(argv, cwd=cwd, env=env, timeout=180)
                res.ev('run:configure')
                if rc == 0:
                    ns = check_run_log(cx, 'configure', read_records(blog))
                    outcomes.append((user, 'ok', ns, bld, rc, out))
                else:
                    outcomes.append((user, error_class(out), None, bld, rc, out))
                if si == 0:
                    launch0 = (argv, cwd, env)
            # ---- the model
            u0, st0, ns0, bld0, rc0, out0 = outcomes[0]
            res.ev('args:model')
            if exp_status == 'ok':
                if st0 != 'ok':
                    if st0.startswith('usage:'):
                        cx.violate(('args', 'model-differs', 'rejected',
                                    culprit_action(decls, cmd['occs'], out0)),
                                   [ci],
                                   {'argv': u0, 'expected': want_ns, 'rc': rc0,
                                    'output': out0[-800:]})
                    else:
                        configure_failed(cx, 'configure', rc0, out0, *launch0)
                elif ns0 != want_ns:
                    cx.violate(('args', 'model-differs',
                                mech_for_diff(decls, ns0, want_ns)), [ci],
                               {'argv': u0, 'expected': want_ns, 'got': ns0})
            else:
                res.ev('args:rejection-expected')
                if st0 == 'ok':
                    cx.violate(('args', 'model-differs', 'accepted',
                                str(exp_ns)), [ci],
                               {'argv': u0, 'expected': cmd['expect'],
                                'got': ns0})
                elif not st0.startswith('usage:'):
                    configure_failed(cx, 'configure', rc0, out0, *launch0)
            # ---- spellings agree
            for (u, st, ns, bld, rc, out) in outcomes[1:]:
                res.ev('args:spelling-pair')
                if (st == 'ok') != (st0 == 'ok'):
                    cx.violate(('args', 'spelling-differs', 'rejected',
                                culprit_action(decls, cmd['occs'],
                                               out if st != 'ok' else out0)),
                               [ci, u],
                               {'argv_a': u0, 'status_a': st0, 'argv_b': u,
                                'status_b': st,
                                'output_b': out[-600:], 'output_a': out0[-600:]})
                elif st == 'ok':
                    compare_ns(cx, ('args', 'spelling-differs',
                                    mech_for_diff(decls, ns0, ns)), [ci, u],
                               'ns_a', ns0, 'ns_b', ns,
                               {'argv_a': u0, 'argv_b': u})
                elif st != st0:
                    cx.violate(('args', 'spelling-differs', 'error-kind'),
                               [ci, u],
                               {'argv_a': u0, 'status_a': st0, 'argv_b': u,
                                'status_b': st})
            # ---- regeneration sees the configure-time values
            oks = [o for o in outcomes if o[1] == 'ok']
            if oks:
                u, st, ns, bld, rc, out = oks[(ci + len(case['id'])) % len(oks)]
                blog = os.path.join(root, 'logr%d.jsonl' % ci)
                if ci % 2 == 0:
                    env = perturb(subject_env(vlog, blog), case['perturb'])
                    argv, cwd = [BFG, 'regenerate',
                                 os.path.relpath(bld, other)], other
                    how = 'other-cwd-env'
                    res.ev('run:regenerate-other-cwd-env')
                else:
                    env = subject_env(vlog, blog)
                    argv, cwd = [BFG, 'regenerate'], bld
                    how = 'same-cwd'
                rc, out = core.run(argv, cwd=cwd, env=env, timeout=180)
                res.ev('run:regenerate')
                if rc != 0:
                    cx.violate(('regenerate', 'failed', error_class(out)),
                               [ci], {'run': 'regenerate-' + how, 'rc': rc,
                                      'argv': u, 'output': out[-1500:]})
                else:
                    nsr = check_run_log(cx, 'regenerate-' + how,
                                        read_records(blog))
                    res.ev('args:regen-compare')
                    compare_ns(cx, ('args', 'regenerate-differs', how,
                                    mech_for_diff(decls, ns, nsr)), [ci],
                               'configure_ns', ns, 'regenerate_ns', nsr,
                               {'argv': u})
            if ci == 0:
                res.sample = {'kind': 'args', 'id': case['id'],
                              'declarations': [c19args.decl_source(d)
                                               for d in decls],
                              'spellings': [o[0] for o in outcomes],
                              'outcome': st0, 'namespace': decode_ns(ns0),
                              'model': cmd['expect']}
        res.evaluations = n
    finally:
        core.rmtree(root)


def run_case(case):
    res = CaseResult()
    res.evaluations = 1
    if case['kind'] == 'tree':
        run_tree(case, res)
    elif case['kind'] == 'pcsub':
        run_pcsub(case, res)
    else:
        run_args(case, res)
    return res


# ---------------------------------------------------------------------------
# strings that are converted LATER than the call that received them
#
# pkg_config(..., includes=['dir'], auto_fill=...) inside a submodule: the string names a
# directory relative to the submodule, whenever bfg9000 gets round to converting it (the
# auto-filled descriptions are finished after every script has run).  Observed through the real
# pkg-config on the generated -uninstalled.pc.

def gen_pcsub_cases():
    n = 0
    for depth_dir in ('lib', 'pkgs/core', 'a/b/c'):
        for auto in (True, False):
            for form in ('string', 'string-list', 'header_directory', 'string-dotdot'):
                n += 1
                yield {'kind': 'pcsub', 'tag': 'pcsub-%d' % n, 'dir': depth_dir, 'auto': auto,
                       'form': form}


def run_pcsub(case, res):
    d, auto, form = case['dir'], case['auto'], case['form']
    root = core.mkscratch('c19p')
    try:
        src, bld = os.path.join(root, 'src'), os.path.join(root, 'bld')
        inc_rel = {'string': 'include', 'string-list': 'include',
                   'header_directory': 'include', 'string-dotdot': '../shared inc'}[form]
        inc_expr = {'string': "'include'", 'string-list': "['include']",
                    'header_directory': "[header_directory('include')]",
                    'string-dotdot': "['../shared inc']"}[form]
        inc_abs = os.path.normpath(os.path.join(src, d, inc_rel))
        name = 'pc' + case['tag'].replace('-', '')
        chain = d.split('/')
        files = {'build.bfg': "project(%r, '1.0')\nsubmodule(%r)\n" % (name, chain[0])}
        for i in range(1, len(chain)):
            files['/'.join(chain[:i]) + '/build.bfg'] = 'submodule(%r)\n' % chain[i]
        files[d + '/build.bfg'] = (
            "lib = static_library('hello', files=['hello.c'], includes=%s)\n"
            "install(lib)\n"
            "pkg_config(%r, version='1.0', includes=%s, libs=[lib]%s)\n"
            % (inc_expr, name, inc_expr, ', auto_fill=True' if auto else ''))
        files[d + '/hello.c'] = '#include "hello.h"\nint hello(void) { return HELLO; }\n'
        files[os.path.relpath(os.path.join(inc_abs, 'hello.h'), src)] = '#define HELLO 7\n'
        # a look-alike at the top: what a conversion against the wrong script would find
        files['include/hello.h'] = '#define HELLO 666\n'
        proj.write_tree(src, files)
        env = core.base_env(proj.stub_toolchain_env(os.devnull))
        rc, out = core.run([BFG, 'configure', bld, '--backend', 'make', '--no-resolve-packages',
                            '--prefix', os.path.join(root, 'pfx')], cwd=src, env=env,
                           timeout=120)
        res.ev('pcsub:configure')
        res.key(['pcsub', d, auto, form], True)
        w = {'script_dir': d, 'auto_fill': auto, 'form': form, 'kind': 'pkg_config.includes',
             'declaration': files[d + '/build.bfg'], 'context': 'pkg-config --cflags'}
        if rc != 0:
            res.violate(('configure', 'failed', 'pkg_config-in-submodule'),
                        dict(w, output=out[-600:]))
            return
        penv = dict(core.base_env(), PKG_CONFIG_PATH=os.path.join(bld, 'pkgconfig'))
        rc, out = core.run(['pkg-config', '--cflags-only-I', name + '-uninstalled'], env=penv,
                           timeout=60)
        import shlex
        dirs = [os.path.realpath(a[2:]) for a in shlex.split(out) if a.startswith('-I')] \
            if rc == 0 else []
        res.ev('pcsub:include-dir-checked')
        if rc != 0 or os.path.realpath(inc_abs) not in dirs:
            res.violate(('path', 'input', 'pkg_config.includes',
                         'resolved-against-root' if os.path.realpath(
                             os.path.join(src, inc_rel)) in dirs else 'elsewhere'),
                        dict(w, expected=inc_abs, got=dirs, rc=rc, output=out[-300:]))
        if res.sample is None:
            res.sample = dict(w, include_dirs=dirs)
    finally:
        core.rmtree(root)
