"""C10 - Interrupted or failed regeneration never leaves silently stale build files."""
import json
import os
import re
import shutil

from .. import core, proj
from ..core import CaseResult

LEVEL = 'fault_enumeration'
MODE = 'thread'
RULE = ('scenarios = {regeneration triggered by a build.bfg edit, a new file matching a '
        'find_files pattern, a removed file, an options.bfg edit, a toolchain edit; a fresh '
        'configure; a second configure of the existing build directory with another --prefix; '
        'a plain `bfg9000 regenerate` with nothing changed} x back end {make, reference ninja} x {with, without pkg_config() immediate '
        'files}; for each scenario the uninterrupted run is traced (out-of-tree audit-hook tracer) '
        'and EVERY mutation boundary k of that run (before/after open-for-write, before/after '
        'close, remove, utime, mkdir) is replayed from a restored tree copy with os._exit(137) at k '
        '(plus truncated-write variants and every rule-emission hook entry x {ENOSPC, RuntimeError, '
        'KeyboardInterrupt}), followed by one and two ordinary runs of the back end; verdict per '
        'follow-up: exit status != 0 OR build file and declared regeneration outputs byte-equal to '
        'the uninterrupted run; distinct = (scenario, backend, boundary op+phase+file); '
        'non-trivial = the fault leaves at least one file different from both the old and the '
        'new state, or hits between two writes')
ASSUMPTIONS = [
    'SIGKILL semantics modelled by os._exit at Python-level mutation boundaries: unflushed '
    'buffers are lost; kernel-level torn writes inside one write() are modelled by truncation',
    'the oracle is the uninterrupted run of the same scenario at the same absolute path',
    'tree copies preserve ns mtimes (copystat) and are restored to the same absolute path',
    'Ninja half: vf/ref/refninja.py (an empty build.ninja is a valid manifest: "no work to do")',
]
EXTRA_COVERAGE = {'exhaustive': True,
                  'exhaustive_scope': 'per scenario: every mutation boundary and every hook entry '
                                      'of the traced uninterrupted run'}
PRIMARY = {'make': 'Makefile', 'ninja': 'build.ninja'}
SCENARIOS = ['edit-bfg', 'new-file', 'removed-file', 'edit-options', 'edit-toolchain',
             'fresh-configure', 'script-raises', 'reconfigure', 'explicit-regenerate']
# scenarios whose interrupted run is a bfg9000 command the user types (not one the back end
# starts): a second `configure` of an existing build directory with other options, and a
# plain `regenerate` while nothing has changed
CLI_SCENARIOS = ('reconfigure', 'explicit-regenerate')
NCHUNK = 6


def floors(tier):
    return {'crash-points': 60, 'followups:judged': 120, 'raise-points': 20,
            'double-crash-points': 15, 'io-error-points': 30,
            'distinct_nontrivial': 30}


def cases(tier, seed):
    scen = ['edit-bfg', 'new-file', 'script-raises', 'reconfigure', 'explicit-regenerate'] \
        if tier == 'quick' else SCENARIOS
    pk = [True] if tier == 'quick' else [True, False]
    for s in scen:
        for backend in ('make', 'ninja'):
            if tier == 'quick' and s == 'explicit-regenerate' and backend == 'ninja':
                continue      # (the immediate-file writer is shared by the back ends)
            for pkgconf in pk:
                nchunk = 1 if s == 'script-raises' else NCHUNK
                forms = [None]
                if s == 'script-raises':
                    # every way a script can stop with an error, in every kind of script
                    stmts = ["raise RuntimeError('boom')", "exit('error: cannot go on')",
                             "import sys; sys.exit('giving up')", "exit(3)",
                             "raise SystemExit('stop')", "x = 1 / 0", "def broken(:",
                             "undefined_name_here", "exit(True)", "exit([1])"]
                    wheres = ['build', 'build-early', 'options', 'submodule', 'toolchain']
                    forms = [[wh, st] for wh in wheres for st in stmts
                             if tier == 'thorough' or wh == 'build' or
                             st in (stmts[0], stmts[1], stmts[6])]
                for form in forms:
                  for c in range(nchunk):
                    yield {'scenario': s, 'backend': backend, 'pkgconf': pkgconf,
                           'raise_form': form,
                           'chunk': c, 'nchunk': nchunk,
                           'double': ('all' if tier == 'thorough' else
                                      'window' if backend == 'make' else None)
                           if s in ('new-file', 'removed-file') else None,
                           'partial': tier == 'thorough',
                           # (quick: the user-typed commands get the kill points only)
                           'only_crash': tier == 'quick' and s in CLI_SCENARIOS,
                           'io_errors': 'all' if tier == 'thorough' else 'enospc',
                           'raise_kinds':
                           ['ENOSPC', 'RuntimeError', 'KeyboardInterrupt']
                           if tier == 'thorough' else ['ENOSPC', 'KeyboardInterrupt']}


def bfg_text(pkgconf, extra=''):
    L = ["project('p', '1.0', find_exclude=['*~'])",
         "srcs = find_files('src/*.c', extra='*.md')",
         "hdrs = header_directory('include', include='*.h')",
         "lib = static_library('p', files=srcs, includes=[hdrs])",
         "prog = executable('prog', files=['main.c'], libs=[lib])",
         "data = copy_files(find_files('data/*.txt'))",
         "default(prog, data)",
         "install(prog, lib, hdrs)",
         "test(prog)"]
    if pkgconf:
        L.append("pkg_config('p', version='1.0', libs=[lib], includes=[hdrs])")
    return '\n'.join(L) + '\n' + extra


class World:
    def __init__(self, case):
        self.case = case
        self.backend = case['backend']
        self.root = core.mkscratch('c10')
        self.snap = self.root + '.snap'
        self.src = os.path.join(self.root, 'src')
        self.bld = os.path.join(self.root, 'bld')
        self.trace = self.root + '.trace'
        files = {
            'build.bfg': bfg_text(case['pkgconf']),
            'options.bfg': "argument('flavor', default='x')\n",
            'tc.bfg': "compile_options(['-DTC=1'], 'c')\n",
            'main.c': 'int main(void){return 0;}\n',
            'src/s0.c': 'int s0;\n', 'src/s1.c': 'int s1;\n', 'src/notes.md': 'n\n',
            # enough sources for a Makefile / build.ninja well beyond one 8 KiB stdio buffer,
            # so that "killed before the buffer was flushed" leaves a realistic partial file
            **{'src/m%02d_with_a_long_name_to_fill_the_file.c' % i: 'int m%d;\n' % i
               for i in range(22)},
            'include/a.h': '#define A\n', 'data/x.txt': 'x\n',
        }
        proj.write_tree(self.src, files)
        self.conf_args = ['--toolchain', os.path.join(self.src, 'tc.bfg'),
                          '--prefix', os.path.join(self.root, 'inst')]
        extra = proj.stub_toolchain_env(os.devnull)
        extra.update({'CP': 'vwrap-cp -f', 'VSTUB_ENVKEYS': 'NONE'})
        self.plain_env = core.base_env(extra)
        # every other chunk: the temporary directory is on ANOTHER file system than the build
        # directory (a rename out of it is a copy there)
        self.tmp_elsewhere = None
        if case.get('chunk', 0) % 2 == 1 and os.path.isdir('/dev/shm') and \
           os.access('/dev/shm', os.W_OK) and \
           os.stat('/dev/shm').st_dev != os.stat(self.root).st_dev:
            import tempfile
            self.tmp_elsewhere = tempfile.mkdtemp(prefix='verif-c10-', dir='/dev/shm')
            self.plain_env['TMPDIR'] = self.tmp_elsewhere

    def env(self, **fault):
        e = dict(self.plain_env)
        e.update({'BFG9000_VERIF': '1', 'BFG9000_VERIF_TRACE': self.trace,
                  'BFG9000_VERIF_WATCH': self.root,
                  'BFG9000_VERIF_ROLE': r'bfg9000 (configure|regenerate)',
                  'PYTHONPATH': os.pathsep.join(
                      [core.INJECT, core.DEPS] + ([core.REPO] if core.REPO != '/repo' else []))})
        for k, v in fault.items():
            e['BFG9000_VERIF_' + k] = str(v)
        return e

    def configure(self, env=None, args=None):
        return proj.configure(self.src, self.bld, self.backend, args=args or self.conf_args,
                              env=env or self.plain_env)

    def reconfigure(self, env=None):
        """`bfg9000 configure` of the existing build directory with another prefix."""
        return self.configure(env=env, args=self.conf_args[:2] +
                              ['--prefix', os.path.join(self.root, 'other prefix')])

    def regenerate(self, env=None):
        proj.settle()
        return core.run([os.path.join(core.VENV_BIN, 'bfg9000'), 'regenerate', self.bld],
                        cwd=self.src, env=env or self.plain_env, timeout=180)

    def backend_run(self, env=None):
        proj.settle()
        if not os.path.isdir(self.bld):
            # the fault hit a first configure before the build directory existed: there is
            # nothing for the back end to run, which is a visible failure by itself
            return 2, 'no build directory: %s' % self.bld
        return proj.build(self.bld, self.backend, [], env=env or self.plain_env)

    def files(self):
        out = {}
        names = [PRIMARY[self.backend]]
        pc = os.path.join(self.bld, 'pkgconfig')
        if os.path.isdir(pc):
            # (a *.tmp left behind by a killed atomic write is litter, not a declared output)
            names += ['pkgconfig/' + n for n in sorted(os.listdir(pc)) if not n.endswith('.tmp')]
        # whatever else the build file itself declares as an output of the regeneration step
        # (read from its rule for the build file: today nothing more than the above)
        try:
            with open(os.path.join(self.bld, PRIMARY[self.backend]), encoding='utf-8',
                      errors='replace') as f:
                text = f.read()
            pat = (r'^Makefile((?: [^:\n]*)?):' if self.backend == 'make'
                   else r'^build build\.ninja((?: [^:|\n]*)?)[:|]')
            for m in re.finditer(pat, text, re.M):
                for tok in m.group(1).split():
                    if tok == 'compile_commands.json' and tok not in names:
                        names.append(tok)
        except OSError:
            pass
        for n in names:
            p = os.path.join(self.bld, n)
            try:
                with open(p, 'rb') as f:
                    out[n] = f.read()
            except OSError:
                out[n] = None
        return out

    def aux(self):
        out = {}
        for n in ('.bfg_find_cache', '.bfg_find_deps', '.bfg_environ'):
            try:
                with open(os.path.join(self.bld, n), 'rb') as f:
                    out[n] = f.read()
            except OSError:
                out[n] = None
        return out

    def save(self, snap=None):
        snap = snap or self.snap
        shutil.rmtree(snap, ignore_errors=True)
        shutil.copytree(self.root, snap, symlinks=True)

    def restore(self, snap=None):
        shutil.rmtree(self.root, ignore_errors=True)
        shutil.copytree(snap or self.snap, self.root, symlinks=True)
        try:
            os.remove(self.trace)
        except FileNotFoundError:
            pass

    def read_trace(self):
        evs = []
        try:
            with open(self.trace) as f:
                for line in f:
                    try:
                        evs.append(json.loads(line))
                    except ValueError:
                        pass
        except FileNotFoundError:
            pass
        return evs

    def apply(self, scenario):
        def w(rel, content):
            p = os.path.join(self.src, rel)
            with open(p, 'w') as f:
                f.write(content)
            proj.bump(p, self.bld)
        if scenario == 'edit-bfg':
            w('build.bfg', bfg_text(self.case['pkgconf'],
                                    "copy_file('extra.out', 'data/x.txt')\n"))
        elif scenario == 'new-file':
            w('src/new.c', 'int n;\n')
        elif scenario == 'removed-file':
            os.remove(os.path.join(self.src, 'src', 's1.c'))
            proj.settle()
        elif scenario == 'edit-options':
            w('options.bfg', "argument('flavor', default='y')\nargument('more', default='1')\n")
        elif scenario == 'edit-toolchain':
            w('tc.bfg', "compile_options(['-DTC=2'], 'c')\n")
        elif scenario == 'script-raises':
            form = self.case.get('raise_form') or ['build', "raise RuntimeError('boom')"]
            where, stmt = form
            extra = "copy_file('extra.out', 'data/x.txt')\n"
            if where == 'build':
                w('build.bfg', bfg_text(self.case['pkgconf'], extra + stmt + '\n'))
            elif where == 'build-early':
                # fails before most of the project is declared
                w('build.bfg', "project('p', '1.0', find_exclude=['*~'])\n" + extra + stmt + '\n' +
                  bfg_text(self.case['pkgconf']).split('\n', 1)[1])
            elif where == 'options':
                w('options.bfg', "argument('flavor', default='x')\n" + stmt + '\n')
            elif where == 'submodule':
                os.makedirs(os.path.join(self.src, 'sub'), exist_ok=True)
                w('sub/build.bfg', "copy_file('s.out', 's.in')\n" + stmt + '\n')
                w('sub/s.in', 's\n')
                w('build.bfg', bfg_text(self.case['pkgconf'], extra + "submodule('sub')\n"))
            elif where == 'toolchain':
                w('tc.bfg', "compile_options(['-DTC=1'], 'c')\n" + stmt + '\n')

    def cleanup(self):
        if self.tmp_elsewhere:
            shutil.rmtree(self.tmp_elsewhere, ignore_errors=True)
        core.rmtree(self.root)
        shutil.rmtree(self.snap, ignore_errors=True)
        shutil.rmtree(self.snap + '2', ignore_errors=True)
        try:
            os.remove(self.trace)
        except FileNotFoundError:
            pass


def run_case(case):
    res = CaseResult()
    w = World(case)
    scenario, backend = case['scenario'], case['backend']
    wb = {'scenario': scenario, 'backend': backend, 'pkgconf': case['pkgconf']}
    try:
        fresh = scenario == 'fresh-configure'
        if not fresh:
            rc, out = w.configure()
            if rc != 0:
                res.inconclusive = 'setup configure failed: ' + out[-300:]
                return res
            rc, out = w.backend_run()
            if rc != 0:
                res.inconclusive = 'setup build failed: ' + out[-300:]
                return res
            old = w.files()
            old_aux = w.aux()
            w.apply(scenario)
        else:
            old = {}
            old_aux = {}
        w.save()

        def interrupted_run(env):
            if fresh:
                return w.configure(env=env)
            if scenario == 'reconfigure':
                return w.reconfigure(env=env)
            if scenario == 'explicit-regenerate':
                return w.regenerate(env=env)
            return w.backend_run(env=env)

        # ---- the uninterrupted run (count mode)
        w.restore()
        rc, out = interrupted_run(w.env(RAISE_AT='0:count'))
        evs = w.read_trace()
        if scenario == 'script-raises':
            res.evaluations = 1
            res.ev('script-raises:runs')
            form = case.get('raise_form') or ['build', "raise RuntimeError('boom')"]
            res.key([scenario, backend] + form, True)
            wb = dict(wb, where=form[0], statement=form[1])
            res.classes.add('script-fails-in:' + form[0])
            now = w.files()
            if rc == 0:
                res.violate((backend, 'script-raises', 'build-succeeded', form[0]),
                            dict(wb, output=out[-500:]))
            if now != old:
                bad = sorted(n for n in set(now) | set(old) if now.get(n) != old.get(n))
                res.violate((backend, 'script-raises', 'build-file-touched', form[0]),
                            dict(wb, files=bad))
            # and the follow-up still fails loudly or is right
            rc2, out2 = w.backend_run()
            if rc2 == 0 and w.files() != old:
                res.violate((backend, 'script-raises', 'follow-up-silently-different', form[0]), wb)
            res.ev('followups:judged')
            res.sample = dict(wb, rc=rc, output=out[-300:])
            return res
        if rc != 0:
            res.inconclusive = 'uninterrupted run failed: ' + out[-400:]
            return res
        good = w.files()
        good_aux = w.aux()
        bounds = [e for e in evs if isinstance(e.get('n'), int)]
        hooks = [e for e in evs if e.get('op') == 'hook']
        pids = {e['pid'] for e in bounds}
        if len(pids) > 1:
            res.notes.append('several bfg9000 processes in one run: %d' % len(pids))
        N = max([e['n'] for e in bounds] or [0])
        H = max([e['hook_n'] for e in hooks] or [0])
        if N == 0:
            res.inconclusive = 'the tracer saw no mutation boundary'
            return res
        res.ev('boundaries-in-uninterrupted-run', N if case['chunk'] == 0 else 0)

        def state_of(v, o, g):
            return ('missing' if v is None else 'empty' if v == b'' else
                    'new' if v == g else 'old' if v == o else 'partial')

        follow_n = [0]

        def follow_ups(label, fault_desc, key, nontrivial_hint):
            """After the faulty run: one and two ordinary runs of the back end."""
            after_fault = w.files()
            after_aux = w.aux()
            prim = PRIMARY[backend]
            st = {'primary': state_of(after_fault.get(prim), old.get(prim), good.get(prim)),
                  'find_cache': state_of(after_aux.get('.bfg_find_cache'),
                                         old_aux.get('.bfg_find_cache'),
                                         good_aux.get('.bfg_find_cache')),
                  'find_deps': state_of(after_aux.get('.bfg_find_deps'),
                                        old_aux.get('.bfg_find_deps'),
                                        good_aux.get('.bfg_find_deps'))}
            half = any(after_fault.get(n) not in (old.get(n), good.get(n))
                       for n in set(good) | set(old))
            res.key(key, half or nontrivial_hint)
            # a second configure that died before it saved the new configuration has changed
            # nothing: the build directory then consistently describes the old configuration,
            # and staying there is right.  Only once .bfg_environ holds the new configuration
            # must the build files follow it.
            def conf(raw):
                # the saved configuration without the recorded process environment (the
                # fault-injection switches of this harness are in there and differ per run)
                try:
                    d = json.loads(raw.decode('utf-8'))
                    d['data'].pop('variables', None)
                    return json.dumps(d, sort_keys=True).encode()
                except Exception:
                    return raw
            env_state = state_of(conf(after_aux.get('.bfg_environ')) if
                                 after_aux.get('.bfg_environ') else after_aux.get('.bfg_environ'),
                                 conf(old_aux.get('.bfg_environ') or b''),
                                 conf(good_aux.get('.bfg_environ') or b''))
            st['environ'] = env_state
            # the next regeneration attempt is either the back end's own (make / ninja decide
            # whether to call `bfg9000 regenerate --lazy`) or, for every other fault, that
            # command typed by hand - it must not report success over broken files either
            follow_n[0] += 1
            cli_first = (follow_n[0] % 2 == 0 or st['primary'] in ('empty', 'partial')) \
                and os.path.isdir(w.bld)
            for attempt in (1, 2):
                if attempt == 1 and cli_first:
                    proj.settle()
                    rc, out = core.run([os.path.join(core.VENV_BIN, 'bfg9000'), 'regenerate',
                                        '--lazy', w.bld], cwd=w.src, env=w.plain_env,
                                       timeout=180)
                    res.ev('followups:cli-lazy-first')
                else:
                    rc, out = w.backend_run()
                res.ev('followups:judged')
                now = w.files()
                if scenario == 'reconfigure' and rc == 0 and now == old and \
                   env_state == 'old':
                    res.ev('reconfigure:died-before-saving-the-configuration')
                    return st
                if rc == 0 and now != good:
                    bad = sorted(n for n in set(now) | set(good) if now.get(n) != good.get(n))
                    from .c08 import order_only
                    oo = order_only(now, good, bad)
                    if oo:
                        # complete and correct, but words of a line in another order than the
                        # uninterrupted run wrote them (C08's cache-served dist-list ordering)
                        res.violate((backend, 'differs-in-order-only', oo),
                                    dict(wb, kind=label, fault=fault_desc, followup=attempt))
                        return st
                    state = {n: state_of(now.get(n), old.get(n), good.get(n)) for n in bad}
                    if st['primary'] == 'old' and st['find_cache'] == 'new' and \
                       old_aux.get('.bfg_find_cache') != good_aux.get('.bfg_find_cache'):
                        cause = 'find-cache-ahead-of-build-file'
                    elif backend == 'ninja' and st['primary'] == 'empty':
                        cause = 'ninja-empty-manifest'
                    elif st['primary'] == 'old' and st['find_deps'] in ('empty', 'partial',
                                                                        'missing'):
                        cause = 'find-deps-truncated'
                    else:
                        cause = 'state:primary=%(primary)s,cache=%(find_cache)s,deps=%(find_deps)s' % st
                        if scenario == 'reconfigure':
                            cause += ',environ=' + env_state
                    res.violate((backend, 'silent-stale', cause) +
                                (('after-two-faults',) if label.startswith('double') else ()),
                                dict(wb, kind=label, fault=fault_desc, state_after_fault=st,
                                     stale_files=state, followup=attempt,
                                     followup_command=('bfg9000 regenerate --lazy'
                                                       if attempt == 1 and cli_first
                                                       else 'back end'),
                                     output=out[-400:], half_written=half))
                    return st
                if rc == 0:
                    return st   # converged to the uninterrupted state
            return st

        # ---- crash points of this chunk
        ks = [k for k in range(1, N + 1) if k % case['nchunk'] == case['chunk']]
        res.evaluations = 0
        for k in ks:
            ev = next(e for e in bounds if e['n'] == k)
            rel = os.path.relpath(ev['path'], w.root)
            variants = [None]
            if case['partial'] and ev['op'] == 'close' and ev['phase'] == 'before':
                variants += [0, 200]
            for part in variants:
                w.restore()
                fault = {'CRASH_AT': k}
                if part is not None:
                    fault['PARTIAL'] = part
                rc, out = interrupted_run(w.env(**fault))
                tr = w.read_trace()
                if not any(e.get('crash') for e in tr):
                    res.notes.append('crash point %d not reached on replay (%s)' % (k, rel))
                    res.ev('crash-points:not-reached')
                    continue
                res.ev('crash-points')
                res.evaluations += 1
                desc = [ev['op'], ev['phase'], os.path.basename(rel)] + \
                    (['partial:%d' % part] if part is not None else [])
                st = follow_ups('crash', desc, [scenario, backend, case['pkgconf']] + desc,
                                ev['op'] in ('open', 'close'))
                # ---- a second fault in the next attempt (sequences of two faults)
                changed = st and (st['primary'] != 'old' or st['find_cache'] not in ('old',)
                                  or st['find_deps'] not in ('old',))
                window = st and st['primary'] == 'old' and st['find_cache'] == 'new'
                if part is None and not fresh and case.get('double') and \
                   (window or (changed and case['double'] == 'all')):
                    w.restore()
                    interrupted_run(w.env(CRASH_AT=k))
                    w.save(w.snap + '2')
                    rc2, out2 = w.backend_run(env=w.env(RAISE_AT='0:count'))
                    b2 = [e for e in w.read_trace() if isinstance(e.get('n'), int)]
                    k2s = [e['n'] for e in b2
                           if case['double'] == 'all' or
                           (e['phase'] == 'before' and e['op'] != 'close')]
                    for k2 in k2s:
                        e2 = next(e for e in b2 if e['n'] == k2)
                        w.restore(w.snap + '2')
                        w.backend_run(env=w.env(CRASH_AT=k2))
                        if not any(e.get('crash') for e in w.read_trace()):
                            continue
                        res.ev('double-crash-points')
                        res.evaluations += 1
                        d2 = desc + ['then', e2['op'], e2['phase'],
                                     os.path.basename(e2['path'])]
                        follow_ups('double-crash', d2,
                                   [scenario, backend, case['pkgconf']] + d2, True)
        # ---- I/O error failpoints of this chunk: the operation at a 'before' boundary fails
        # (ENOSPC on open / close / replace ..., EACCES on open) and the error reaches bfg9000
        for k in ([] if case.get('only_crash') else ks):
            ev = next(e for e in bounds if e['n'] == k)
            if ev['phase'] != 'before':
                continue
            rel = os.path.relpath(ev['path'], w.root)
            for errname in (['ENOSPC', 'EACCES'] if ev['op'] == 'open' and
                            case.get('io_errors') == 'all' else ['ENOSPC']):
                w.restore()
                if fresh:
                    rc, out = w.configure(env=w.env(CRASH_AT=k, FAULT=errname))
                elif scenario == 'reconfigure':
                    rc, out = w.reconfigure(env=w.env(CRASH_AT=k, FAULT=errname))
                else:
                    # the documented command itself, so that its own exit status is seen (a
                    # back end would simply run a regeneration that "succeeded" again)
                    proj.settle()
                    rc, out = core.run([os.path.join(core.VENV_BIN, 'bfg9000'), 'regenerate',
                                        w.bld], cwd=w.src,
                                       env=w.env(CRASH_AT=k, FAULT=errname), timeout=180)
                if not any(e.get('fault') for e in w.read_trace()):
                    res.ev('io-error-points:not-reached')
                    continue
                res.ev('io-error-points')
                res.evaluations += 1
                desc = ['io-error', errname, ev['op'], os.path.basename(rel)]
                if rc == 0:
                    now = w.files()
                    res.ev('io-error-points:run-reported-success')
                    if now != good:
                        from .c08 import order_only
                        bad = sorted(n for n in set(now) | set(good) if now.get(n) != good.get(n))
                        if not order_only(now, good, bad):
                            res.violate((backend, 'io-error', 'reported-success-with-stale-files',
                                         ev['op'] + ':' + os.path.basename(rel).split('.tmp')[0]),
                                        dict(wb, fault=desc, stale_files={
                                            n: state_of(now.get(n), old.get(n), good.get(n))
                                            for n in bad}, output=out[-400:]))
                follow_ups('io-error', desc, [scenario, backend, case['pkgconf']] + desc, True)
        # ---- exception failpoints of this chunk
        hs = [h for h in range(1, H + 1) if h % case['nchunk'] == case['chunk']]
        for h in ([] if case.get('only_crash') else hs):
            hv = next(e for e in hooks if e['hook_n'] == h)
            for kind in case['raise_kinds']:
                w.restore()
                rc, out = interrupted_run(w.env(RAISE_AT='%d:%s' % (h, kind)))
                tr = w.read_trace()
                if not any(e.get('op') == 'raise' for e in tr):
                    res.ev('raise-points:not-reached')
                    continue
                res.ev('raise-points')
                res.evaluations += 1
                if rc == 0:
                    res.violate((backend, 'raise', 'faulty-run-reported-success', kind),
                                dict(wb, hook=hv['name'], kind=kind, output=out[-400:]))
                desc = ['hook', hv['name'].rsplit('.', 1)[-1], kind]
                follow_ups('raise', desc, [scenario, backend, case['pkgconf']] + desc, True)
        res.sample = dict(wb, boundaries=N, hooks=H, chunk=case['chunk'],
                          first_boundaries=[[e['op'], e['phase'],
                                             os.path.relpath(e['path'], w.root)]
                                            for e in bounds[:12]])
        res.classes.update('%s:%s' % (e['op'], e['phase']) for e in bounds)
        if w.tmp_elsewhere:
            res.ev('runs-with-TMPDIR-on-another-file-system')
            res.classes.add('TMPDIR:other-file-system')
        return res
    finally:
        w.cleanup()
