"""C14 - Linked binaries build, run in place, and survive moving the build dir.

Workload (vf/gen/c14gen.py): 7 hand-written small DAGs aimed at one mechanism each
plus seeded random DAGs (3-12 nodes) of static / shared / dual-use / whole-archive
/ source-less "wrap" libraries and executables in nested, different output
directories, C and C++ mixed, every node declaring exactly its direct
dependencies in random order; static libraries carrying a system library
(libm, through `libs=`) and a link option of their own.  Every DAG is configured
under all four --enable/--disable-shared/static combinations with the real
compilers and built with the real `make -k -j4`; one mode per DAG in quick (every mode in
thorough, gcc) is also configured for the Ninja back end and built by the reference Ninja
evaluator (vf/ref/refninja.py) running the real compilers.

Oracles (none uses bfg9000 code):
  * exit status of configure / make; every declared output exists;
  * every executable, run without LD_LIBRARY_PATH from the build dir, from its own
    directory and from elsewhere, exits 0 and prints the generator's model value;
  * `readelf -d` of every dynamically linked output: no NEEDED entry with a
    path, every RUNPATH/RPATH entry either starts with $ORIGIN or lies outside
    the scratch tree, every NEEDED project library is found through a $ORIGIN
    entry resolved by hand;
  * `nm` of every dynamic link: members of whole archives and `--defsym` symbols
    of static libraries that must have been forwarded to it are present;
  * the build directory is renamed (to another depth) and every executable is run
    again.
A failed link is re-run in isolation (same argv, other -o) to attribute the
undefined symbols to a cause with the generator's model.
"""
import os
import re
import threading

from .. import core, proj
from ..core import CaseResult
from ..gen import c14gen as gen

LEVEL = 'exploration'
MODE = 'thread'
RULE = ('7 hand-written DAGs (static chain with a shortcut edge, whole archive '
        'wrapped into a source-less shared library, shared chain over nested '
        'directories, static library forwarding libm and a link option through '
        'two levels, shared-on-static below a dual-use library, whole archive '
        'below a static library, versioned shared libraries + whole_archive(existing '
        'static library)) + seeded random DAGs of 3-12 nodes (kinds static/shared/'
        'library/whole/wrap/exe, 2-5 output directories out of 14 nested ones, 1-3 '
        'source directories, two translation units per library so that users may '
        'need only one archive member, C/C++ mix, declared libs in random order, '
        'libm via libs=, --defsym link options, version/soversion, static archives '
        'sharing a base name across directories) x 4 library modes x compiler (gcc; '
        'clang too on every third DAG in thorough) x back end (make; ninja through the reference '
        'evaluator for one mode per DAG in quick, all modes in thorough); distinct = (DAG, mode, '
        'compiler, back end); '
        'non-trivial = dependency depth >= 3 and outputs in >= 2 directories')
ASSUMPTIONS = [
    'gcc/g++ 12, clang 14, GNU ld 2.40, GNU make 4.3, glibc ld.so, readelf, nm are the '
    'trusted back end; their behaviour on a hand-written reference project is '
    'checked first (calibration) and unsupported observations are excluded',
    'every generated node declares every library its own code calls (the '
    "property's premise); a quarter of the nodes with >= 2 dependencies also list one "
    "library they do not call themselves; a wrap node's users call the functions of the "
    'whole archives it contains and declare only the wrap node',
    'library base names of anything with a soname are unique in a project (ELF '
    'cannot load two libraries with one soname); static archives may share names',
    'output and source path components avoid two-character names (C05) and '
    'characters special to make/sh (C01/C04)',
    'system libraries are referenced as an existing library file in libs= '
    '(package() needs mopack, which is unusable in this sandbox); -l options in '
    'link_options are not generated because link_options are documented as linker '
    'options and land before the inputs',
    'which variant of a dual-use library a user links is not asserted; forwarded-'
    'item checks (nm) only follow static_library/whole_archive nodes and library() '
    'nodes when exactly one mode is enabled',
    'with both modes disabled a project with library() nodes is allowed to be '
    'rejected at configure time (non-zero exit)',
]


def floors(tier):
    # about 40 % of what seeds 0-4 give on the unchanged tree (where the known
    # ordering defect already costs some builds)
    if tier == 'quick':
        return {'configure:ok': 40, 'build:ok': 20, 'build:ok:ninja': 5, 'exe:run-builddir': 30,
                'exe:run-owndir': 30, 'exe:run-elsewhere': 30, 'exe:run-moved': 90,
                'builddir:moved': 40, 'elf:inspected': 80, 'soname:checked': 40,
                'rpath:origin-entry': 60, 'rpath:needed-resolved': 60,
                'forward:static-received': 60,
                'forward:static-received-transitively': 15,
                'whole:members-present': 15, 'lopt:forwarded-present': 10,
                'sysm:needed-libm': 4, 'versioned:symlink-checked': 8,
                'both-disabled:built': 3, 'both-disabled:rejected': 2,
                'distinct_nontrivial': 30}
    return {'configure:ok': 200, 'build:ok': 150, 'build:ok:ninja': 80, 'exe:run-builddir': 300,
            'exe:run-owndir': 300, 'exe:run-elsewhere': 300, 'exe:run-moved': 900,
            'builddir:moved': 200, 'elf:inspected': 800, 'soname:checked': 500,
            'rpath:origin-entry': 900, 'rpath:needed-resolved': 800,
            'forward:static-received': 1000,
            'forward:static-received-transitively': 400,
            'whole:members-present': 300, 'lopt:forwarded-present': 300,
            'sysm:needed-libm': 200, 'versioned:symlink-checked': 150,
            'both-disabled:built': 25, 'both-disabled:rejected': 20,
            'distinct_nontrivial': 250}


RUN_ENV = {'PATH': '/usr/bin:/bin', 'LANG': 'C', 'LC_ALL': 'C'}
TOOLS = {'gcc': ('gcc', 'g++'), 'clang': ('clang', 'clang++')}


# --------------------------------------------------------------------------
# observation helpers (shared by calibration and the real cases)

def readelf_dynamic(path):
    """-> {'needed': [...], 'runpath': [...entries...], 'soname': str|None}"""
    rc, out = core.run(['readelf', '-d', path], env=RUN_ENV, timeout=60)
    info = {'needed': [], 'runpath': [], 'soname': None, 'rc': rc}
    for line in out.splitlines():
        m = re.search(r'\((NEEDED|RUNPATH|RPATH|SONAME)\)\s+.*?\[(.*)\]\s*$', line)
        if not m:
            continue
        tag, val = m.group(1), m.group(2)
        if tag == 'NEEDED':
            info['needed'].append(val)
        elif tag == 'SONAME':
            info['soname'] = val
        else:
            info['runpath'] += val.split(':')
    return info


def nm_symbols(path):
    """-> {name: (type letter, value int|None)} of .symtab (all symbols)."""
    rc, out = core.run(['nm', path], env=RUN_ENV, timeout=60)
    syms = {}
    for line in out.splitlines():
        parts = line.split()
        if len(parts) == 3:
            try:
                syms[parts[2]] = (parts[1], int(parts[0], 16))
            except ValueError:
                pass
        elif len(parts) == 2:
            syms[parts[1]] = (parts[0], None)
    return syms


def origin_rel(entry):
    for pre in ('$ORIGIN', '${ORIGIN}'):
        if entry.startswith(pre):
            rest = entry[len(pre):]
            if rest == '' or rest.startswith('/'):
                return rest.lstrip('/')
    return None


def run_exe(path, cwd, argv0=None):
    return core.run([argv0 or path], cwd=cwd, env=RUN_ENV, timeout=30)


def undefined_symbols(text):
    """Symbols GNU ld reports as undefined (both message forms)."""
    syms = set(re.findall(r"undefined reference to [`'‘]([^'’`]+)['’]", text))
    syms |= set(s.split('@')[0] for s in re.findall(
        r"undefined reference to symbol [`'‘]([^'’`]+)['’]", text))
    return sorted(syms)


# --------------------------------------------------------------------------
# calibration: a reference project built by hand with the same tools

_calib = {}
_calib_lock = threading.Lock()


def calibrate(compiler):
    with _calib_lock:
        if compiler not in _calib:
            _calib[compiler] = _calibrate(compiler)
        return _calib[compiler]


def _calibrate(compiler):
    cc = TOOLS[compiler][0]
    root = core.mkscratch('c14-calib-' + compiler)
    env = dict(RUN_ENV)
    caps = {'origin': False, 'defsym': False, 'whole': False, 'sqrt': False,
            'cxx': False}
    try:
        proj.write_tree(root, {
            'w1.c': 'unsigned f_w(void){ return 5u; }\n',
            'w2.c': 'unsigned g_w(void){ return 7u; }\n',
            's.c': '#include <math.h>\nunsigned f_s(void){ volatile double v = 81.0; '
                   'return (unsigned)(sqrt(v) + 0.5); }\n',
            'm.c': '#include <stdio.h>\nunsigned f_w(void); unsigned f_s(void);\n'
                   'int main(void){ printf("%u\\n", f_w() + f_s()); return 0; }\n',
            'x.cpp': 'extern "C" unsigned f_x(void){ unsigned *p = new unsigned(3u); '
                     'unsigned r = *p; delete p; return r; }\n',
            'mx.c': 'unsigned f_x(void); int main(void){ return f_x() == 3u ? 0 : 1; }\n',
            'sub': None, 'lib': None, 'bin': None,
        })

        def sh(*argv):
            return core.run(list(argv), cwd=root, env=env, timeout=120)
        for f in ('w1', 'w2', 's', 'm', 'mx'):
            rc, out = sh(cc, '-fPIC', '-c', f + '.c', '-o', f + '.o')
            if rc:
                return caps
        sh('ar', 'cr', 'sub/libw.a', 'w1.o', 'w2.o')
        sh('ar', 'cr', 'libs.a', 's.o')
        sh(cc, '-shared', '-fPIC', '-Wl,-soname,libwrap.so', '-Wl,--whole-archive',
           'sub/libw.a', '-Wl,--no-whole-archive', '-o', 'lib/libwrap.so')
        sh(cc, '-shared', '-fPIC', '-Wl,-soname,libnowrap.so', 'sub/libw.a',
           '-o', 'lib/libnowrap.so')
        with_w = nm_symbols(os.path.join(root, 'lib/libwrap.so'))
        without = nm_symbols(os.path.join(root, 'lib/libnowrap.so'))
        caps['whole'] = ('f_w' in with_w and 'g_w' in with_w and
                         with_w['f_w'][0] in 'Tt' and 'f_w' not in without)
        rc, out = sh(cc, '-Wl,--defsym=c14_opt_ref=0x1234', '-Wl,-rpath,$ORIGIN/../lib',
                     'm.o', 'libs.a', 'lib/libwrap.so', '-lm', '-o', 'bin/m')
        if rc == 0:
            rc2, out2 = run_exe(os.path.join(root, 'bin/m'), cwd='/')
            info = readelf_dynamic(os.path.join(root, 'bin/m'))
            caps['origin'] = (rc2 == 0 and out2.strip() == '14' and
                              info['runpath'] == ['$ORIGIN/../lib'] and
                              'libwrap.so' in info['needed'] and
                              origin_rel(info['runpath'][0]) == '../lib')
            syms = nm_symbols(os.path.join(root, 'bin/m'))
            caps['defsym'] = syms.get('c14_opt_ref') == ('A', 0x1234)
            caps['libm_needed'] = any(n.startswith('libm.so') for n in info['needed'])
        rc, out = sh(cc, 'm.o', 'libs.a', 'lib/libwrap.so', '-o', 'bin/m_nolibm')
        caps['sqrt'] = rc != 0 and 'sqrt' in undefined_symbols(out)
        # informational: does this driver link with --as-needed by default, i.e.
        # must a shared provider follow the archive that needs it?
        rc, out = sh(cc, 'm.o', '-lm', 'libs.a', 'lib/libwrap.so', '-o', 'bin/m_lmfirst')
        caps['info:shared-order-matters'] = rc != 0
        # C++ runtime really needed by a C++ unit linked with the C driver
        rc, out = sh(TOOLS[compiler][1], '-fPIC', '-c', 'x.cpp', '-o', 'x.o')
        if rc == 0:
            rc, out = sh(cc, 'mx.o', 'x.o', '-o', 'bin/mx_c')
            caps['cxx'] = rc != 0 and bool(undefined_symbols(out))
        return caps
    finally:
        core.rmtree(root)


# --------------------------------------------------------------------------
# generation

def find_sysm():
    """Absolute path of the C library's libm.so as the compiler sees it."""
    try:
        rc, out = core.run(['gcc', '-print-file-name=libm.so'], env=RUN_ENV,
                           timeout=30)
    except Exception:
        return None
    p = os.path.normpath(out.strip())
    return p if rc == 0 and os.path.isabs(p) and os.path.exists(p) else None


def cases(tier, seed):
    return gen.cases(tier, seed, core.rng_for, find_sysm())


# --------------------------------------------------------------------------
# classification (mechanism tuples are computed from what was observed)

def classify_configure(out):
    m = re.search(r'Traceback \(most recent call last\)', out)
    if m:
        exc = re.findall(r'^(\w+(?:\.\w+)*(?:Error|Exception))\b', out, re.M)
        return 'traceback:' + (exc[-1] if exc else 'unknown')
    for pat, label in [(r'already exists', 'duplicate-rule'),
                       (r'both shared and static modes disabled', 'modes-disabled'),
                       (r'unable to find linker', 'no-linker'),
                       (r'unable to determine language', 'no-language'),
                       (r'cannot link multiple object formats', 'formats'),
                       (r'unable to resolve package', 'package')]:
        if re.search(pat, out):
            return label
    return 'other'


def classify_build_text(out):
    for pat, label in [(r'undefined reference to', 'undefined-reference'),
                       (r'multiple definition of', 'multiple-definition'),
                       (r'cannot find -l', 'library-not-found'),
                       (r'No rule to make target', 'no-rule'),
                       (r'No such file or directory', 'missing-file'),
                       (r'relocation .* can not be used when making', 'non-pic'),
                       (r'error:', 'compile-error')]:
        if re.search(pat, out):
            return label
    return 'other'


def classify_run(rc, out):
    if 'error while loading shared libraries' in out:
        return 'lib-not-found'
    if 'symbol lookup error' in out or 'undefined symbol' in out:
        return 'undefined-symbol'
    if rc < 0:
        return 'crash'
    if rc != 0:
        return 'nonzero-exit'
    return 'wrong-output'


# --------------------------------------------------------------------------

class Project:
    """Expected files of a case (independent of bfg9000)."""

    def __init__(self, case):
        self.case = case
        self.mode = tuple(case['mode'])
        self.nodes = {n['id']: n for n in case['nodes']}
        self.outputs = {}       # relpath -> (node id, 'exe'|'shared'|'static')
        for n in case['nodes']:
            k = n['kind']
            if k == 'exe':
                self.outputs[gen.out_file(n, None)] = (n['id'], 'exe')
            elif k in ('shared', 'wrap'):
                self.outputs[gen.out_file(n, 'shared')] = (n['id'], 'shared')
            elif k in gen.STATICISH:
                self.outputs[gen.out_file(n, 'static')] = (n['id'], 'static')
            elif k == 'library':
                if self.mode[0]:
                    self.outputs[gen.out_file(n, 'shared')] = (n['id'], 'shared')
                if self.mode[1]:
                    self.outputs[gen.out_file(n, 'static')] = (n['id'], 'static')
        # versioned shared libraries: soname and development symlinks
        self.links = {}         # symlink relpath -> real output relpath
        self.soname = {}        # real output relpath -> expected DT_SONAME
        for p, (i, v) in self.outputs.items():
            if v != 'shared':
                continue
            self.soname[p] = os.path.basename(p)
            vl = gen.version_links(self.nodes[i])
            if vl:
                self.links[vl[0]] = p
                self.links[vl[1]] = p
                self.soname[p] = os.path.basename(vl[0])
        self.shared_names = {self.soname[p]: p for p in self.soname}

    def canon(self, p):
        return self.links.get(p, p)

    def dynamic(self):
        return [(p, i, v) for p, (i, v) in sorted(self.outputs.items())
                if v in ('exe', 'shared')]

    def callers_of(self, owner, role):
        out = []
        for n in self.case['nodes']:
            for tu in n['tus']:
                if any(o == owner and s == role for _, o, s in tu['calls']):
                    out.append(n['id'])
                    break
        return out


def link_records(log, bld):
    """{normalised output path relative to bld: record} for link steps."""
    out = {}
    for rec in proj.read_log(log):
        argv = rec.get('argv') or []
        if '-c' in argv or '-o' not in argv:
            continue
        i = len(argv) - 1 - argv[::-1].index('-o')
        if i + 1 >= len(argv):
            continue
        tgt = os.path.normpath(os.path.join(rec['cwd'], argv[i + 1]))
        out[os.path.relpath(tgt, bld)] = rec
    return out


def libs_on_line(rec, bld, prj=None):
    """Ordered [(entry, whole?)] of the library arguments of a link record:
    .a/.so files as paths relative to the build dir, -l<name> as written."""
    out = []
    whole = False
    skip = False
    for a in rec['argv'][1:]:
        if skip or a == '-o':
            skip = (a == '-o')      # the output file is not an input
            continue
        if a == '-Wl,--whole-archive':
            whole = True
        elif a == '-Wl,--no-whole-archive':
            whole = False
        elif re.match(r'-l\w', a):
            out.append((a, whole))
        elif re.search(r'\.(a|so)$', a) and not a.startswith('-'):
            p = os.path.relpath(os.path.normpath(os.path.join(rec['cwd'], a)), bld)
            out.append((prj.canon(p) if prj else p, whole))
    return out


def _positions(line):
    pos = {}
    for k, (p, _) in enumerate(line):
        pos.setdefault(p, []).append(k)
    return pos


def _static_positions(prj, node_ids, pos):
    out = []
    for p, (i, v) in prj.outputs.items():
        if i in node_ids and v == 'static' and p in pos:
            out += pos[p]
    return out


def explain_undefined(prj, bld, recs, target, sym, wit):
    """Why is `sym` undefined when linking `target`?  Uses only the recorded
    link lines and the generator's model.  -> subclass string."""
    m = re.match(r'^([fg])_n(\d+)$', sym)
    if m:
        role, owner = m.group(1), int(m.group(2))
        owner_files = [p for p, (i, v) in prj.outputs.items() if i == owner]
        owner_static = [p for p in owner_files if prj.outputs[p][1] == 'static']
        users = set(prj.callers_of(owner, role))
        wit['owner_kind'] = prj.nodes[owner]['kind']
    elif sym == 'sqrt':
        owner_files, owner_static = ['-lm'], ['-lm']
        users = {n['id'] for n in prj.case['nodes']
                 if any(t['sqrt'] for t in n['tus'])}
        wit['owner_kind'] = 'system-shared'
    elif re.search(r'operator|__cxa|__gxx|std::', sym):
        return 'c++-runtime-missing'
    else:
        return 'foreign-symbol'

    def explain_on(line_target):
        """provider-before-user on this link line?  -> (line, bool)"""
        line = libs_on_line(recs[line_target], bld, prj)
        pos = _positions(line)
        owner_pos = [k for p in owner_files for k in pos.get(p, [])]
        user_pos = _static_positions(prj, users, pos)
        return line, pos, bool(owner_pos and user_pos and
                               max(owner_pos) < max(user_pos))

    def found(line, pos, where):
        wit['explained_on'] = where
        wit['link_libs'] = [p for p, _ in line]
        wit['order'] = ('the only occurrence of the provider precedes an '
                        'archive that needs it')
        wit['provider_kind'] = ('static' if any(p in pos for p in owner_static)
                                and owner_files[0] != '-lm' else 'shared')
        return 'provider-before-user'

    line, pos, hit = explain_on(target)
    if hit:
        return found(line, pos, target)
    # the reference may come from a project shared library whose own link left
    # the symbol open although its provider was on that line
    for p, _ in line:
        if prj.outputs.get(p, (0, ''))[1] != 'shared' or p not in recs:
            continue
        und = nm_symbols(os.path.join(bld, p)).get(sym)
        if not und or und[0] != 'U':
            continue
        iline, ipos, hit = explain_on(p)
        if hit:
            wit['incomplete_shared_library'] = p
            return found(iline, ipos, p)
    wit['explained_on'] = target
    if any(p in pos for p in owner_files):
        return 'provider-on-line-unexplained'
    if sym == 'sqrt':
        return 'system-lib-not-forwarded'
    if prj.nodes[owner]['kind'] == 'whole' or prj.nodes[owner].get('as_whole'):
        for p, _ in line:
            if prj.outputs.get(p, (0, ''))[1] == 'shared':
                wn = prj.nodes[prj.outputs[p][0]]
                if owner in wn['deps']:
                    d = nm_symbols(os.path.join(bld, p)).get(sym)
                    if not d or d[0] not in 'Tt':
                        wit['whole_user'] = p
                        return 'whole-archive-not-included'
    return 'not-forwarded'


def attribute_link_failure(prj, bld, scratch, target, recs, res):
    """Re-run the failed link in isolation and explain its undefined symbols with
    the model.  -> (mechanism, witness) or None when it cannot be reproduced."""
    rec = recs.get(target)
    if rec is None:
        return None
    argv = list(rec['argv'])
    tool = os.path.basename(argv[0])
    if tool.startswith('vwrap-'):
        tool = tool[len('vwrap-'):]
    i = len(argv) - 1 - argv[::-1].index('-o')
    argv[i + 1] = os.path.join(scratch, 'relink.out')
    rc, out = core.run([tool] + argv[1:], cwd=rec['cwd'], env=core.base_env(),
                       timeout=120)
    res.ev('link:rerun-isolated')
    if rc == 0:
        return ('link', 'failed-only-in-parallel-build'), {'target': target}
    syms = undefined_symbols(out)
    nid, var = prj.outputs[target]
    wit = {'target': target, 'context': var, 'target_kind': prj.nodes[nid]['kind'],
           'undefined': syms[:8],
           'link_libs': [p for p, _ in libs_on_line(rec, bld, prj)],
           'linker_says': out[-600:]}
    if not syms:
        return ('link', 'failed', classify_build_text(out)), wit
    sym = syms[0]
    wit['symbol'] = sym
    nf = re.search(r'warning: (\S+), needed by (\S+), not found', out)
    if nf and os.path.basename(nf.group(1)) in prj.shared_names:
        # ld could not follow a project library's own NEEDED entry
        by = os.path.relpath(os.path.normpath(os.path.join(rec['cwd'], nf.group(2))),
                             bld)
        wit.update(not_found=nf.group(1), needed_by=by,
                   needed_by_runpath=readelf_dynamic(
                       os.path.join(bld, by))['runpath'] if
                   os.path.isfile(os.path.join(bld, by)) else None)
        return ('link', 'undefined-reference', 'needed-library-not-found-at-link'), wit
    sub = explain_undefined(prj, bld, recs, target, sym, wit)
    return ('link', 'undefined-reference', sub), wit


def run_case(case):
    res = CaseResult()
    res.evaluations = 1
    prj = Project(case)
    mode = prj.mode
    compiler = case['compiler']
    backend = case.get('backend', 'make')
    mname = gen.mode_name(mode)
    dag_digest = core.digest(case['nodes'])
    depth = gen.depth(case)
    outdirs = {os.path.dirname(p) for p in prj.outputs}
    res.key([dag_digest, mname, compiler, backend], depth >= 3 and len(outdirs) >= 2)
    res.classes.update(['mode:' + mname, 'compiler:' + compiler, 'backend:' + backend])
    for n in case['nodes']:
        res.classes.add('kind:' + n['kind'])
        for tu in n['tus']:
            res.classes.add('lang:' + tu['lang'])
        for d in n['deps']:
            res.classes.add('edge:%s->%s' % (n['kind'], prj.nodes[d]['kind']))
    _, printed = gen.values(case)
    base_wit = {'dag': case['dag'], 'mode': mname, 'compiler': compiler,
                'backend': backend, 'nodes': len(case['nodes'])}
    seen_mech = set()

    def violate(mech, wit):
        res.ev('violation:' + '/'.join(mech))
        if mech in seen_mech:
            return
        seen_mech.add(mech)
        w = dict(base_wit)
        w.update(wit)
        res.violate(mech, w)

    caps = calibrate(compiler)
    for cap, ok in caps.items():
        if not ok and cap != 'libm_needed' and not cap.startswith('info:'):
            res.exclude('calibration:%s:%s-unobservable' % (compiler, cap))

    scratch = core.mkscratch('c14')
    try:
        src = os.path.join(scratch, 'src')
        bld = os.path.join(scratch, 'bld')
        log = os.path.join(scratch, 'vstub.log')
        proj.write_tree(src, gen.render(case))
        tc = proj.real_toolchain_env(log=log, compiler=compiler, wrap=True)
        tc['VSTUB_ENVKEYS'] = 'LD_LIBRARY_PATH'
        env = core.base_env(extra=tc)
        rc, out = proj.configure(src, bld, backend, args=gen.mode_args(mode), env=env)
        res.ev('configure')
        res.ev('configure:' + backend)
        if rc != 0:
            label = classify_configure(out)
            if mode == (False, False) and gen.has_library_nodes(case) and \
               label == 'modes-disabled':
                res.ev('both-disabled:rejected')
                if 'Traceback (most recent call last)' not in out:
                    res.ev('both-disabled:rejected-cleanly')
                else:
                    res.notes.append('both-disabled rejection printed a traceback')
                return res
            violate(('configure', 'failed', label),
                    {'output': out[-800:], 'rc': rc})
            return res
        res.ev('configure:ok')
        if mode == (False, False):
            res.ev('both-disabled:configured')

        # every other case first asks for ONE executable by name, from the clean tree: its
        # libraries are then built as prerequisites of that target (and under Make inherit its
        # target-specific variables), not as members of `all`
        single = None
        exes_first = sorted(p for p, (i, v) in prj.outputs.items() if v == 'exe')
        if exes_first and case.get('single_first', core.digest(case['nodes'])[0] in '01234567'):
            one = exes_first[len(exes_first) // 2]
            rc1, out1 = proj.build(bld, backend, targets=[one], env=env,
                                   extra=(['-k'] if backend == 'make' else ['-k', '0']),
                                   timeout=600)
            res.ev('build:single-target-first')
            single = (one, rc1, out1)
        rc, out = proj.build(bld, backend, targets=['all'], env=env,
                             extra=(['-k', '-j4'] if backend == 'make' else ['-k', '0']),
                             timeout=600)
        res.ev('build')
        missing = [p for p in sorted(prj.outputs) if
                   not os.path.isfile(os.path.join(bld, p))]
        for ln, real in sorted(prj.links.items()):
            res.ev('versioned:symlink-checked')
            full = os.path.join(bld, ln)
            if real not in missing and not (
                    os.path.islink(full) and not os.path.isabs(os.readlink(full))
                    and os.path.isfile(full)):
                violate(('versioned', 'symlink-missing-or-absolute'),
                        {'link': ln, 'real': real,
                         'target': os.readlink(full) if os.path.islink(full) else None})
        if single and single[1] != 0 and rc == 0 and not missing:
            # the whole project builds, the same executable asked for by name did not
            violate(('build', 'single-target-failed', classify_build_text(single[2])),
                    {'target': single[0], 'rc': single[1], 'output': single[2][-1200:]})
        if rc == 0 and not missing:
            res.ev('build:ok')
            res.ev('build:ok:' + backend)
            if mode == (False, False):
                res.ev('both-disabled:built')
        else:
            res.ev('build:failed')
            recs = link_records(log, bld)
            explained = False
            for p in missing:
                if prj.outputs[p][1] == 'static' or p not in recs:
                    continue          # blocked by a failed prerequisite (make -k)
                got = attribute_link_failure(prj, bld, scratch, p, recs, res)
                if got:
                    explained = True
                    violate(*got)
            if not explained:
                violate(('build', 'failed', classify_build_text(out)),
                        {'rc': rc, 'missing': missing[:6], 'output': out[-1200:]})

        # ---- static inspection of everything that was linked
        have = [(p, i, v) for p, i, v in prj.dynamic()
                if os.path.isfile(os.path.join(bld, p))]
        scratch_real = os.path.realpath(core.scratch_root())
        elf = {}
        for p, nid, var in have:
            full = os.path.join(bld, p)
            info = readelf_dynamic(full)
            elf[p] = info
            res.ev('elf:inspected')
            wit = {'binary': p, 'context': var, 'binary_kind': prj.nodes[nid]['kind'],
                   'runpath': info['runpath'], 'needed': info['needed']}
            for nd in info['needed']:
                if '/' in nd:
                    violate(('needed', 'path-instead-of-soname'), dict(wit, entry=nd))
            if var == 'shared':
                res.ev('soname:checked')
                if info['soname'] != prj.soname[p]:
                    violate(('soname', 'missing-or-wrong'),
                            dict(wit, soname=info['soname']))
            for e in info['runpath']:
                if origin_rel(e) is not None:
                    res.ev('rpath:origin-entry')
                elif os.path.isabs(e):
                    er = os.path.realpath(e)
                    if er == scratch_real or er.startswith(scratch_real + os.sep) \
                       or e.startswith(core.scratch_root()):
                        violate(('rpath', 'absolute-build-path'), dict(wit, entry=e))
                    else:
                        res.ev('rpath:system-entry')
                else:
                    violate(('rpath', 'relative-to-cwd'), dict(wit, entry=e))
            if caps['origin']:
                here = os.path.dirname(full)
                for nd in info['needed']:
                    if nd not in prj.shared_names:
                        continue
                    found = False
                    for e in info['runpath']:
                        rel = origin_rel(e)
                        if rel is not None and os.path.isfile(
                                os.path.normpath(os.path.join(here, rel, nd))):
                            found = True
                            break
                    if found:
                        res.ev('rpath:needed-resolved')
                    else:
                        violate(('rpath', 'project-library-unreachable'),
                                dict(wit, entry=nd))

            # ---- what must have been forwarded to this link
            node = prj.nodes[nid]
            recv = gen.must_receive(case, nid)
            syms = None
            if recv or node['lopt']:
                syms = nm_symbols(full)
            for sid, got_ in sorted(recv.items()):
                chain = got_['chain']
                sn = prj.nodes[sid]
                res.ev('forward:static-received')
                if len(chain) > 2:
                    res.ev('forward:static-received-transitively')
                fw = dict(wit, forwarded_from=sn['name'], forwarded_kind=sn['kind'],
                          chain_kinds=[prj.nodes[c]['kind'] for c in chain])
                if got_['whole'] and caps['whole']:
                    want = [t['sym'] for t in sn['tus']]
                    lack = [s for s in want if syms.get(s, ('?',))[0] not in 'Tt']
                    if lack:
                        violate(('whole-archive', 'member-missing',
                                 'direct' if len(chain) == 2 else 'forwarded'),
                                dict(fw, lacking=lack))
                    else:
                        res.ev('whole:members-present')
                if sn['lopt'] and caps['defsym']:
                    got = syms.get(gen.lopt_symbol(sn))
                    if got != ('A', int(sn['lopt'], 16)):
                        violate(('forward', 'link-option-missing',
                                 'direct' if len(chain) == 2 else 'transitive'),
                                dict(fw, symbol=gen.lopt_symbol(sn), got=got))
                    else:
                        res.ev('lopt:forwarded-present')
                if sn['sysm_pos'] is not None and \
                   any(x.startswith('libm.so') for x in info['needed']):
                    res.ev('sysm:needed-libm')
            if node['lopt'] and caps['defsym'] and (
                    node['kind'] in ('exe', 'shared') or
                    (node['kind'] == 'library' and mode == (True, False))):
                got = syms.get(gen.lopt_symbol(node))
                if got != ('A', int(node['lopt'], 16)):
                    violate(('link-option', 'own-missing'),
                            dict(wit, symbol=gen.lopt_symbol(node), got=got))
                else:
                    res.ev('lopt:own-present')

        # ---- run, move, run again
        exes = [(p, nid) for p, nid, var in have if var == 'exe']

        def run_all(root, phase):
            for p, nid in exes:
                full = os.path.join(root, p)
                want = str(printed[nid])
                forms = [('builddir', root, './' + p),
                         ('owndir', os.path.dirname(full), './' + os.path.basename(p)),
                         ('elsewhere', '/', full)]
                for form, cwd, argv0 in forms:
                    rc, out = run_exe(full, cwd, argv0)
                    name = phase if phase == 'moved' else form
                    if phase == 'moved':
                        res.ev('exe:run-moved')
                    else:
                        res.ev('exe:run-' + form)
                    if rc != 0 or out.strip() != want:
                        info = elf.get(p, {})
                        violate(('run', classify_run(rc, out), name),
                                {'binary': p, 'rc': rc, 'output': out[-400:],
                                 'expected': want, 'cwd_form': form,
                                 'runpath': info.get('runpath'),
                                 'needed': info.get('needed')})
                    else:
                        res.ev('exe:ok-' + name)

        run_all(bld, 'inplace')
        moved = os.path.join(scratch, 'relocated', 'deeper', 'bld2')
        os.makedirs(os.path.dirname(moved))
        os.rename(bld, moved)
        res.ev('builddir:moved')
        run_all(moved, 'moved')

        if res.sample is None:
            res.sample = {'dag': case['dag'], 'mode': mname, 'compiler': compiler,
                          'backend': backend,
                          'outputs': sorted(prj.outputs),
                          'toolchain_calibration': caps,
                          'expected_output': {prj.nodes[i]['name']: v
                                              for i, v in printed.items()},
                          'build_bfg': gen.render(case)['build.bfg']}
        return res
    finally:
        core.rmtree(scratch)
