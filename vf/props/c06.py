"""C06 - Make, Ninja and compile_commands.json describe the same build."""
import json
import os
import shlex

from .. import core, proj
from ..core import CaseResult
from ..gen import dag, dagrun

LEVEL = 'translation_validation'
MODE = 'thread'
RULE = ('seeded random build-graph specs (vf/gen/dag.py) x configure options (library modes, '
        'install dirs, CFLAGS/LDFLAGS-style environment, global options); each spec is configured '
        'once per back end from the same tree and environment, both build files are executed with '
        'the recording stub tool chain and compared step by step, together with the parsed '
        'compile_commands.json; distinct = (graph shape hash, option set); non-trivial = the '
        'script has >= 6 steps')
ASSUMPTIONS = [
    'Ninja side evaluated and executed by vf/ref/refninja.py',
    'documented back-end differences are whitelisted by exact token: Ninja-only '
    '-fdiagnostics-color / -fcolor-diagnostics; a leading ./ that bfg9000 prepends to bare '
    'build-dir names in shell contexts; Make-only depfixer and stamp/mkdir helper commands '
    '(not stub steps, hence invisible)',
]
DOCUMENTED_NINJA_ONLY = ('-fdiagnostics-color', '-fcolor-diagnostics')
EXTRA_COVERAGE = {
    'programs': lambda tier, ev: ev.get('programs', 0),
    'disagreements_checked': lambda tier, ev: (ev.get('steps-compared', 0) +
                                               ev.get('compdb-entries-compared', 0) +
                                               ev.get('touch-sets-compared', 0) +
                                               ev.get('env-compared', 0)),
    'explanation': 'each program (generated build.bfg + option set) is translated to a Makefile, a '
                   'build.ninja and a compile_commands.json; the translations are validated against '
                   'each other by executing both build files with recording stubs',
}


def floors(tier):
    return {'steps-compared': 150, 'compdb-entries-compared': 60, 'programs': 10,
            'touch-sets-compared': 20, 'env-compared': 10}


def cases(tier, seed):
    n = 36 if tier == 'quick' else 300
    for i in range(n):
        rng = core.rng_for(seed, 'c06', i)
        spec = dag.gen_spec(rng)
        opts = {'args': [], 'env': {}, 'global': []}
        if rng.random() < 0.5:
            opts['args'] += rng.choice([['--enable-static'], ['--disable-shared', '--enable-static'],
                                        ['--enable-shared']])
        if rng.random() < 0.4:
            opts['args'] += ['--prefix', '/opt/x y', '--libdir', 'lib64']
        if rng.random() < 0.5:
            opts['env']['CFLAGS'] = rng.choice(['-O2', '-O2 -g', "-DA='b c'"])
        if rng.random() < 0.3:
            opts['env']['CPPFLAGS'] = '-DCPP=1'
        if rng.random() < 0.4:
            opts['env']['LDFLAGS'] = rng.choice(['-Wl,--as-needed', '-L/x -s'])
        if rng.random() < 0.3:
            opts['env']['LDLIBS'] = '-lm'
        if rng.random() < 0.4:
            opts['global'] = rng.choice([['-Wall'], ['-DG=1', '-Wextra'], ["-DH=a b"]])
        yield {'spec': spec, 'opts': opts, 'index': i,
               'touch_seed': '%d/%d' % (seed, i), 'ntouch': 3 if tier == 'quick' else 8}


def _strip_dot(a):
    import re
    return re.sub(r'^(-[IL]|-isystem|-include)?\./(?=.)', r'\1', a)


def norm_argv(argv, backend):
    out = []
    for a in argv:
        if backend == 'ninja' and a in DOCUMENTED_NINJA_ONLY:
            continue
        out.append(_strip_dot(a))
    return out


def by_step(p, recs):
    d = {}
    sids, unknown = p.classify(recs)
    # classify drops unknown records; rebuild the mapping record by record
    for r in recs:
        s, u = p.classify([r])
        if s and s[0] != 'doppel':
            d.setdefault(s[0], []).append(r)
    return d, unknown


def parse_compdb_entry(e):
    """-> (env dict, [argv lists])"""
    if 'arguments' in e:
        return {}, [list(e['arguments'])]
    toks = shlex.split(e['command'])
    segs = [[]]
    for t in toks:
        if t == '&&':
            segs.append([])
        else:
            segs[-1].append(t)
    env = {}
    cmds = []
    for s in segs:
        if s and s[0] == 'export' and len(s) == 2 and '=' in s[1]:
            k, v = s[1].split('=', 1)
            env[k] = v
        else:
            cmds.append(s)
    return env, cmds


def run_case(case):
    res = CaseResult()
    spec, opts = case['spec'], case['opts']
    import copy
    spec = copy.deepcopy(spec)
    # what a library() node is depends on how the project is configured
    dag.set_mode(spec, *dag.mode_of_args(opts['args']))
    root = core.mkscratch('c06')
    projs = {}
    wb = {'index': case.get('index'), 'opts': opts}
    try:
        for backend in ('make', 'ninja'):
            p = dagrun.Project(spec, backend, root=os.path.join(root, backend),
                               conf_args=opts['args'], extra_env=opts['env'])
            p.materialise()
            if opts['global']:
                bfg = os.path.join(p.src, 'build.bfg')
                with open(bfg) as f:
                    txt = f.read()
                with open(bfg, 'w') as f:
                    f.write("global_options(%r, lang='c')\n" % (opts['global'],) + txt)
            projs[backend] = p
        rcs = {}
        for backend, p in projs.items():
            rcs[backend] = p.configure()
        if (rcs['make'][0] == 0) != (rcs['ninja'][0] == 0):
            res.violate(('configure-disagrees',),
                        dict(wb, make=rcs['make'][1][-600:], ninja=rcs['ninja'][1][-600:]))
            return res
        if rcs['make'][0] != 0:
            # both refuse (e.g. a library mode the script cannot satisfy): agreement
            res.ev('programs:both-refuse')
            res.evaluations = 1
            return res
        res.ev('programs')
        res.evaluations = 1
        m = projs['make'].model
        res.key([m.shape(), opts['args'], sorted(opts['env']), opts['global']],
                len(m.steps) >= 6)

        recs = {}
        for backend, p in projs.items():
            rc, out, r = p.build(['everything'])
            if rc != 0:
                res.violate((backend, 'everything-build-failed'), dict(wb, output=out[-1200:]))
                return res
            recs[backend] = by_step(p, r)
        # (a) same set of steps ran / same files exist
        sm, sn = set(recs['make'][0]), set(recs['ninja'][0])
        if sm != sn:
            res.violate(('step-sets-differ',),
                        dict(wb, only_make=sorted(sm - sn), only_ninja=sorted(sn - sm)))
        um = [u for u in recs['make'][1]]
        un = [u for u in recs['ninja'][1]]
        if um or un:
            res.violate(('unmodelled-step',), dict(wb, make=um[:4], ninja=un[:4]))

        def products(p):
            out = set()
            for d, ds, fs in os.walk(p.bld):
                for n in fs:
                    rel = os.path.relpath(os.path.join(d, n), p.bld)
                    if rel in ('Makefile', 'build.ninja', 'compile_commands.json') or \
                       n.startswith('.') or n.endswith(('.d', '.stamp')) or n == 'everything':
                        continue
                    out.add(rel)
            return out
        fm, fn = products(projs['make']), products(projs['ninja'])
        if fm != fn:
            res.violate(('products-differ',),
                        dict(wb, only_make=sorted(fm - fn)[:10], only_ninja=sorted(fn - fm)[:10]))
        # (b) per step: argv, cwd, env
        for sid in sorted(sm & sn):
            a = recs['make'][0][sid]
            b = recs['ninja'][0][sid]
            res.ev('steps-compared')
            if len(a) != 1 or len(b) != 1:
                res.violate(('step-ran-more-than-once',),
                            dict(wb, step=sid, make=len(a), ninja=len(b)))
                continue
            ra, rb = a[0], b[0]
            va = norm_argv(ra['argv'], 'make')
            vb = norm_argv(rb['argv'], 'ninja')
            va = [x.replace(projs['make'].root, '@') for x in va]
            vb = [x.replace(projs['ninja'].root, '@') for x in vb]
            kind = m.steps[sid]['kind']
            if va != vb:
                res.violate(('argv-differs', kind), dict(wb, step=sid, make=va, ninja=vb))
            ca = os.path.relpath(ra['cwd'], projs['make'].bld)
            cb = os.path.relpath(rb['cwd'], projs['ninja'].bld)
            if ca != cb:
                res.violate(('cwd-differs', kind), dict(wb, step=sid, make=ca, ninja=cb))
            if ra['env'].get('VF_E') != rb['env'].get('VF_E'):
                res.violate(('env-differs', kind),
                            dict(wb, step=sid, make=ra['env'].get('VF_E'),
                                 ninja=rb['env'].get('VF_E')))
            want_env = m.byid[m.steps[sid]['node']].get('env')
            if want_env is not None or ra['env'].get('VF_E') is not None:
                res.ev('env-compared')
                if m.byid[m.steps[sid]['node']].get('oneline'):
                    res.ev('env-compared:compound-shell-line')
                if ra['env'].get('VF_E') != want_env:
                    res.violate(('env-differs-from-script', kind),
                                dict(wb, step=sid, script=want_env, make=ra['env'].get('VF_E')))
        # (d) compile_commands.json against the Make records
        for backend, p in projs.items():
            path = os.path.join(p.bld, 'compile_commands.json')
            try:
                with open(path) as f:
                    db = json.load(f)
            except (OSError, ValueError) as e:
                res.violate((backend, 'compdb-unreadable'), dict(wb, error=repr(e)))
                continue
            seen_outputs = set()
            for e in db:
                if 'output' not in e:
                    continue
                res.ev('compdb-entries-compared')
                outp = os.path.normpath(os.path.join(e['directory'], e['output']))
                rel = os.path.relpath(outp, p.bld)
                sid = m.producer.get('B:' + rel)
                # a versioned shared library has three entries (link step + two symlink
                # steps) and names the link step's output by its public (development-link)
                # name: an entry belongs to the step of that chain whose command it carries
                chain = []
                c = sid
                while c is not None:
                    chain.append(c)
                    c = m.producer.get(sorted(m.steps[c]['in'])[0]) \
                        if m.steps[c]['kind'] == 'symlink' else None
                env, cmds = parse_compdb_entry(e)
                got = [norm_argv(c, backend) for c in cmds]
                for c in chain:
                    if c in recs[backend][0] and \
                       norm_argv(recs[backend][0][c][0]['argv'], backend) in got:
                        sid = c
                        break
                if sid is None or sid not in recs[backend][0]:
                    res.violate((backend, 'compdb-entry-without-step'),
                                dict(wb, entry=e, step=sid))
                    continue
                seen_outputs.add(sid)
                rec = recs[backend][0][sid][0]
                want = norm_argv(rec['argv'], backend)
                if want not in got:
                    res.violate((backend, 'compdb-argv-differs', m.steps[sid]['kind']),
                                dict(wb, step=sid, compdb=got, ran=want))
                # the environment the entry sets for the step is the one the step ran with
                ran_env = rec['env'].get('VF_E')
                if ran_env is not None or env.get('VF_E') is not None:
                    res.ev('compdb-env-compared')
                    if env.get('VF_E') != ran_env:
                        res.violate((backend, 'compdb-env-differs', m.steps[sid]['kind']),
                                    dict(wb, step=sid, compdb=env.get('VF_E'), ran=ran_env))
                if os.path.normpath(e['directory']) != os.path.normpath(rec['cwd']):
                    res.violate((backend, 'compdb-directory-differs'),
                                dict(wb, step=sid, compdb=e['directory'], ran=rec['cwd']))
                # the entry's file is one of the step's inputs
                fpath = os.path.normpath(os.path.join(e['directory'], e['file']))
                ins = {os.path.normpath(p.path_of(f)) for f in m.steps[sid]['in']}
                if fpath not in ins:
                    res.violate((backend, 'compdb-file-not-an-input'),
                                dict(wb, step=sid, file=e['file']))
            # every compile step has an entry
            for sid, st in m.steps.items():
                if st['kind'] == 'compile' and sid not in seen_outputs:
                    res.violate((backend, 'compdb-missing-compile-step'), dict(wb, step=sid))
        # the two compdbs are the same modulo documented tokens and the build path
        try:
            dbs = {}
            for backend, p in projs.items():
                with open(os.path.join(p.bld, 'compile_commands.json')) as f:
                    txt = f.read().replace(p.root, '@')
                d = json.loads(txt)
                for e in d:
                    if 'arguments' in e:
                        e['arguments'] = [a for a in e['arguments']
                                          if a not in DOCUMENTED_NINJA_ONLY]
                    if 'command' in e:
                        for t in DOCUMENTED_NINJA_ONLY:
                            e['command'] = e['command'].replace(' ' + t, '')
                dbs[backend] = d
            if dbs['make'] != dbs['ninja']:
                diff = [(a, b) for a, b in zip(dbs['make'], dbs['ninja']) if a != b][:2]
                res.violate(('compdb-differs-between-backends',), dict(wb, first_diffs=diff,
                            lens=[len(dbs['make']), len(dbs['ninja'])]))
        except (OSError, ValueError):
            pass
        # (c) same rebuild sets after touching the same file
        rng = core.rng_for(0, 'c06touch', case['touch_seed'])
        cands = m.source_files() + [f for f in m.intermediate_files()
                                    if m.steps[m.producer[f]]['kind'] not in ('compile', 'copy', 'pch', 'symlink')]
        for f in (rng.sample(cands, case['ntouch']) if len(cands) > case['ntouch'] else cands):
            sets = {}
            for backend, p in projs.items():
                p.touch(f)
                rc, out, r = p.build(['everything'])
                sets[backend] = set(p.classify(r)[0])
            res.ev('touch-sets-compared')
            if sets['make'] != sets['ninja']:
                # symlink copies may legitimately differ (never required)
                diff = sets['make'] ^ sets['ninja']
                diff = {s for s in diff if m.steps.get(s, {}).get('kind') not in ('copy', 'symlink')}
                if diff:
                    res.violate(('rebuild-sets-differ',),
                                dict(wb, touched=f, only_make=sorted(sets['make'] - sets['ninja']),
                                     only_ninja=sorted(sets['ninja'] - sets['make'])))
        # (e) a step's command line depends neither on which target pulled it in nor on the
        # environment of the build tool: from a clean tree, one linked target is requested by
        # name, with compiler-flag variables set in the *build* environment only
        links = [nd for nd in spec['nodes'] if nd['kind'] in ('exe', 'dlib') and nd.get('libs')]
        rng2 = core.rng_for(0, 'c06single', case['touch_seed'])
        for nd in (rng2.sample(links, 2) if len(links) > 2 else links):
            target = dag.out_names(nd)[0]
            for backend, p in projs.items():
                rc, out = p.clean()
                if rc != 0:
                    break
                saved = p.env
                p.env = dict(saved, CFLAGS='-DVF_BUILD_ENV_LEAK', CPPFLAGS='-DVF_BUILD_ENV_CPP',
                             CXXFLAGS='-DVF_BUILD_ENV_CXX', LDFLAGS='-Wl,--vf-build-env-leak',
                             LDLIBS='-lvf_build_env_leak', ARFLAGS='q')
                try:
                    rc, out, r = p.build([target])
                finally:
                    p.env = saved
                if rc != 0:
                    res.violate((backend, 'single-target-build-failed'),
                                dict(wb, target=target, output=out[-800:]))
                    continue
                again = by_step(p, r)[0]
                for sid, rr in sorted(again.items()):
                    if sid not in recs[backend][0]:
                        continue
                    res.ev('single-target-steps-compared')
                    a0 = norm_argv(recs[backend][0][sid][0]['argv'], backend)
                    a1 = norm_argv(rr[0]['argv'], backend)
                    if a0 != a1:
                        res.violate((backend, 'argv-depends-on-requested-target-or-build-environment',
                                     m.steps[sid]['kind']),
                                    dict(wb, target=target, step=sid, in_full_build=a0,
                                         in_single_target_build=a1))
        res.sample = {'opts': opts, 'steps': len(m.steps),
                      'build.bfg': dag.render(spec)['build.bfg'][:1500]}
        return res
    finally:
        core.rmtree(root)
