"""C16 - Semantic options have their documented effect with the detected compiler.

Workload: generated projects in which every semantic option (opts.define, std,
include_dir / system include, warning, debug, optimize, pic, pthread, sanitize,
static, entry_point, lib, lib_dir, pch, gui) with every documented value is
placed in every place a build can put it (global_options, global_link_options,
executable(compile_options=/link_options=), object_file(options=), the
dedicated keyword arguments, static_library(link_options=) forwarding, a
toolchain file, CFLAGS/CXXFLAGS/CPPFLAGS/LDFLAGS/LDLIBS), for C and C++ with
gcc (and clang, plus gfortran singletons, in the thorough tier); singletons in
quick, all pairs of option values in thorough.  Real `bfg9000 configure` (Make back end), real
`make -k`, real compilers.

Oracle: behavioural probes of what was built (macros printed by the program,
readelf sections / program headers / entry point / DT_NEEDED, per-TU
diagnostics), compared with the same probes on a *hand-written* build of the same
sources with textbook flags (vf/ref/c16ref.py).  The hand-written build is the
calibration: if it fails or does not show the documented effect, the sub-case is
excluded; if leaving the flag out makes no observable difference the sub-case is
counted as weak (build must still succeed and match).
"""
import os
import re
import shlex

from .. import core, proj
from ..core import CaseResult
from ..ref import c16ref as R

LEVEL = 'exploration'
MODE = 'thread'
RULE = ('sub-case = language x compiler x 1 or 2 items (option, value, placement); '
        'quick: every option value in every valid placement alone (gcc; raw-flag '
        'placements alternate between C and C++ by seed); thorough: additionally '
        'clang, and every unordered pair of option values (placements drawn from '
        'the seed so that every placement pair class is covered), plus Fortran '
        'singletons; sub-cases that share their project-level settings are packed '
        'into one build.bfg (one configure, one make -k -j); distinct = (compiler, '
        'language, items); non-trivial = the calibration showed that omitting the '
        'flag changes the probe (strong), or it is a pair')
ASSUMPTIONS = [
    'the textbook flag table in vf/ref/c16ref.py (GCC manual) is the reference; every '
    'entry is calibrated on this machine before it is used as an expectation',
    'readelf/nm output of binutils is trusted for sections, program headers, symbols',
    'for two items of the same option with different values either order of '
    'precedence is accepted (the documentation does not define one)',
    'opts.sanitize() is documented as a compile option only; the link step gets a raw '
    '-fsanitize=address from the workload (without it the hand-written build fails '
    'too, which is recorded as an exclusion)',
    'toolchain-file compile_options()/link_options() *set* CFLAGS/LDFLAGS, so they are '
    'never combined with the same environment variable',
]
EXTRA_COVERAGE = {}

PACK = 8
MAKE_JOBS = 3


STRONG_KEYS = ['debug@compile', 'debug@link', 'define@compile', 'entry_point@link',
               'include@compile', 'lib@link', 'lib_dir@link', 'optimize@compile',
               'pch@compile', 'pic@compile', 'pthread@compile', 'sanitize@compile',
               'static@link', 'std@compile', 'sysinclude@compile',
               'warning@compile']


def floors(tier):
    f = {'strong:' + k: (2 if k.startswith('pch') else 4) for k in STRONG_KEYS}
    if tier == 'quick':
        f.update({'subcase:judged': 250, 'probe:strong': 180, 'build:make': 100,
                  'calibration:reference-build': 450,
                  'probe:pair-vs-reference': 50, 'multi:judged': 20,
                  'mix:judged': 10, 'libvar:judged': 16, 'envdir:judged': 24, 'directed:judged': 4,
                  'libvar:prebuilt-static-beside-shared': 4,
                  'mix:multi-then-single': 6,
                  'distinct_nontrivial': 180, 'lang:c': 120, 'lang:c++': 120})
    else:
        f.update({'subcase:judged': 3000, 'probe:strong': 500,
                  'probe:pair-vs-reference': 2200, 'build:make': 1000,
                  'calibration:reference-build': 4000,
                  'distinct_nontrivial': 2500, 'compiler:clang': 1200,
                  'lang:c': 1200, 'lang:c++': 1200, 'lang:f95': 100,
                  'mix:judged': 120, 'mix:multi-then-single': 60,
                  'libvar:judged': 60, 'envdir:judged': 24,
                  'libvar:prebuilt-static-beside-shared': 16})
    return f


# --------------------------------------------------------------------------
# catalogue

def fortran_atoms():
    c = [('define', 'none'), ('define', 'int'), ('std', 'f95'), ('std', 'f2003'),
         ('std', 'f2008'), ('include', '-')]
    c += [('warning', v) for v in ('disable', 'all', 'extra', 'error',
                                   'all+error', 'all+extra+error')]
    c += [('debug', '-')]
    c += [('optimize', v) for v in ('disable', 'size', 'speed', 'linktime',
                                    'speed+linktime')]
    c += [('pic', '-'), ('pthread', '-'), ('sanitize', '-'), ('static', '-')]
    l = [('debug', '-')]
    l += [('optimize', v) for v in ('disable', 'size', 'speed', 'linktime')]
    l += [('pthread', '-'), ('static', '-'), ('entry_point', '-'),
          ('lib', 'vfext'), ('lib', 'file'), ('lib_dir', '-'), ('gui', '-')]
    return ([(o, v, 'compile') for o, v in c] + [(o, v, 'link') for o, v in l])


def compile_atoms(lang, tier):
    a = [('define', v) for v in ('none', 'int', 'docstr', 'empty')]
    if lang == 'c':
        stds = ['c99', 'c11', 'gnu99']
        if tier == 'thorough':
            stds += ['c90', 'c17', 'gnu17']
    else:
        stds = ['c++11', 'c++17', 'gnu++14']
        if tier == 'thorough':
            stds += ['c++98', 'c++14', 'c++20']
    a += [('std', v) for v in stds]
    a += [('include', '-'), ('sysinclude', '-')]
    warns = ['disable', 'all', 'extra', 'error', 'all+error', 'all+extra+error']
    if tier == 'thorough':
        warns += ['all+extra', 'extra+error']
    a += [('warning', v) for v in warns]
    a += [('debug', '-')]
    optim = ['disable', 'size', 'speed', 'linktime', 'speed+linktime']
    if tier == 'thorough':
        optim += ['size+linktime']
    a += [('optimize', v) for v in optim]
    a += [('pic', '-'), ('pthread', '-'), ('sanitize', '-'), ('static', '-'),
          ('pch', '-'), ('pch', 'two-sources')]
    return a


def link_atoms(lang, tier):
    a = [('debug', '-')]
    a += [('optimize', v) for v in ('disable', 'size', 'speed', 'linktime',
                                    'speed+linktime')]
    a += [('pthread', '-'), ('static', '-'), ('entry_point', '-'),
          ('lib', 'm'), ('lib', 'vfext'), ('lib', 'file'), ('lib_dir', '-'),
          ('gui', '-')]
    return a


def places_for(opt, val, site):
    if site == 'compile':
        if opt == 'pch':
            return ['kwarg_c']
        p = ['global', 'target', 'object']
        if opt == 'raw':
            return p + ['toolchain', 'cflags']
        if opt in ('include', 'sysinclude'):
            p.append('kwarg_c')
        if opt != 'static':
            p += ['toolchain', 'cflags']
        if opt in ('define', 'include', 'sysinclude'):
            p.append('cppflags')
        return p
    p = ['global_link', 'link', 'fwd']
    if opt == 'entry_point' or (opt == 'lib' and val == 'file'):
        p.append('kwarg_l')
    if opt == 'gui':
        return p
    if opt == 'lib':
        return p + ['toolchain_libs', 'ldlibs']
    return p + ['toolchain_link', 'ldflags']


def all_atoms(lang, tier):
    if lang == 'f95':
        return fortran_atoms()
    return ([(o, v, 'compile') for o, v in compile_atoms(lang, tier)] +
            [(o, v, 'link') for o, v in link_atoms(lang, tier)])


def compatible(items):
    """Placement combinations the workload never produces (see ASSUMPTIONS)."""
    places = [i['place'] for i in items]
    if 'target' in places and 'object' in places:
        return False
    if 'toolchain' in places and 'cflags' in places:
        return False
    if 'toolchain_link' in places and 'ldflags' in places:
        return False
    if 'toolchain_libs' in places and 'ldlibs' in places:
        return False
    if places.count('shlib') and 'fwd' in places:
        return False
    opts = [i['opt'] for i in items]
    if opts.count('pch') > 1:
        return False
    if len(items) == 2 and items[0] == items[1]:
        return False
    # one -e per link; one library feature set per program
    if opts.count('entry_point') > 1:
        return False
    return True


def signature(items):
    return tuple(sorted((idx, i['place'], i['opt'], i['val'])
                        for idx, i in enumerate(items)
                        if i['place'] in R.PROJECT_PLACES))


def _item(opt, val, place):
    return {'opt': opt, 'val': val, 'place': place}


def multiplicity_lists(lang, tier='thorough'):
    I = _item
    s1, s2 = ('c99', 'c11') if lang == 'c' else ('c++11', 'c++17')
    out = [
        [I('sysinclude', '-', 'kwarg_c'), I('sysinclude', '-', 'kwarg_c')],
        [I('sysinclude', '-', 'target'), I('sysinclude', '-', 'target'),
         I('sysinclude', '-', 'target')],
        [I('sysinclude', '-', 'global'), I('sysinclude', '-', 'global')],
        [I('sysinclude', '-', 'object'), I('sysinclude', '-', 'kwarg_c')],
        [I('sysinclude', '-', 'kwarg_c'), I('sysinclude', '-', 'kwarg_c'),
         I('pch', '-', 'kwarg_c')],
        [I('include', '-', 'kwarg_c'), I('include', '-', 'kwarg_c')],
        [I('include', '-', 'target'), I('sysinclude', '-', 'target'),
         I('include', '-', 'target')],
        [I('define', 'int', 'target'), I('define', 'none', 'target'),
         I('define', 'docstr', 'target')],
        [I('define', 'dupA', 'target'), I('define', 'dupB', 'target')],
        [I('define', 'dupA', 'global'), I('define', 'dupB', 'target')],
        [I('raw', 'O3-O0-O3', 'target')], [I('raw', 'O0-O3-O0', 'object')],
        [I('raw', 'O3-O0-O3', 'global')], [I('raw', 'include2', 'target')],
        [I('raw', 'include2', 'global')], [I('raw', 'D1-D2', 'target')],
        [I('raw', 'include2', 'target'), I('pch', '-', 'kwarg_c')],
        [I('raw', 'O3-O0-O3', 'target'), I('pch', '-', 'kwarg_c')],
        [I('raw', 'include2', 'target'), I('pic', 'implicit', 'shlib')],
        [I('optimize', 'speed', 'cflags'), I('optimize', 'disable', 'global'),
         I('optimize', 'speed', 'target')],
        [I('optimize', 'disable', 'cflags'), I('optimize', 'speed', 'global'),
         I('optimize', 'disable', 'object')],
        [I('std', s1, 'cflags'), I('std', s2, 'global'), I('std', s1, 'target')],
        [I('warning', 'all+error', 'cflags'), I('warning', 'disable', 'global'),
         I('warning', 'all+error', 'target')],
    ]
    if tier == 'quick':
        # the cheaper half; every kind of multiplicity stays represented
        out = [out[i] for i in (0, 1, 2, 4, 5, 7, 8, 10, 13, 15, 16, 19, 21)]
    return out


def gen_subs(tier, seed):
    rng = core.rng_for(seed, 'c16', tier)
    subs = []
    compilers = ['gcc'] if tier == 'quick' else ['gcc', 'clang']
    # ---- singletons
    for compiler in compilers:
        flip = rng.random() < 0.5
        n = 0
        for lang in ('c', 'c++'):
            for opt, val, site in all_atoms(lang, tier):
                for place in places_for(opt, val, site):
                    if tier == 'quick' and place in R.RAW_PLACES:
                        # raw placements alternate between the languages
                        n += 1
                        if (n % 2 == 0) == (flip != (lang == 'c')):
                            continue
                    subs.append({'compiler': compiler, 'lang': lang,
                                 'items': [_item(opt, val, place)]})
            subs.append({'compiler': compiler, 'lang': lang,
                         'items': [_item('pic', 'implicit', 'shlib')]})
            # documented limitation made visible: sanitize without a link flag
            subs.append({'compiler': compiler, 'lang': lang,
                         'items': [_item('sanitize', 'nolink', 'target')]})
    # ---- Fortran singletons (gfortran), thorough only
    if tier == 'thorough':
        for opt, val, site in fortran_atoms():
            for place in places_for(opt, val, site):
                subs.append({'compiler': 'gcc', 'lang': 'f95',
                             'items': [_item(opt, val, place)]})
    # ---- quick: the implicit -fPIC of shared-library objects paired with every
    # compile-site option ON THE SAME shared_library target (options that are
    # forwarded to sibling steps - precompiled headers, includes ... - must
    # agree with it).  Per-target placements, so that they pack.
    if tier == 'quick':
        for compiler in compilers:
            for lang in ('c', 'c++'):
                n = 0
                for a in compile_atoms(lang, 'quick'):
                    if a == ('pch', 'two-sources') or a[0] in ('pic', 'static'):
                        continue
                    if a[0] == 'warning' and a[1] != 'all+error':
                        continue
                    pl = [x for x in places_for(a[0], a[1], 'compile')
                          if x in ('target', 'object', 'kwarg_c')]
                    n += 1
                    place = pl[(n + seed) % len(pl)]
                    subs.append({'compiler': compiler, 'lang': lang,
                                 'items': [_item(a[0], a[1], place),
                                           _item('pic', 'implicit', 'shlib')]})
    # ---- multiplicities: several values of one option kind (and repeated raw
    # tokens) reaching ONE compile step / one precompiled-header step, and the
    # same option at environment + global + target level (last level wins)
    for compiler in compilers:
        for lang in ('c', 'c++'):
            for items in multiplicity_lists(lang, tier):
                subs.append({'compiler': compiler, 'lang': lang, 'items': items})
    # ---- pairs
    if tier == 'thorough':
        for compiler in compilers:
            for lang in ('c', 'c++'):
                atoms = [a for a in all_atoms(lang, 'quick')
                         if a[:2] != ('pch', 'two-sources')]
                atoms.append(('pic', 'implicit', 'compile'))
                for ia in range(len(atoms)):
                    for ib in range(ia, len(atoms)):
                        a, b = atoms[ia], atoms[ib]
                        pa = (['shlib'] if a[1] == 'implicit'
                              else places_for(*a))
                        pb = (['shlib'] if b[1] == 'implicit'
                              else places_for(*b))
                        combos = [(x, y) for x in pa for y in pb]
                        rng.shuffle(combos)
                        for x, y in combos:
                            items = [_item(a[0], a[1], x), _item(b[0], b[1], y)]
                            if compatible(items):
                                subs.append({'compiler': compiler, 'lang': lang,
                                             'items': items})
                                break
    return subs


def cases(tier, seed):
    subs = gen_subs(tier, seed)
    flt = os.environ.get('VERIF_C16_FILTER')      # development aid only
    if not flt or re.search(flt, 'mixlang'):
        for case in gen_mix(tier, seed):
            yield case
    if not flt or re.search(flt, 'libvar'):
        for case in gen_libvar(tier, seed):
            yield case
    if not flt or re.search(flt, 'envdir'):
        for case in gen_envdir(tier, seed):
            yield case
    if not flt or re.search(flt, 'directed'):
        for case in gen_directed(tier, seed):
            yield case
    if flt:
        subs = [s for s in subs if re.search(flt, '%s %s %s' % (
            s['compiler'], s['lang'], describe(s['items'])))]
    groups = {}
    order = []
    for s in subs:
        key = (s['compiler'], signature(s['items']), s['lang'] == 'f95')
        if key not in groups:
            groups[key] = []
            order.append(key)
        groups[key].append(s)
    n = 0
    # the big packs (long, sequential reference builds) first, the many small
    # project-level groups after them, so that the tail of the run is short
    order.sort(key=lambda k: -len(groups[k]))
    for key in order:
        g = groups[key]
        for i in range(0, len(g), PACK):
            chunk = g[i:i + PACK]
            out = []
            for s in chunk:
                n += 1
                out.append({'tag': 't%04d' % n, 'lang': s['lang'],
                            'items': s['items']})
            yield {'compiler': key[0], 'subs': out}


# --------------------------------------------------------------------------
# rendering the bfg9000 side

def q(s):
    return repr(s)


def bfg_expr(item, idx, tag, src=''):
    opt, val = item['opt'], item['val']
    if opt == 'raw':
        return ', '.join(q(x.replace('@SRC@', src)) for x in R.RAW[val])
    if opt == 'define':
        name = R.def_name(idx, val)
        if val in ('dupA', 'dupB'):
            return 'opts.define(%s, %s)' % (q(name), q('1' if val == 'dupA' else '2'))
        return {'none': 'opts.define(%s)' % q(name),
                'int': 'opts.define(%s, %s)' % (q(name), q('42')),
                'docstr': 'opts.define(%s, %s)' % (q(name), q(R.DOCSTR)),
                'empty': 'opts.define(%s, %s)' % (q(name), q(''))}[val]
    if opt == 'std':
        return 'opts.std(%s)' % q(val)
    if opt == 'include':
        return "opts.include_dir(header_directory('inc%d'))" % idx
    if opt == 'sysinclude':
        return "opts.include_dir(header_directory('sys%d', system=True))" % idx
    if opt in ('warning', 'optimize'):
        return 'opts.%s(%s)' % (opt, ', '.join(q(v) for v in val.split('+')))
    if opt in ('debug', 'pic', 'pthread', 'sanitize', 'static', 'gui'):
        return 'opts.%s()' % opt
    if opt == 'entry_point':
        return "opts.entry_point('vf_alt_entry')"
    if opt == 'lib':
        return {'m': "opts.lib('m')", 'vfext': "opts.lib('vfext')",
                'file': "opts.lib(static_library('ext/libvfext.a'))"}[val]
    if opt == 'lib_dir':
        return "opts.lib_dir(directory('ext'))"
    raise ValueError(item)


def render_sub(sub, src):
    """-> (list of build.bfg lines for the targets, shape)"""
    tag, lang, items = sub['tag'], sub['lang'], sub['items']
    ext = R.LANGS[lang]['ext']
    f = R.features(items, lang)
    car = {'c': [], 'l': [], 'libs': []}
    for i, it in enumerate(items):
        k = R.carriers(it, i, src, lang)
        for key in car:
            for x in k[key]:
                if x not in car[key]:
                    car[key].append(x)
    shape = 'object' if any(i['place'] == 'object' for i in items) else 'target'
    c = [q(x) for x in car['c']]
    l = [q(x) for x in car['l']]
    if car['libs']:
        l.append("opts.lib('vfext')")
    fwd = []
    includes, kw_link = [], []
    pch = None
    for idx, it in enumerate(items):
        place = it['place']
        if place in ('target', 'object'):
            c.append(bfg_expr(it, idx, tag, src))
        elif place == 'link':
            l.append(bfg_expr(it, idx, tag))
        elif place == 'fwd':
            fwd.append(bfg_expr(it, idx, tag))
        elif place == 'kwarg_c':
            if it['opt'] == 'include':
                includes.append(q('inc%d' % idx))
            elif it['opt'] == 'sysinclude':
                includes.append("header_directory('sys%d', system=True)" % idx)
            elif it['opt'] == 'pch':
                pch = q(tag + '_pre.h')
        elif place == 'kwarg_l':
            if it['opt'] == 'entry_point':
                kw_link.append("entry_point='vf_alt_entry'")
            elif it['opt'] == 'lib':
                kw_link.append('__LIBFILE__')
    cl = '[' + ', '.join(c) + ']'
    ll = '[' + ', '.join(l) + ']'
    inc = ('includes=[' + ', '.join(includes) + ']') if includes else None
    lines = ['# ---- %s (%s): %s' % (tag, lang, '; '.join(
        '%s=%s@%s' % (i['opt'], i['val'], i['place']) for i in items))]
    libs = []
    files = [tag + '_m' + ext]
    if 'aux' in f:
        if 'shlib' in f:
            lines.append('%s_s = shared_library(%s, files=[%s], compile_options=%s%s%s)'
                         % (tag, q(tag + '_s'), q(tag + '_a' + ext), cl,
                            ', ' + inc if inc else '',
                            ', pch=' + q(tag + '_prea.h') if pch else ''))
            lines.append('vf_all.append(%s_s)' % tag)
            libs.append(tag + '_s')
        elif 'fwd' in f:
            lines.append('%s_l = static_library(%s, files=[%s], compile_options=%s, '
                         'link_options=[%s]%s)'
                         % (tag, q(tag + '_l'), q(tag + '_a' + ext), cl,
                            ', '.join(fwd), ', ' + inc if inc else ''))
            lines.append('vf_all.append(%s_l)' % tag)
            libs.append(tag + '_l')
        else:
            files.append(tag + '_a' + ext)
    if '__LIBFILE__' in kw_link:
        kw_link.remove('__LIBFILE__')
        libs.append(q('ext/libvfext.a'))
    ckw = [x for x in (inc, ('pch=' + pch) if pch else None) if x]
    lkw = list(kw_link)
    if libs:
        lkw.append('libs=[' + ', '.join(libs) + ']')
    if shape == 'target' and pch and len(files) > 1 and 'pch2' not in f:
        # the header is precompiled for the main TU only (as in the reference)
        first = 'object_file(file=%s, options=%s%s)' % (
            q(files[0]), cl, ''.join(', ' + x for x in ckw))
        lines.append('vf_all.append(executable(%s, files=[%s], compile_options=%s, '
                     'link_options=%s%s))'
                     % (q(tag), ', '.join([first] + [q(x) for x in files[1:]]), cl,
                        ll, ''.join(', ' + x for x in ([inc] if inc else []) + lkw)))
    elif shape == 'target':
        lines.append('vf_all.append(executable(%s, files=[%s], compile_options=%s, link_options=%s%s))'
                     % (q(tag), ', '.join(q(x) for x in files), cl, ll,
                        ''.join(', ' + x for x in ckw + lkw)))
    else:
        objs = []
        for n, fn in enumerate(files):
            extra = ckw if n == 0 else ([inc] if inc else [])
            objs.append('object_file(file=%s, options=%s%s)'
                        % (q(fn), cl, ''.join(', ' + x for x in extra)))
        lines.append('vf_all.append(executable(%s, files=[%s], link_options=%s%s))'
                     % (q(tag), ', '.join(objs), ll,
                        ''.join(', ' + x for x in lkw)))
    for key, suffix in R.extra_tus(f):
        fn = '%s%s%s' % (tag, suffix, ext)
        if shape == 'target' and lang != 'f95':
            lines.append('vf_all.append(executable(%s, files=[%s], compile_options=%s%s))'
                         % (q(tag + suffix), q(fn), cl,
                            ', ' + inc if inc else ''))
        else:
            lines.append('vf_all.append(object_file(file=%s, options=%s%s))'
                         % (q(fn), cl, ', ' + inc if inc else ''))
    return lines, shape


def render_project(case, src):
    """-> (build.bfg text, toolchain text|None, env additions, shapes)
    All sub-cases of a case share their project-level items (same index, place,
    option, value); they may differ in language."""
    compiler = case['compiler']
    env = {'CC': R.COMPILERS[compiler]['c'], 'CXX': R.COMPILERS[compiler]['c++'],
           'FC': R.COMPILERS[compiler]['f95']}
    lines = ['# C16 generated project', 'vf_all = []']
    langs = sorted(set(s['lang'] for s in case['subs']))
    first = case['subs'][0]
    tc_c, tc_l, tc_libs, envf = {}, [], [], {}
    for idx, it in enumerate(first['items']):
        place = it['place']
        if place not in R.PROJECT_PLACES:
            continue
        if place == 'global':
            for lang in langs:
                lines.append('global_options([%s], lang=%s)'
                             % (bfg_expr(it, idx, first['tag'], src), q(lang)))
            continue
        if place == 'global_link':
            lines.append('global_link_options([%s])'
                         % bfg_expr(it, idx, first['tag']))
            continue
        fl = R.ref_flags(it, idx, src)
        if place == 'toolchain':
            for lang in langs:
                tc_c.setdefault(lang, []).extend(fl['c'])
        elif place == 'cflags':
            for lang in langs:
                envf.setdefault(R.LANGS[lang]['flagsvar'], []).extend(fl['c'])
        elif place == 'cppflags':
            envf.setdefault('CPPFLAGS', []).extend(fl['c'])
        elif place == 'ldflags':
            envf.setdefault('LDFLAGS', []).extend(fl['l'])
        elif place == 'ldlibs':
            envf.setdefault('LDLIBS', []).extend(fl['libs'])
        elif place == 'toolchain_link':
            tc_l += fl['l']
        elif place == 'toolchain_libs':
            tc_libs += fl['libs']
    shapes = {}
    for sub in case['subs']:
        sl, shape = render_sub(sub, src)
        shapes[sub['tag']] = shape
        lines += sl
    lines.append('default(*vf_all)')
    toolchain = None
    if tc_c or tc_l or tc_libs:
        t = []
        for lang, fl in sorted(tc_c.items()):
            t.append('compile_options(%r, %r)' % (fl, lang))
        if tc_l:
            t.append('link_options(%r)' % (tc_l,))
        if tc_libs:
            t.append('lib_options(%r)' % (tc_libs,))
        toolchain = '\n'.join(t) + '\n'
    for var, fl in envf.items():
        env[var] = R.quote_join(fl)
    return '\n'.join(lines) + '\n', toolchain, env, shapes


# --------------------------------------------------------------------------
# judging

def _find(bld):
    index = {}
    for d, ds, fs in os.walk(bld):
        for n in fs:
            index.setdefault(n, os.path.join(d, n))
    return index


def bfg_layout(bld, index, sub, shape, make_out):
    tag, lang = sub['tag'], sub['lang']
    ext = R.LANGS[lang]['ext']
    f = R.features(sub['items'], lang)
    lay = {'exe': os.path.join(bld, tag),
           'main_obj': index.get(tag + '_m.o'), 'gch': None, 'lib': None,
           'w': {}}
    if 'pch' in f:
        cand = [p for n, p in index.items()
                if n.startswith(tag + '_pre.h.') and n.endswith(('.gch', '.pch'))]
        lay['gch'] = cand[0] if cand else os.path.join(bld, tag + '_pre.h.gch')
    if 'shlib' in f:
        lay['lib'] = os.path.join(bld, 'lib%s_s.so' % tag)
        if 'pch' in f:
            cand = [p for n, p in index.items()
                    if n.startswith(tag + '_prea.h.') and
                    n.endswith(('.gch', '.pch'))]
            lay['gch_a'] = cand[0] if cand else os.path.join(bld,
                                                             tag + '_prea.h.gch')
    for key, suffix in R.extra_tus(f):
        fn = '%s%s%s' % (tag, suffix, ext)
        lay['w'][key] = [('%s%s.o' % (tag, suffix)) in index,
                         R.diag_for(make_out, fn)]
    return lay


def tag_lines(make_out, tag, limit=12):
    out = [ln for ln in make_out.splitlines() if tag in ln]
    return [ln[:600] for ln in out[:limit]]


def rejected_flags(sub, compiler, make_out, refflags, env, scratch):
    """Which flag that bfg9000 put on this sub-case's command lines is refused
    by the compiler when given alone?  (mechanism = the root cause)"""
    cc = R.COMPILERS[compiler][sub['lang']]
    known = set(refflags['c'] + refflags['l'] + refflags['libs'])
    toks = []
    for ln in make_out.splitlines():
        if sub['tag'] not in ln or not ln.lstrip().startswith(
                (R.COMPILERS[compiler]['c'], R.COMPILERS[compiler]['c++'],
                 'gfortran', 'cc ', 'c++ ')):
            continue
        try:
            argv = shlex.split(ln)
        except ValueError:
            continue
        skip = False
        for a in argv[1:]:
            if skip:
                skip = False
                continue
            if a in ('-o', '-MF', '-x', '-include', '-isystem'):
                skip = True
                continue
            if a.startswith('-') and a not in known and a not in toks and \
                    not a.startswith(('-I', '-L', '-Wl,-rpath', '-Wl,-soname')) \
                    and a not in ('-c', '-MMD', '-shared'):
                toks.append(a)
    bad = []
    probe = os.path.join(scratch, 'rej_%s%s' % (sub['tag'],
                                                R.LANGS[sub['lang']]['ext']))
    with open(probe, 'w') as fh:
        fh.write('program p\nend program\n' if sub['lang'] == 'f95'
                 else 'int main(void) { return 0; }\n')
    out = os.path.join(scratch, 'rej_%s.out' % sub['tag'])
    rc0, _ = core.run([cc, probe, '-o', out], env=env, timeout=60)
    if rc0 == 0:
        for t in toks[:12]:
            rc, _ = core.run([cc, t, probe, '-o', out], env=env, timeout=60)
            if rc != 0:
                bad.append(t)
    for p in (probe, out):
        try:
            os.remove(p)
        except OSError:
            pass
    return bad


def describe(items):
    return '; '.join('%s=%s@%s' % (i['opt'], i['val'], i['place']) for i in items)


def flat(items):
    w = {}
    for n, it in enumerate(items):
        suf = '' if n == 0 else str(n + 1)
        w['opt' + suf] = it['opt']
        w['val' + suf] = it['val']
        w['place' + suf] = it['place']
        w['site' + suf] = R.site_of(it['place'])
    return w


def judge_sub(case, sub, shape, src, bld, refroot, index, make_out, env, res,
              configure_error=None):
    """Compare one sub-case with its hand-written reference.
    -> list of (mechanism, witness) (not yet minimised)"""
    compiler, tag, lang, items = case['compiler'], sub['tag'], sub['lang'], sub['items']
    runnable = not any(i['opt'] == 'entry_point' for i in items)
    shlib = any(i['place'] == 'shlib' for i in items)
    same_opt = len(items) == 2 and items[0]['opt'] == items[1]['opt']
    orders = [None] + ([[1, 0]] if same_opt else [])
    refs = []
    for n, order in enumerate(orders):
        fl = R.assemble(items, src, order=order, lang=lang)
        lay, log = R.reference_build(os.path.join(refroot, tag, 'r%d' % n), src,
                                     tag, lang, compiler, items, fl, env)
        res.ev('calibration:reference-build')
        ob = R.observe(lay, tag, runnable, env)
        refs.append((fl, lay, log, ob))
    label = '%s/%s' % (compiler, lang)
    usable = [r for r in refs if r[3]['built'] and r[3].get('run_rc') in (0, None)]
    if not usable:
        res.exclude('reference-build-fails: %s [%s]' % (describe(items), label))
        res.ev('calibration:excluded')
        return []
    single = len(items) == 1
    strong = not single
    if single:
        ab = R.absolute(items[0], 0, lang)
        ob = usable[0][3]
        lacking = [k for k, pred in ab.items() if not pred(ob.get(k))]
        if lacking:
            res.exclude('reference-lacks-documented-effect: %s %s [%s]'
                        % (describe(items), lacking, label))
            res.ev('calibration:excluded')
            return []
        asp = R.aspects(items[0], 0, lang)
        if asp:
            fl0 = R.assemble(items, src, drop=0, lang=lang)
            lay0, log0 = R.reference_build(os.path.join(refroot, tag, 'base'),
                                           src, tag, lang, compiler, items, fl0,
                                           env)
            res.ev('calibration:reference-build')
            ob0 = R.observe(lay0, tag, runnable, env)
            strong = (not ob0['built'] or ob0.get('run_rc') not in (0, None) or
                      any(ob0.get(k) != ob.get(k) for k in asp))
    keys = ['built', 'run_rc']
    for idx, it in enumerate(items):
        for k in R.aspects(it, idx, lang, shlib):
            if k not in keys:
                keys.append(k)

    res.ev('subcase:judged')
    if not single:
        res.ev('pair:judged')
    if len(items) > 2 or (len(items) == 2 and len(set(
            (i['opt'], i['place']) for i in items)) == 1) or \
            any(i['opt'] == 'raw' for i in items):
        res.ev('multi:judged')
    if single:
        res.ev('probe:strong' if strong else 'probe:weak')
        res.ev('%s:%s@%s' % ('strong' if strong else 'weak', items[0]['opt'],
                             R.site_of(items[0]['place'])))
    else:
        res.ev('probe:pair-vs-reference')
    res.ev('lang:' + lang)
    res.ev('compiler:' + compiler)
    for it in items:
        res.ev('opt:%s' % it['opt'])
        res.ev('place:%s' % it['place'])
        res.classes.add('%s=%s@%s' % (it['opt'], it['val'], it['place']))
    if not single:
        res.classes.add('placepair:' + '+'.join(sorted(i['place'] for i in items)))
    res.key([compiler, lang, [[i['opt'], i['val'], i['place']] for i in items]],
            strong)

    base_w = dict(flat(items), compiler=compiler, lang=lang, tag=tag,
                  items=describe(items), strong=strong)
    mini = {'compiler': compiler, 'subs': [sub]}
    if configure_error is not None:
        errs = [ln for ln in configure_error.splitlines()
                if ln.startswith('error:')]
        last = errs[0] if errs else (configure_error.strip().splitlines() or
                                     ['?'])[-1]
        kind = re.sub(r'^error:\s*(\S+\.bfg:\d+:\s*)?', '', last)
        kind = re.sub(r"<class '[^']*\.(\w+)'>", r'\1', kind)
        kind = re.sub(r'/\S+', '<path>', kind)
        kind = re.sub(r't\d{4}', 'TAG', kind)
        kind = re.sub(r'\.(gch|pch)\b', '.PCH', kind)[:70]
        mech = ('configure-failed',) + _mech_items(items) + (kind,)
        return [(mech, dict(base_w, stage='configure', error=last[:500],
                            reference_commands=_cmds(usable[0][2]),
                            __case__=mini))]
    lay = bfg_layout(bld, index, sub, shape, make_out)
    ob = R.observe(lay, tag, runnable, env)
    res.ev('probe:observed-bfg')
    best = None
    for fl, rlay, log, rob in usable:
        diff = [k for k in keys if ob.get(k) != rob.get(k)]
        if best is None or len(diff) < len(best[0]):
            best = (diff, fl, log, rob)
    diff, fl, log, rob = best
    if res.sample is None:
        res.sample = {'compiler': compiler, 'lang': lang, 'items': describe(items),
                      'strong': strong, 'aspects': keys,
                      'reference': {k: rob.get(k) for k in keys},
                      'bfg9000': {k: ob.get(k) for k in keys},
                      'bfg_commands': tag_lines(make_out, tag, 4),
                      'reference_commands': _cmds(log)[:4]}
    if not diff:
        return []
    wit = dict(base_w, differing=diff,
               expected={k: rob.get(k) for k in diff},
               observed={k: ob.get(k) for k in diff},
               bfg_commands=tag_lines(make_out, tag),
               reference_commands=_cmds(log), __case__=mini)
    if not ob['built'] or any(k in diff and isinstance(ob.get(k), list) and
                              ob.get(k)[1] == 'error' and rob.get(k)[1] != 'error'
                              for k in ('w0', 'w1', 'w2', 'w3')):
        bad = rejected_flags(sub, compiler, make_out, fl, env, refroot)
        if bad:
            wit['rejected_flag'] = bad[0]
            wit['stage'] = 'build'
            return [(('compiler-rejects-flag', bad[0]), wit)]
    if not ob['built']:
        wit['stage'] = 'build'
        return [(('build-failed',) + _mech_items(items), wit)]
    wit['stage'] = 'probe'
    wit['aspect'] = diff[0]
    return [(('effect-differs',) + _mech_items(items) + (_aspect_class(diff[0]),),
             wit)]


def _aspect_class(k):
    return re.sub(r'\d+$', '', k)


def _mech_items(items):
    out = ()
    for it in items:
        out += (it['opt'], it['val'], R.site_of(it['place']))
    return out


def _cmds(log):
    return [' '.join(shlex.quote(a) for a in e['argv'])[:600] +
            ('   # rc=%d' % e['rc'] if e['rc'] else '') for e in log]


# --------------------------------------------------------------------------
# running one project

def run_project(case, res, depth=0):
    """-> list of (mechanism, witness)"""
    compiler = case['compiler']
    root = core.mkscratch('c16')
    src, bld, refroot = (os.path.join(root, 'src'), os.path.join(root, 'bld'),
                         os.path.join(root, 'ref'))
    found = []
    try:
        os.makedirs(refroot)
        files = R.static_tree()
        for sub in case['subs']:
            files.update(R.render_sources(sub['tag'], sub['lang'], sub['items']))
        proj.write_tree(src, files)
        env0 = core.base_env()
        R.build_ext(src, R.COMPILERS[compiler]['c'], env0)
        bfg, toolchain, envadd, shapes = render_project(case, src)
        files2 = {'build.bfg': bfg}
        args = []
        if toolchain:
            files2['toolchain.bfg'] = toolchain
            args = ['--toolchain', os.path.join(src, 'toolchain.bfg')]
        proj.write_tree(src, files2)
        env = core.base_env(envadd)
        rc, out = proj.configure(src, bld, 'make', args=args, env=env)
        res.ev('build:configure')
        if rc != 0:
            if len(case['subs']) > 1:
                # isolate: one project per sub-case
                for sub in case['subs']:
                    found += run_project({'compiler': compiler, 'subs': [sub]},
                                         res, depth + 1)
                return found
            sub = case['subs'][0]
            found += judge_sub(case, sub, shapes[sub['tag']], src, bld, refroot,
                               {}, '', env0, res, configure_error=out)
            return found
        rc, mout = proj.build(bld, 'make', targets=['all'],
                              extra=['-k', '-j%d' % MAKE_JOBS, '-Otarget'],
                              env=env,
                              timeout=600)
        res.ev('build:make')
        index = _find(bld)
        for sub in case['subs']:
            found += judge_sub(case, sub, shapes[sub['tag']], src, bld, refroot,
                               index, mout, env0, res)
        return found
    finally:
        core.rmtree(root)


def minimise(case, mech, wit, res):
    """A failing pair: does one of its items fail alone in the same placement?"""
    sub = wit['__case__']['subs'][0]
    if len(sub['items']) < 2 or mech[0] == 'compiler-rejects-flag':
        return [(mech, wit)]
    out = []
    for n, it in enumerate(sub['items']):
        single = {'compiler': case['compiler'],
                  'subs': [{'tag': sub['tag'], 'lang': sub['lang'],
                            'items': [it]}]}
        scratch = CaseResult()
        got = run_project(single, scratch)
        res.ev('minimise:singleton-rerun')
        for m, w in got:
            w['found_in_pair'] = wit['items']
            out.append((m, w))
    return out or [(mech, wit)]


def run_case(case):
    res = CaseResult()
    if case.get('kind') == 'mixlang':
        return run_mix(case, res)
    if case.get('kind') == 'libvar':
        return run_libvar(case, res)
    if case.get('kind') == 'envdir':
        return run_envdir(case, res)
    if case.get('kind') == 'directed':
        return run_directed(case, res)
    res.evaluations = len(case['subs'])
    found = run_project(case, res)
    seen = set()
    for mech, wit in found:
        for m, w in minimise(case, mech, wit, res):
            key = (m, w.get('items'), w.get('lang'), w.get('compiler'))
            if key in seen:
                continue
            seen.add(key)
            res.violate(m, w)
    return res




# --------------------------------------------------------------------------
# mixed-language projects: sequences of global_options() calls
#
# One program made of a C and a C++ translation unit (in one target, or the C
# part in a sibling static_library).  build.bfg issues a sequence of
# global_options() calls - language lists and single languages in varying
# order, semantic options and raw strings, list and string form - optionally
# with per-target compile_options and CFLAGS/CXXFLAGS/CPPFLAGS.  Model: a
# translation unit of language L sees exactly the options of the calls whose
# `lang` names L (documented: "for the language (or list of languages) lang"),
# plus the target's and its language's environment flags.  Probe: each part of
# the program reports every macro name used anywhere in the case, and
# __STDC_VERSION__/__cplusplus, _REENTRANT, __OPTIMIZE__; compared with a
# hand-written gcc/g++ build with the model's flags.

MIX_STD = {'c': ['c99', 'c11', 'gnu99'], 'c++': ['c++14', 'c++17', 'gnu++14']}


def _mix_spec_flag(sp):
    k = sp['k']
    if k == 'define':
        return '-D' + sp['name'] + ('' if sp.get('val') is None
                                    else '=' + sp['val'])
    if k == 'std':
        return '-std=' + sp['val']
    if k == 'pthread':
        return '-pthread'
    if k == 'optimize':
        return '-O3'
    raise ValueError(sp)


def _mix_spec_expr(sp):
    if sp.get('raw'):
        return q(_mix_spec_flag(sp))
    k = sp['k']
    if k == 'define':
        return ('opts.define(%s)' % q(sp['name']) if sp.get('val') is None
                else 'opts.define(%s, %s)' % (q(sp['name']), q(sp['val'])))
    if k == 'std':
        return 'opts.std(%s)' % q(sp['val'])
    if k == 'pthread':
        return 'opts.pthread()'
    if k == 'optimize':
        return "opts.optimize('speed')"
    raise ValueError(sp)


def mix_pattern(calls):
    """Does the sequence contain a call naming >= 2 languages followed by a
    call naming only one?  (counted; the interesting aliasing shape)"""
    for i, c in enumerate(calls):
        if len(c['langs']) > 1 and any(len(d['langs']) == 1
                                       for d in calls[i + 1:]):
            return True
    return False


def _mix_random(rng, n):
    counter = [0]

    def define(raw=None):
        counter[0] += 1
        return {'k': 'define', 'name': 'VFG%d' % counter[0],
                'val': rng.choice([None, '1', '7', '42']),
                'raw': rng.random() < 0.35 if raw is None else raw}
    ncalls = rng.randint(2, 4)
    shapes = [['c', 'c++'], ['c++', 'c'], ['c'], ['c++']]
    calls = []
    have_std = set()
    for i in range(ncalls):
        langs = list(rng.choice(shapes))
        form = 'string' if rng.random() < 0.2 else 'list'
        specs = [define(raw=True if form == 'string' else None)
                 for _ in range(rng.randint(1, 2))]
        if form == 'list':
            if len(langs) == 1 and langs[0] not in have_std and rng.random() < 0.6:
                have_std.add(langs[0])
                specs.append({'k': 'std', 'val': rng.choice(MIX_STD[langs[0]]),
                              'raw': rng.random() < 0.3})
            if rng.random() < 0.3:
                specs.append({'k': rng.choice(['pthread', 'optimize']),
                              'raw': rng.random() < 0.3})
            rng.shuffle(specs)
        calls.append({'langs': langs, 'form': form, 'specs': specs})
    if not mix_pattern(calls) and rng.random() < 0.7:
        calls.insert(0, {'langs': ['c', 'c++'], 'form': 'list',
                         'specs': [define()]})
        calls.append({'langs': [rng.choice(['c', 'c++'])], 'form': 'list',
                      'specs': [define()]})
    case = {'calls': calls, 'target': [], 'env': {},
            'layout': rng.choice(['one-target', 'one-target', 'sibling'])}
    if rng.random() < 0.5:
        case['target'] = [dict(define(), name='VFT1')]
    if rng.random() < 0.5:
        for var, name in (('CFLAGS', 'VFEC'), ('CXXFLAGS', 'VFEX'),
                          ('CPPFLAGS', 'VFEP')):
            if rng.random() < 0.6:
                case['env'][var] = ['-D%s=%d' % (name, rng.randint(1, 9))]
    return case


def gen_mix(tier, seed):
    rng = core.rng_for(seed, 'c16mix', tier)

    def d(name, val=None, raw=False):
        return {'k': 'define', 'name': name, 'val': val, 'raw': raw}
    fixed = [
        [(['c', 'c++'], [d('VF_COMMON')]),
         (['c++'], [{'k': 'std', 'val': 'c++14'}, d('VF_ONLY_CXX')])],
        [(['c', 'c++'], [d('VF_COMMON', '3')]),
         (['c'], [{'k': 'std', 'val': 'c99'}, d('VF_ONLY_C')])],
        [(['c++'], [d('VF_ONLY_CXX', '5')]), (['c++', 'c'], [d('VF_COMMON')]),
         (['c'], [d('VF_ONLY_C', raw=True)])],
        [(['c++', 'c'], [d('VF_COMMON', raw=True), {'k': 'pthread'}]),
         (['c'], [d('VF_ONLY_C')]), (['c++'], [d('VF_ONLY_CXX')])],
    ]
    compilers = ['gcc'] if tier == 'quick' else ['gcc', 'clang']
    nrand = 8 if tier == 'quick' else 70
    n = 0
    for compiler in compilers:
        pool = []
        for k, seq in enumerate(fixed):
            pool.append({'calls': [{'langs': l, 'form': 'list', 'specs': sp}
                                   for l, sp in seq],
                         'target': [], 'env': {},
                         'layout': 'sibling' if k == 3 else 'one-target'})
        for _ in range(nrand):
            pool.append(_mix_random(rng, n))
        for c in pool:
            n += 1
            yield dict(c, kind='mixlang', compiler=compiler, tag='m%04d' % n)


def mix_flags(case, lang):
    """The model: reference flags a TU of `lang` must see."""
    env = case.get('env', {})
    out = list(env.get('CPPFLAGS', [])) + list(env.get(R.LANGS[lang]['flagsvar'], []))
    for c in case['calls']:
        if lang in c['langs']:
            out += [_mix_spec_flag(sp) for sp in c['specs']]
    out += [_mix_spec_flag(sp) for sp in case.get('target', [])]
    return out


def mix_names(case):
    names = []
    for c in case['calls']:
        names += [sp['name'] for sp in c['specs'] if sp['k'] == 'define']
    names += [sp['name'] for sp in case.get('target', []) if sp['k'] == 'define']
    for fl in case.get('env', {}).values():
        names += [f[2:].split('=')[0] for f in fl]
    out = []
    for x in names:
        if x not in out:
            out.append(x)
    return out


def mix_sources(case):
    tag = case['tag']
    names = mix_names(case)

    def table(prefix):
        t = ''
        for nme in names:
            t += ('#ifdef %s\n  "VFP:%s:%s%s=" VS(%s),\n#else\n'
                  '  "VFP:%s:%s%s=<undefined>",\n#endif\n'
                  % (nme, tag, prefix, nme, nme, tag, prefix, nme))
        two = '#if %s\n  "VFP:%s:%s%s=1",\n#else\n  "VFP:%s:%s%s=0",\n#endif\n'
        for key, cond in (('OPT', 'defined(__OPTIMIZE__)'),
                          ('REENTRANT', 'defined(_REENTRANT)'),
                          ('STRICT', 'defined(__STRICT_ANSI__)')):
            t += two % (cond, tag, prefix, key, tag, prefix, key)
        t += ('#ifdef __STDC_VERSION__\n  "VFP:%s:%sSTDC=" VS(__STDC_VERSION__),\n'
              '#else\n  "VFP:%s:%sSTDC=none",\n#endif\n' % (tag, prefix, tag, prefix))
        t += ('#ifdef __cplusplus\n  "VFP:%s:%sCPP=" VS(__cplusplus),\n'
              '#else\n  "VFP:%s:%sCPP=none",\n#endif\n' % (tag, prefix, tag, prefix))
        return t
    head = '#define VS_(x) #x\n#define VS(x) VS_(x)\n'
    c = ('/* C16 mixed-language probe %s: the C part */\n' % tag + head +
         'const char *const *vf_c_probe(void);\n'
         'static const char *const vf_c[] = {\n' + table('C_') + '  0\n};\n'
         'const char *const *vf_c_probe(void) { return vf_c; }\n')
    x = ('/* C16 mixed-language probe %s: the C++ part */\n' % tag +
         '#include <stdio.h>\n' + head +
         'extern "C" const char *const *vf_c_probe(void);\n'
         'static const char *const vf_x[] = {\n' + table('X_') + '  0\n};\n'
         'int main() {\n  const char *const *p;\n'
         '  for (p = vf_x; *p; p++) puts(*p);\n'
         '  for (p = vf_c_probe(); *p; p++) puts(*p);\n  return 0;\n}\n')
    return {tag + '_c.c': c, tag + '_x.cpp': x}


def mix_bfg(case):
    tag = case['tag']
    lines = ['# C16 mixed-language project %s' % tag]
    for c in case['calls']:
        if c['form'] == 'string':
            o = q(' '.join(_mix_spec_flag(sp) for sp in c['specs']))
        else:
            o = '[' + ', '.join(_mix_spec_expr(sp) for sp in c['specs']) + ']'
        lang = q(c['langs'][0]) if len(c['langs']) == 1 else repr(c['langs'])
        lines.append('global_options(%s, lang=%s)' % (o, lang))
    t = '[' + ', '.join(_mix_spec_expr(sp) for sp in case.get('target', [])) + ']'
    if case['layout'] == 'sibling':
        lines.append('cpart = static_library(%s, files=[%s], compile_options=%s)'
                     % (q(tag + '_l'), q(tag + '_c.c'), t))
        lines.append('executable(%s, files=[%s], compile_options=%s, libs=[cpart])'
                     % (q(tag), q(tag + '_x.cpp'), t))
    else:
        lines.append('executable(%s, files=[%s, %s], compile_options=%s)'
                     % (q(tag), q(tag + '_x.cpp'), q(tag + '_c.c'), t))
    return '\n'.join(lines) + '\n'


def mix_describe(case):
    return ' ; '.join('%s<-%s%s' % ('+'.join(c['langs']),
                                    ','.join(_mix_spec_flag(sp) + ('' if sp.get('raw') else '*')
                                             for sp in c['specs']),
                                    '(str)' if c['form'] == 'string' else '')
                      for c in case['calls'])


def run_mix(case, res):
    res.evaluations = 1
    compiler, tag = case['compiler'], case['tag']
    root = core.mkscratch('c16m')
    src, bld, ref = (os.path.join(root, x) for x in ('src', 'bld', 'ref'))
    try:
        os.makedirs(ref)
        files = mix_sources(case)
        files['build.bfg'] = mix_bfg(case)
        proj.write_tree(src, files)
        env0 = core.base_env()
        envadd = {'CC': R.COMPILERS[compiler]['c'],
                  'CXX': R.COMPILERS[compiler]['c++']}
        for var, fl in case.get('env', {}).items():
            envadd[var] = R.quote_join(fl)
        env = core.base_env(envadd)
        # ---- the hand-written build (calibration + expectation)
        flags = {l: mix_flags(case, l) for l in ('c', 'c++')}
        cc, cxx = R.COMPILERS[compiler]['c'], R.COMPILERS[compiler]['c++']
        log = []
        for argv in ([cc] + flags['c'] + ['-c', os.path.join(src, tag + '_c.c'),
                                          '-o', os.path.join(ref, 'c.o')],
                     [cxx] + flags['c++'] + ['-c', os.path.join(src, tag + '_x.cpp'),
                                             '-o', os.path.join(ref, 'x.o')],
                     [cxx] + (['-pthread'] if '-pthread' in flags['c++'] else []) +
                     [os.path.join(ref, 'x.o'), os.path.join(ref, 'c.o'),
                      '-o', os.path.join(ref, tag)]):
            rc, out = core.run(argv, cwd=ref, env=env0, timeout=120)
            log.append({'argv': argv, 'rc': rc, 'out': out[-800:]})
        res.ev('calibration:reference-build')
        desc = mix_describe(case)
        label = '%s mixlang' % compiler
        if not os.path.isfile(os.path.join(ref, tag)):
            res.exclude('reference-build-fails: %s [%s]' % (desc, label))
            res.ev('calibration:excluded')
            return res
        rc, out = core.run([os.path.join(ref, tag)], env=env0, timeout=60)
        want = R.parse_vfp(out, tag)
        # the reference must itself agree with the model (else: harness bug)
        names = mix_names(case)
        for lang, pre in (('c', 'C_'), ('c++', 'X_')):
            given = set(f[2:].split('=')[0] for f in flags[lang]
                        if f.startswith('-D'))
            for nme in names:
                if (want.get(pre + nme) != '<undefined>') != (nme in given):
                    res.inconclusive = ('reference disagrees with the model: %s %s'
                                        % (pre + nme, desc))
                    return res
        # ---- bfg9000
        rc, cout = proj.configure(src, bld, 'make', env=env)
        res.ev('build:configure')
        res.ev('mix:judged')
        res.ev('compiler:' + compiler)
        if mix_pattern(case['calls']):
            res.ev('mix:multi-then-single')
        res.key([compiler, 'mixlang', desc, case.get('target'), case.get('env'),
                 case['layout']], True)
        res.classes.add('mixlang:' + case['layout'])
        for c in case['calls']:
            res.classes.add('mixlang-call:%s:%s' % ('+'.join(c['langs']), c['form']))
        base_w = {'compiler': compiler, 'lang': 'c+c++', 'tag': tag,
                  'opt': 'global_options', 'place': 'global', 'calls': desc,
                  'layout': case['layout'], 'env': case.get('env'),
                  'target': [_mix_spec_flag(sp) for sp in case.get('target', [])],
                  'reference_commands': _cmds(log), '__case__': case}
        if rc != 0:
            errs = [ln for ln in cout.splitlines() if ln.startswith('error:')]
            res.violate(('configure-failed', 'global_options', 'mixlang'),
                        dict(base_w, stage='configure',
                             error=(errs or cout.strip().splitlines()[-1:])[0][:400]))
            return res
        rc, mout = proj.build(bld, 'make', targets=['all'],
                              extra=['-k', '-j2', '-Otarget'], env=env, timeout=600)
        res.ev('build:make')
        got = {}
        exe = os.path.join(bld, tag)
        if os.path.isfile(exe):
            rc2, out2 = core.run([exe], env=env0, timeout=60)
            got = R.parse_vfp(out2, tag)
        res.ev('probe:observed-bfg')
        res.ev('mix:tu-compared', 2)
        diff = sorted(k for k in set(want) | set(got) if want.get(k) != got.get(k))
        if res.sample is None:
            res.sample = {'compiler': compiler, 'calls': desc, 'layout': case['layout'],
                          'env': case.get('env'), 'reference': want, 'bfg9000': got,
                          'bfg_commands': tag_lines(mout, tag, 4)}
        if not diff:
            return res
        # ---- classify: which language's options ended up where?
        only = {}
        for lang, other in (('c', 'c++'), ('c++', 'c')):
            only[lang] = [f for f in flags[lang] if f not in flags[other]]
        leaks = []
        for ln in mout.splitlines():
            for lang, fn, other in (('c', tag + '_c.c', 'c++'),
                                    ('c++', tag + '_x.cpp', 'c')):
                if fn in ln and ' -c ' in ln:
                    try:
                        toks = shlex.split(ln)
                    except ValueError:
                        continue
                    if any(t in toks for t in only[other]):
                        leaks.append('%s->%s' % (other, lang))
        wit = dict(base_w, differing=diff[:12],
                   expected={k: want.get(k) for k in diff[:12]},
                   observed={k: got.get(k) for k in diff[:12]},
                   bfg_commands=tag_lines(mout, tag), built=bool(got),
                   stage='probe' if got else 'build')
        if leaks:
            wit['leak'] = sorted(set(leaks))
            res.violate(('global-options-leak', sorted(set(leaks))[0]), wit)
        elif not got:
            res.violate(('build-failed', 'global_options', 'mixlang'), wit)
        else:
            res.violate(('effect-differs', 'global_options', 'mixlang',
                         'C' if diff[0].startswith('C_') else 'C++'), wit)
        return res
    finally:
        core.rmtree(root)


# --------------------------------------------------------------------------
# which library was really linked?
#
# Pre-built libraries with the same name but different behaviour:
#   pre/both/libvfv.a (1) next to pre/both/libvfv.so (2); pre/d1/libvfv.a (3);
#   pre/d2/libvfv.a (4); plus libraries built by the project itself (6, 7).
# Each variant is one executable; the program prints the value its library
# returns.  Model (documented behaviour): a static-library FILE object is linked
# as exactly that archive; a shared-library object gives DT_NEEDED + a runnable
# program; library names as strings are searched in the opts.lib_dir
# directories in the order given.  Oracle: output of the program, DT_NEEDED,
# exit status, compared with a hand-written link and with the model.

LIBVAR = {
    # name: (build.bfg keyword text with {t}=target tag, expected value,
    #        expects DT_NEEDED libvfv.so / own .so, reference link args)
    'static-file-libs': (
        "libs=[static_library('pre/both/libvfv.a')]", '1', False,
        ['@SRC@/pre/both/libvfv.a']),
    'static-file-opts-lib': (
        "link_options=[opts.lib(static_library('pre/both/libvfv.a'))]", '1', False,
        ['@SRC@/pre/both/libvfv.a']),
    'static-file-library-kind': (
        "libs=[library('pre/both/libvfv.a', kind='static')]", '1', False,
        ['@SRC@/pre/both/libvfv.a']),
    'static-file-global-link': (
        None, '1', False, ['@SRC@/pre/both/libvfv.a']),
    'shared-file-libs': (
        "libs=[shared_library('pre/both/libvfv.so')]", '2', True,
        ['-L@SRC@/pre/both', '-lvfv', '-Wl,-rpath,@SRC@/pre/both']),
    'name-libdir-d1-d2': (
        "link_options=[opts.lib_dir(directory('pre/d1')), "
        "opts.lib_dir(directory('pre/d2')), opts.lib('vfv')]", '3', False,
        ['-L@SRC@/pre/d1', '-L@SRC@/pre/d2', '-lvfv']),
    'name-libdir-d2-d1': (
        "link_options=[opts.lib_dir(directory('pre/d2')), "
        "opts.lib_dir(directory('pre/d1')), opts.lib('vfv')]", '4', False,
        ['-L@SRC@/pre/d2', '-L@SRC@/pre/d1', '-lvfv']),
    'static-file-d2-after-libdir-d1': (
        "link_options=[opts.lib_dir(directory('pre/d1'))], "
        "libs=[static_library('pre/d2/libvfv.a')]", '4', False,
        ['-L@SRC@/pre/d1', '@SRC@/pre/d2/libvfv.a']),
    'built-static': ("libs=[{t}_lib]", '6', False, None),
    'built-shared': ("libs=[{t}_lib]", '7', True, None),
}
LIBVAR_PRE = {'pre/both/libvfv.a': 1, 'pre/both/libvfv.so': 2,
              'pre/d1/libvfv.a': 3, 'pre/d2/libvfv.a': 4}


def gen_libvar(tier, seed):
    compilers = ['gcc'] if tier == 'quick' else ['gcc', 'clang']
    rng = core.rng_for(seed, 'c16libvar', tier)
    n = 0
    for compiler in compilers:
        for rep in range(1 if tier == 'quick' else 3):
            for lang in ('c', 'c++'):
                names = [k for k in LIBVAR if k != 'static-file-global-link']
                rng.shuffle(names)
                n += 1
                yield {'kind': 'libvar', 'compiler': compiler, 'lang': lang,
                       'tag': 'v%03d' % n, 'variants': names, 'global': False}
                n += 1
                yield {'kind': 'libvar', 'compiler': compiler, 'lang': lang,
                       'tag': 'v%03d' % n,
                       'variants': ['static-file-global-link'], 'global': True}


def _libvar_main(tag, name, lang):
    return ('#include <stdio.h>\n#ifdef __cplusplus\nextern "C"\n#endif\n'
            'int vfv_value(void);\n'
            'int main(void) { printf("VFP:%s:VARIANT=%%d\\n", vfv_value()); '
            'return 0; }\n' % tag)


def run_libvar(case, res):
    compiler, lang, ctag = case['compiler'], case['lang'], case['tag']
    ext = R.LANGS[lang]['ext']
    cc, c_cc = R.COMPILERS[compiler][lang], R.COMPILERS[compiler]['c']
    res.evaluations = len(case['variants'])
    root = core.mkscratch('c16v')
    src, bld, ref = (os.path.join(root, x) for x in ('src', 'bld', 'ref'))
    try:
        os.makedirs(ref)
        env0 = core.base_env()
        files = {}
        for path, val in LIBVAR_PRE.items():
            files['presrc/v%d.c' % val] = ('int vfv_value(void);\n'
                                           'int vfv_value(void) { return %d; }\n' % val)
        tags = {}
        lines = ['# C16 library-variant project %s' % ctag]
        if case.get('global'):
            lines.append("global_link_options([opts.lib("
                         "static_library('pre/both/libvfv.a'))])")
        for k, name in enumerate(case['variants']):
            t = '%s_%d' % (ctag, k)
            tags[name] = t
            files[t + '_m' + ext] = _libvar_main(t, name, lang)
            kw = LIBVAR[name][0]
            if name.startswith('built-'):
                val = LIBVAR[name][1]
                files[t + '_l.c'] = ('int vfv_value(void);\n'
                                     'int vfv_value(void) { return %s; }\n' % val)
                lines.append('%s_lib = %s(%s, files=[%s])'
                             % (t, 'static_library' if name == 'built-static'
                                else 'shared_library', q(t + '_l'), q(t + '_l.c')))
            lines.append('executable(%s, files=[%s]%s)'
                         % (q(t), q(t + '_m' + ext),
                            ', ' + kw.format(t=t) if kw else ''))
        files['build.bfg'] = '\n'.join(lines) + '\n'
        proj.write_tree(src, files)
        # pre-built third-party libraries (by hand)
        for path, val in LIBVAR_PRE.items():
            full = os.path.join(src, path)
            os.makedirs(os.path.dirname(full), exist_ok=True)
            o = os.path.join(src, 'presrc', 'v%d.o' % val)
            core.run([c_cc, '-fPIC', '-c', os.path.join(src, 'presrc', 'v%d.c' % val),
                      '-o', o], env=env0, timeout=60, check=True)
            if path.endswith('.a'):
                core.run(['ar', 'cr', full, o], env=env0, timeout=60, check=True)
            else:
                core.run([c_cc, '-shared', '-Wl,-soname,libvfv.so', o, '-o', full],
                         env=env0, timeout=60, check=True)
            os.remove(o)
        env = core.base_env({'CC': c_cc, 'CXX': R.COMPILERS[compiler]['c++']})
        rc, cout = proj.configure(src, bld, 'make', env=env)
        res.ev('build:configure')
        mout = ''
        if rc == 0:
            rc2, mout = proj.build(bld, 'make', targets=['all'],
                                   extra=['-k', '-j%d' % MAKE_JOBS, '-Otarget'],
                                   env=env, timeout=600)
            res.ev('build:make')

        def observe(exe, t):
            ob = {'built': os.path.isfile(exe)}
            if ob['built']:
                r, out = core.run([exe], env=env0, timeout=60,
                                  cwd=os.path.dirname(exe))
                ob['run_rc'] = r
                ob['VARIANT'] = R.parse_vfp(out, t).get('VARIANT')
                r, txt = core.run(['readelf', '-W', '-d', exe], env=env0, timeout=60)
                needed = re.findall(r'\(NEEDED\)\s+Shared library: \[([^\]]+)\]', txt)
                ob['needs_lib'] = any(n.startswith(('libvfv', 'lib' + t)) for n in needed)
            return ob

        for name in case['variants']:
            t = tags[name]
            kw, want, want_needed, link = LIBVAR[name]
            # ---- hand-written reference
            rdir = os.path.join(ref, t)
            os.makedirs(rdir)
            log = []

            def run(argv):
                r, out = core.run(argv, cwd=rdir, env=env0, timeout=120)
                log.append({'argv': argv, 'rc': r, 'out': out[-600:]})
            mo = os.path.join(rdir, 'm.o')
            run([cc, '-c', os.path.join(src, t + '_m' + ext), '-o', mo])
            if name == 'built-static':
                run([c_cc, '-c', os.path.join(src, t + '_l.c'), '-o',
                     os.path.join(rdir, 'l.o')])
                run(['ar', 'cr', os.path.join(rdir, 'lib%s_l.a' % t),
                     os.path.join(rdir, 'l.o')])
                link = [os.path.join(rdir, 'lib%s_l.a' % t)]
            elif name == 'built-shared':
                run([c_cc, '-fPIC', '-c', os.path.join(src, t + '_l.c'), '-o',
                     os.path.join(rdir, 'l.o')])
                run([c_cc, '-shared', '-Wl,-soname,lib%s_l.so' % t,
                     os.path.join(rdir, 'l.o'), '-o',
                     os.path.join(rdir, 'lib%s_l.so' % t)])
                link = ['-L' + rdir, '-l%s_l' % t, '-Wl,-rpath,' + rdir]
            run([cc, mo] + [a.replace('@SRC@', src) for a in link] +
                ['-o', os.path.join(rdir, t)])
            res.ev('calibration:reference-build')
            rob = observe(os.path.join(rdir, t), t)
            label = 'libvar %s [%s/%s]' % (name, compiler, lang)
            model = {'built': True, 'run_rc': 0, 'VARIANT': want,
                     'needs_lib': want_needed}
            if rob != model:
                res.exclude('reference-differs-from-model: ' + label)
                res.ev('calibration:excluded')
                continue
            res.ev('libvar:judged')
            res.ev('subcase:judged')
            res.ev('lang:' + lang)
            res.ev('compiler:' + compiler)
            if name.startswith('static-file') and 'd2' not in name:
                res.ev('libvar:prebuilt-static-beside-shared')
            res.key([compiler, lang, 'libvar', name], True)
            res.classes.add('libvar:' + name)
            mini = dict(case, variants=[name])
            base_w = {'compiler': compiler, 'lang': lang, 'opt': 'lib',
                      'val': name, 'place': 'global_link' if case.get('global')
                      else 'target', 'variant': name, 'tag': t,
                      'bfg_text': (kw or 'global_link_options(...)'),
                      'reference_commands': _cmds(log), '__case__': mini}
            if rc != 0:
                errs = [ln for ln in cout.splitlines() if ln.startswith('error:')]
                res.violate(('configure-failed', 'lib', 'libvar'),
                            dict(base_w, stage='configure',
                                 error=(errs or cout.strip().splitlines()[-1:]
                                        or ['?'])[0][:400]))
                continue
            ob = observe(os.path.join(bld, t), t)
            res.ev('probe:observed-bfg')
            if res.sample is None:
                res.sample = {'variant': name, 'compiler': compiler, 'lang': lang,
                              'reference': rob, 'bfg9000': ob,
                              'bfg_commands': tag_lines(mout, t, 4)}
            if ob == model:
                continue
            diff = [k for k in model if ob.get(k) != model[k]]
            wit = dict(base_w, differing=diff, expected={k: model[k] for k in diff},
                       observed={k: ob.get(k) for k in diff},
                       bfg_commands=tag_lines(mout, t))
            if not ob['built']:
                res.violate(('build-failed', 'lib', name), dict(wit, stage='build'))
            elif ob.get('needs_lib') != want_needed:
                res.violate(('wrong-library-linked', name,
                             'shared-instead-of-static' if ob.get('needs_lib')
                             else 'static-instead-of-shared'),
                            dict(wit, stage='probe'))
            else:
                res.violate(('wrong-library-linked', name, 'variant'),
                            dict(wit, stage='probe'))
        return res
    finally:
        core.rmtree(root)


# --------------------------------------------------------------------------
# directories the compiler ALSO knows from its environment
#
# The compiler's own environment variables (CPATH, C_INCLUDE_PATH, CPLUS_INCLUDE_PATH,
# LIBRARY_PATH) and -I words in CPPFLAGS name directories, too.  A directory the script
# declares (include_dir, system include, lib_dir) must keep its documented effect when one of
# them names the same directory (configure and build run in the same environment).  One tiny
# project per variant, because each needs its own environment.  Model: the program builds and prints the header's / library's
# value; -Werror plus a warning inside a SYSTEM header does not stop the build.  Every variant is
# first built by hand (textbook flags, the build-time environment): only what that reference
# achieves is demanded.

ENVDIR = {
    # name: (kind, extra environment at configure AND build time, reference flags)
    'sysinc-also-in-CPPFLAGS': ('sysinc', {'CPPFLAGS': '-I@EXT@/edir'},
                                ['-I@EXT@/edir', '-isystem', '@EXT@/edir']),
    'sysinc-also-in-CPATH': ('sysinc', {'CPATH': '@EXT@/edir'}, ['-isystem', '@EXT@/edir']),
    'sysinc-also-in-LANG_INCLUDE_PATH': ('sysinc', {'@LIP@': '@EXT@/edir'},
                                         ['-isystem', '@EXT@/edir']),
    'sysinc-other-dir-in-CPATH': ('sysinc', {'CPATH': '@EXT@/other'},
                                  ['-isystem', '@EXT@/edir']),
    'sysinc-other-dir-in-CPPFLAGS': ('sysinc', {'CPPFLAGS': '-I@EXT@/other'},
                                     ['-I@EXT@/other', '-isystem', '@EXT@/edir']),
    'inc-also-in-CPATH': ('inc', {'CPATH': '@EXT@/edir'}, ['-I@EXT@/edir']),
    'inc-also-in-LANG_INCLUDE_PATH': ('inc', {'@LIP@': '@EXT@/edir'}, ['-I@EXT@/edir']),
    'inc-also-in-CPPFLAGS': ('inc', {'CPPFLAGS': '-I@EXT@/edir'}, ['-I@EXT@/edir']),
    'libdir-also-in-LIBRARY_PATH': ('libdir', {'LIBRARY_PATH': '@EXT@/elib'},
                                    ['-L@EXT@/elib', '-lvfe']),
    'libdir-also-in-LDFLAGS': ('libdir', {'LDFLAGS': '-L@EXT@/elib'},
                               ['-L@EXT@/elib', '-lvfe']),
    # the linker chosen through LD: whatever bfg9000 derives from it belongs on link lines;
    # a compile with warnings as errors must not see linker-only words
    'inc-with-LD-bfd-and-Werror': ('incwerror', {'LD': 'ld.bfd'}, ['-I@EXT@/edir']),
    'inc-with-LD-gold-and-Werror': ('incwerror', {'LD': 'ld.gold'}, ['-I@EXT@/edir']),
}


def gen_envdir(tier, seed):
    compilers = ['gcc', 'clang']        # (tiny projects: both compilers in quick, too)
    n = 0
    for compiler in compilers:
        for lang in ('c', 'c++'):
            for name in sorted(ENVDIR):
                n += 1
                yield {'kind': 'envdir', 'compiler': compiler, 'lang': lang,
                       'tag': 'e%03d' % n, 'variant': name}


def run_envdir(case, res):
    compiler, lang, t, name = case['compiler'], case['lang'], case['tag'], case['variant']
    kind, conf_extra, refflags = ENVDIR[name]
    build_extra = conf_extra
    ext = R.LANGS[lang]['ext']
    cc, c_cc = R.COMPILERS[compiler][lang], R.COMPILERS[compiler]['c']
    res.evaluations = 1
    root = core.mkscratch('c16e')
    src, bld, ref = (os.path.join(root, x) for x in ('src', 'bld', 'ref'))
    lip = 'C_INCLUDE_PATH' if lang == 'c' else 'CPLUS_INCLUDE_PATH'

    # the declared directories are given as absolute paths outside the source tree (an SDK
    # somewhere on the machine), or as source-relative names, alternately
    extdir = os.path.join(root, 'sdk') if (int(t[1:]) + (lang == 'c++')) % 2 else src

    def sub(s):
        return s.replace('@EXT@', extdir).replace('@SRC@', src).replace('@LIP@', lip)
    try:
        os.makedirs(ref)
        env0 = core.base_env()
        ext_files = {'other/unrelated.h': '#define UNRELATED 1\n'}
        files = {}
        edir = os.path.join(extdir, 'edir') if extdir != src else 'edir'
        elib = os.path.join(extdir, 'elib') if extdir != src else 'elib'
        if kind in ('inc', 'sysinc', 'incwerror'):
            # a header that is fine, but not warning-free
            ext_files['edir/vfe.h'] = ('#define VFE_VALUE 41\n'
                                   'static int vfe_never_called(void) { return 1; }\n')
            files[t + '_m' + ext] = ('#include <stdio.h>\n#include "vfe.h"\n'
                                     'int main(void) { printf("VFP:%s:VALUE=%%d\\n", VFE_VALUE); '
                                     'return 0; }\n' % t)
            if kind == 'sysinc':
                kw = ("includes=[header_directory(%r, system=True)], "
                      "compile_options=[opts.warning('all', 'error')]" % edir)
                refc = ['-Wall', '-Werror']
            elif kind == 'incwerror':
                ext_files['edir/vfe.h'] = '#define VFE_VALUE 41\n'
                kw = ("includes=[header_directory(%r)], "
                      "compile_options=[opts.warning('all', 'error')]" % edir)
                refc = ['-Wall', '-Werror']
            else:
                kw = "includes=[header_directory(%r)]" % edir
                refc = []
            refl = []
            refc = refc + [sub(x) for x in refflags]
        else:
            files['elibsrc/v.c'] = 'int vfe_value(void);\nint vfe_value(void) { return 41; }\n'
            files[t + '_m' + ext] = ('#include <stdio.h>\n#ifdef __cplusplus\nextern "C"\n#endif\n'
                                     'int vfe_value(void);\n'
                                     'int main(void) { printf("VFP:%s:VALUE=%%d\\n", vfe_value()); '
                                     'return 0; }\n' % t)
            kw = "link_options=[opts.lib_dir(directory(%r)), opts.lib('vfe')]" % elib
            refc, refl = [], [sub(x) for x in refflags]
        files['build.bfg'] = ('# C16 environment-directory project %s: %s\n'
                              'executable(%s, files=[%s], %s)\n'
                              % (t, name, q(t), q(t + '_m' + ext), kw))
        proj.write_tree(src, files)
        proj.write_tree(extdir, ext_files)
        if kind == 'libdir':
            os.makedirs(os.path.join(extdir, 'elib'))
            o = os.path.join(src, 'elibsrc', 'v.o')
            core.run([c_cc, '-c', os.path.join(src, 'elibsrc', 'v.c'), '-o', o], env=env0,
                     timeout=60, check=True)
            core.run(['ar', 'cr', os.path.join(extdir, 'elib', 'libvfe.a'), o], env=env0,
                     timeout=60, check=True)
            os.remove(o)
        cenv = core.base_env(dict({'CC': c_cc, 'CXX': R.COMPILERS[compiler]['c++']},
                                  **{sub(k): sub(v) for k, v in conf_extra.items()}))
        benv = core.base_env(dict({'CC': c_cc, 'CXX': R.COMPILERS[compiler]['c++']},
                                  **{sub(k): sub(v) for k, v in build_extra.items()}))
        renv = dict(env0, **{sub(k): sub(v) for k, v in build_extra.items()})

        def observe(exe):
            ob = {'built': os.path.isfile(exe)}
            if ob['built']:
                r, out = core.run([exe], env=env0, timeout=60, cwd=os.path.dirname(exe))
                ob['run_rc'] = r
                ob['VALUE'] = R.parse_vfp(out, t).get('VALUE')
            return ob

        # ---- hand-written reference in the build-time environment
        log = []

        def run(argv):
            r, out = core.run(argv, cwd=ref, env=renv, timeout=120)
            log.append({'argv': argv, 'rc': r, 'out': out[-600:]})
        mo = os.path.join(ref, 'm.o')
        run([cc] + refc + ['-c', os.path.join(src, t + '_m' + ext), '-o', mo])
        run([cc, mo] + refl + ['-o', os.path.join(ref, t)])
        res.ev('calibration:reference-build')
        model = {'built': True, 'run_rc': 0, 'VALUE': '41'}
        label = 'envdir %s [%s/%s]' % (name, compiler, lang)
        if observe(os.path.join(ref, t)) != model:
            res.exclude('reference-differs-from-model: ' + label)
            res.ev('calibration:excluded')
            return res
        res.ev('envdir:judged')
        res.ev('subcase:judged')
        res.ev('lang:' + lang)
        res.ev('compiler:' + compiler)
        res.key([compiler, lang, 'envdir', name, extdir != src], True)
        res.classes.add('envdir:' + name)
        res.classes.add('envdir:declared-as-' + ('absolute-path' if extdir != src
                                                 else 'source-relative'))
        base_w = {'compiler': compiler, 'lang': lang, 'opt': kind, 'val': name,
                  'place': 'target', 'variant': name, 'tag': t, 'bfg_text': kw,
                  'declared_as': 'absolute-path' if extdir != src else 'source-relative',
                  'configure_env': {sub(k): sub(v) for k, v in conf_extra.items()},
                  'build_env': {sub(k): sub(v) for k, v in build_extra.items()},
                  'reference_commands': _cmds(log)}
        rc, cout = proj.configure(src, bld, 'make', env=cenv)
        res.ev('build:configure')
        if rc != 0:
            errs = [ln for ln in cout.splitlines() if ln.startswith('error:')]
            res.violate(('configure-failed', kind, 'envdir'),
                        dict(base_w, stage='configure',
                             error=(errs or cout.strip().splitlines()[-1:] or ['?'])[0][:400]))
            return res
        rc2, mout = proj.build(bld, 'make', targets=['all'], extra=['-k'], env=benv, timeout=600)
        res.ev('build:make')
        ob = observe(os.path.join(bld, t))
        res.ev('probe:observed-bfg')
        res.sample = {'variant': name, 'compiler': compiler, 'lang': lang, 'bfg9000': ob,
                      'bfg_commands': tag_lines(mout, t, 4)}
        if ob == model:
            return res
        diff = [k for k in model if ob.get(k) != model[k]]
        res.violate(('build-failed' if not ob['built'] else 'effect-differs', 'envdir', name),
                    dict(base_w, stage='build' if not ob['built'] else 'probe', differing=diff,
                         observed={k: ob.get(k) for k in diff},
                         bfg_commands=tag_lines(mout, t), make_output=mout[-800:]))
        return res
    finally:
        core.rmtree(root)


# --------------------------------------------------------------------------
# hand-written combinations of two targets that share one option-carrying object
#
# Each is a complete little project; the model is simply: it configures, builds, and the
# program exits 0 (the sources check the option's effect themselves).

DIRECTED = {
    # one precompiled_header() object used by a shared library (implicit -fPIC) AND an
    # executable (no -fPIC): each user must get a precompiled header it can use
    'pch-object-shared-by-shlib-and-exe': {
        'build.bfg': "pch = precompiled_header(file='pre@HEXT@')\n"
                     "lib = shared_library('l', files=['l@EXT@'], pch=pch)\n"
                     "exe = executable('prog', files=['m@EXT@'], libs=[lib], pch=pch)\n",
        'pre@HEXT@': '#define PRE 1\n',
        'l@EXT@': '#ifdef __cplusplus\nextern "C"\n#endif\nint lf(void) { return PRE; }\n',
        'm@EXT@': '#ifdef __cplusplus\nextern "C"\n#endif\nint lf(void);\n'
                  'int main(void) { return lf() - PRE; }\n'},
    # a library named in the link_options of a STATIC library is needed by that archive: on the
    # consumer's link line it has its effect only AFTER the archive (the system linker resolves
    # left to right, and drops an as-yet-unneeded shared library under --as-needed)
    'lib-option-of-static-library': {
        'build.bfg': "num = static_library('num', files=['l@EXT@'], link_options=[opts.lib('m')])\n"
                     "exe = executable('prog', files=['m@EXT@'], libs=[num])\n",
        'l@EXT@': '#include <math.h>\n#ifdef __cplusplus\nextern "C"\n#endif\n'
                  'double lf(double x) { return j0(x); }\n',
        'm@EXT@': '#ifdef __cplusplus\nextern "C"\n#endif\ndouble lf(double);\n'
                  'int main(void) { volatile double x = 0.0; return lf(x) == 1.0 ? 0 : 1; }\n'},
    'lib-literal-option-of-static-library-static-link': {
        'build.bfg': "num = static_library('num', files=['l@EXT@'], "
                     "link_options=[opts.lib_literal('-lm')])\n"
                     "exe = executable('prog', files=['m@EXT@'], libs=[num], "
                     "link_options=[opts.static()])\n",
        'l@EXT@': '#include <math.h>\n#ifdef __cplusplus\nextern "C"\n#endif\n'
                  'double lf(double x) { return j0(x); }\n',
        'm@EXT@': '#ifdef __cplusplus\nextern "C"\n#endif\ndouble lf(double);\n'
                  'int main(void) { volatile double x = 0.0; return lf(x) == 1.0 ? 0 : 1; }\n'},
    'lib-option-of-inner-static-library': {
        'build.bfg': "num = static_library('num', files=['l@EXT@'], link_options=[opts.lib('m')])\n"
                     "mid = static_library('mid', files=['k@EXT@'], libs=[num])\n"
                     "exe = executable('prog', files=['m@EXT@'], libs=[mid])\n",
        'l@EXT@': '#include <math.h>\n#ifdef __cplusplus\nextern "C"\n#endif\n'
                  'double nf(double x) { return j0(x); }\n',
        'k@EXT@': '#ifdef __cplusplus\nextern "C" {\n#endif\ndouble nf(double);\n'
                  'double lf(double x) { return nf(x); }\n#ifdef __cplusplus\n}\n#endif\n',
        'm@EXT@': '#ifdef __cplusplus\nextern "C"\n#endif\ndouble lf(double);\n'
                  'int main(void) { volatile double x = 0.0; return lf(x) == 1.0 ? 0 : 1; }\n'},
    # the same object for two executables with the same flags (control: must work)
    'pch-object-shared-by-two-exes': {
        'build.bfg': "pch = precompiled_header(file='pre@HEXT@')\n"
                     "one = executable('one', files=['l@EXT@', 'm@EXT@'], pch=pch)\n"
                     "exe = executable('prog', files=['l@EXT@', 'm@EXT@'], pch=pch)\n",
        'pre@HEXT@': '#define PRE 1\n',
        'l@EXT@': '#ifdef __cplusplus\nextern "C"\n#endif\nint lf(void) { return PRE; }\n',
        'm@EXT@': '#ifdef __cplusplus\nextern "C"\n#endif\nint lf(void);\n'
                  'int main(void) { return lf() - PRE; }\n'},
}


def gen_directed(tier, seed):
    compilers = ['gcc'] if tier == 'quick' else ['gcc', 'clang']
    for compiler in compilers:
        for lang in ('c', 'c++'):
            for name in sorted(DIRECTED):
                yield {'kind': 'directed', 'compiler': compiler, 'lang': lang, 'variant': name}


def run_directed(case, res):
    compiler, lang, name = case['compiler'], case['lang'], case['variant']
    ext = R.LANGS[lang]['ext']
    res.evaluations = 1
    root = core.mkscratch('c16d')
    src, bld = os.path.join(root, 'src'), os.path.join(root, 'bld')
    try:
        hext = '.hpp' if lang == 'c++' else '.h'
        files = {k.replace('@EXT@', ext).replace('@HEXT@', hext):
                 v.replace('@EXT@', ext).replace('@HEXT@', hext)
                 for k, v in DIRECTED[name].items()}
        proj.write_tree(src, files)
        env = core.base_env({'CC': R.COMPILERS[compiler]['c'], 'CXX': R.COMPILERS[compiler]['c++']})
        res.ev('directed:judged')
        res.ev('subcase:judged')
        res.ev('lang:' + lang)
        res.ev('compiler:' + compiler)
        res.key([compiler, lang, 'directed', name], True)
        res.classes.add('directed:' + name)
        w = {'compiler': compiler, 'lang': lang, 'variant': name,
             'opt': 'pch' if name.startswith('pch') else 'lib', 'val': name,
             'place': 'two-targets' if name.startswith('pch') else 'static-library-link-options',
             'bfg_text': files['build.bfg']}
        rc, cout = proj.configure(src, bld, 'make', env=env)
        res.ev('build:configure')
        if rc != 0:
            res.violate(('configure-failed', 'directed', name), dict(w, output=cout[-600:]))
            return res
        rc, mout = proj.build(bld, 'make', targets=['all'], extra=['-k'], env=env, timeout=600)
        res.ev('build:make')
        exe = os.path.join(bld, 'prog')
        if rc != 0 or not os.path.isfile(exe):
            res.violate(('build-failed', 'directed', name), dict(w, output=mout[-900:]))
            return res
        r, out = core.run([exe], env=core.base_env(), timeout=60, cwd=bld)
        if r != 0:
            res.violate(('effect-differs', 'directed', name), dict(w, run_rc=r, output=out[-300:]))
        res.sample = {'variant': name, 'compiler': compiler, 'lang': lang,
                      'bfg_commands': [l for l in mout.splitlines() if ' -c ' in l][:4]}
        return res
    finally:
        core.rmtree(root)
