"""C13 - Build files are a deterministic function of project and configuration.

Each case is one generated project (vf/gen/c13gen.py: a dag.py build graph
wrapped with find_files/find_paths over big trees, header_directory, install of
many things, several pkg_config() calls, global options, semantic options,
aliases, tests, extra_dist, submodules, options.bfg, sometimes a toolchain
file) and one back end.  The project is configured 6-10 times into a FRESH
build directory at the SAME absolute path, varying only what the property says
must not matter; every file bfg9000 wrote is then compared with what the
reference invocation (run 0) wrote.  Finally `bfg9000 regenerate` runs under yet
another hash seed / cwd / environment and must reproduce the configured files.

The oracle never asks bfg9000 what the files should contain: it only compares
real outputs of the real console scripts with each other.
"""
import difflib
import json
import os
import random
import re
import shutil

from .. import core, proj
from ..core import CaseResult
from ..gen import c13gen

LEVEL = 'exploration'
MODE = 'thread'
RULE = ('seeded projects = vf/gen/dag.py graph wrapped by c13gen extension blocks (find_files/'
        'find_paths over trees with dozens of entries, header_directory(include=), install() of '
        'executables/libraries/headers/copied data/man pages, 2-3 pkg_config() incl. auto_fill and '
        'multi-specifier requirements, global_options with opts.*, aliases, tests+driver, '
        'extra_dist, 1-3 submodules, options.bfg arguments, optional toolchain file) x one back '
        'end; each configured 6-10 times into a fresh build dir at the same absolute path under '
        'different PYTHONHASHSEED (incl. random), cwd, spelling (configure <build>, configure <src> '
        'from the build dir, configure-into abs/rel/dotted, 9k), unrelated environment variables '
        'added/removed/reordered, the cwd spelled physically or through a symlink with $PWD unset / '
        'physical / logical (through the symlink) / stale / garbage, then regenerated under another context; distinct = (project '
        'digest, back end, set of contexts); non-trivial = every run configured successfully, the '
        'project produced >= 3 .pc files, >= 4 find dirs and >= 5 distinct contexts')
ASSUMPTIONS = [
    'the harness keeps srcdir/builddir/prefix at the same absolute paths for all runs of a case, '
    'so byte comparison needs no path normalisation',
    'directory listing order of an unchanged source tree is stable between runs (same file '
    'system, tree written once per case); dependence on readdir order is NOT judged',
    'variables named in c13gen.NOISE_NAMES are unrelated to bfg9000 (not documented in '
    'doc/reference/environment-vars.md, not read anywhere in the tree)',
    'stub tool chain vcc/vc++/var; Ninja version answered by the reference evaluator; real '
    'pkg-config reads the generated -uninstalled.pc files at configure time',
]
EXTRA_COVERAGE = {'noise_variable_names': c13gen.NOISE_NAMES}

BFG = os.path.join(core.VENV_BIN, 'bfg9000')
NINEK = os.path.join(core.VENV_BIN, '9k')
PRIMARY_NAMES = ('Makefile', 'build.ninja', 'compile_commands.json')


def floors(tier):
    q = tier == 'quick'
    return {'configures': 100 if q else 1200,
            'buildfile-compared': 80 if q else 1000,
            'compdb-compared': 80 if q else 1000,
            'pc-files-compared': 300 if q else 4000,
            'find_deps-compared': 80 if q else 1000,
            'find_cache-compared': 80 if q else 1000,
            'environ-compared': 80 if q else 1000,
            'regenerates': 12 if q else 120,
            'regen-files-compared': 80 if q else 800,
            'find_deps-order-differs': 5,       # positive control: the seeds did reorder sets
            'seed:random': 10,
            'PWD:logical': 20 if q else 200,
            'distinct_nontrivial': 12 if q else 120}


# small projects whose pkg_config() calls keep SEVERAL specifiers for one package (ranges,
# bounds plus exclusions, public and private lists naming one package): today they are refused
# at configure time - identically for every run -, and if they are ever accepted their entries
# must come out in one order
MINI = {
    'pc-requirement-range': "project('mini', '1.0')\n"
        "pkg_config('mini', version='1.0', requires=[('zlib', '>=1.2,<2.0')])\n",
    'pc-requirement-bound-and-exclusions': "project('mini', '1.0')\n"
        "pkg_config('mini', version='1.0', requires=[('zlib', '>=3,!=3.1,!=3.4'), 'libffi'], "
        "requires_private=[('tinfo', '>=6,<7')])\n",
    'pc-requirement-public-and-private': "project('mini', '1.0')\n"
        "pkg_config('mini', version='1.0', requires=[('zlib', '>=1.2')], "
        "requires_private=[('zlib', '<2.0'), ('liblz4', '!=1.5,!=1.7')])\n",
}


def cases(tier, seed):
    nproj = 10 if tier == 'quick' else 100
    for j, name in enumerate(sorted(MINI)):
        rr = core.rng_for(seed, 'c13mini', j)
        yield {'index': 'mini:' + name, 'backend': ('make', 'ninja')[j % 2],
               'project': {'files': {'build.bfg': MINI[name]}, 'features': ['mini:' + name],
                           'conf_args': [], 'const_env': {}, 'toolchain': None,
                           'name': name, 'dag_nodes': 0},
               'runs': c13gen.gen_runs(rr, 6 if tier == 'quick' else 10), 'regen': []}
    for i in range(nproj):
        rng = core.rng_for(seed, 'c13', i)
        project = c13gen.gen_project(rng, i)
        nruns = 6 if tier == 'quick' else rng.randint(7, 10)
        for backend in ('make', 'ninja'):
            rr = core.rng_for(seed, 'c13runs', i, backend)
            runs = c13gen.gen_runs(rr, nruns)
            regen = [{'seed': rr.choice(['3', '17', '5', '123456']),
                      'cwd': rr.choice(['build', 'parent', 'elsewhere', 'src']),
                      'rel': rr.random() < 0.5,
                      'noise': [list(kv) for kv in rr.sample(c13gen.NOISE_POOL, rr.randint(0, 8))],
                      'order': rr.randint(1, 10 ** 6), 'pwd': rr.choice(c13gen.PWD_KINDS),
                      'via': rr.random() < 0.5,
                      'drop': []}]
            yield {'index': i, 'backend': backend, 'project': project, 'runs': runs,
                   'regen': regen}


# --------------------------------------------------------------------------
# running one invocation context

class Layout:
    def __init__(self, root):
        root = os.path.realpath(root)
        self.root = root
        if not os.path.lexists(os.path.join(root, 'link')):
            os.symlink('.', os.path.join(root, 'link'))
        self.src = os.path.join(root, 'src')
        self.parent = os.path.join(root, 'w')
        self.bld = os.path.join(root, 'w', 'bld')
        self.other = os.path.join(root, 'other', 'deep')
        self.pfx = os.path.join(root, 'pfx')

    def cwd(self, name):
        return {'src': self.src, 'parent': self.parent, 'elsewhere': self.other,
                'build': self.bld}[name]


def pwd_value(kind, cwd):
    """cwd is <root>/<rel>; <root>/link is a symlink to <root> (Layout)."""
    root = cwd
    while not os.path.islink(os.path.join(root, 'link')):
        root = os.path.dirname(root)
        if root == '/':
            return cwd
    rel = os.path.relpath(cwd, root)
    if kind == 'logical':
        return os.path.join(root, 'link', rel)
    if kind == 'stale':
        return os.path.join(root, 'link', 'w' if rel != 'w' else 'src')
    if kind == 'garbage':
        return 'not/an/absolute/path'
    return cwd          # 'physical' (True in old replay files)


def make_env(case, ctx, cwd):
    p = case['project']
    base = core.base_env(dict(proj.stub_toolchain_env(), **p['const_env']))
    items = [(k, v) for k, v in base.items()
             if k != 'PYTHONHASHSEED' and k not in ctx.get('drop', [])]
    items.append(('PYTHONHASHSEED', ctx['seed']))
    items += [tuple(kv) for kv in ctx['noise']]
    if ctx.get('pwd'):
        items.append(('PWD', pwd_value(ctx['pwd'], cwd)))
    if ctx.get('order'):
        random.Random(ctx['order']).shuffle(items)
    return dict(items)


def invocation(case, ctx, lay):
    """-> (argv, cwd, needs_builddir)"""
    argv, cwd, need = _invocation(case, ctx, lay)
    if ctx.get('bare'):
        # core.base_env puts /venv/bin on PATH
        argv = [os.path.basename(argv[0])] + argv[1:]
    return argv, cwd, need


def _invocation(case, ctx, lay):
    p = case['project']
    sp = ctx['spelling']
    tail = ['--backend', case['backend'], '--no-resolve-packages', '--prefix', lay.pfx] + \
        list(p['conf_args'])
    if p['toolchain']:
        tail += ['--toolchain', os.path.join(lay.src, p['toolchain'])]
    rel = os.path.relpath
    if sp == 'configure-abs-build':
        return [BFG, 'configure', lay.bld] + tail, lay.src, False
    if sp == 'configure-rel-build':
        return [BFG, 'configure', rel(lay.bld, lay.src)] + tail, lay.src, False
    if sp == 'configure-abs-src-from-build':
        return [BFG, 'configure', lay.src] + tail, lay.bld, True
    if sp == 'configure-rel-src-from-build':
        return [BFG, 'configure', rel(lay.src, lay.bld)] + tail, lay.bld, True
    if sp == '9k-build':
        return [NINEK, rel(lay.bld, lay.src)] + tail, lay.src, False
    if sp == '9k-src-from-build':
        return [NINEK, lay.src] + tail, lay.bld, True
    cwd = lay.cwd(ctx['cwd'] or 'elsewhere')
    if sp == 'into-abs':
        return [BFG, 'configure-into', lay.src, lay.bld] + tail, cwd, False
    if sp == 'into-rel':
        return [BFG, 'configure-into', rel(lay.src, cwd), rel(lay.bld, cwd)] + tail, cwd, False
    if sp == 'into-rel-dotted':
        return [BFG, 'configure-into', './' + rel(lay.src, cwd) + '/',
                './' + rel(lay.bld, cwd) + '/'] + tail, cwd, False
    raise ValueError(sp)


def snapshot(bld):
    snap = {}
    for d, ds, fs in os.walk(bld):
        for n in fs:
            p = os.path.join(d, n)
            with open(p, 'rb') as f:
                snap[os.path.relpath(p, bld)] = f.read()
    return snap


def run_configure(case, ctx, lay):
    shutil.rmtree(lay.bld, ignore_errors=True)
    os.makedirs(lay.parent, exist_ok=True)
    os.makedirs(lay.other, exist_ok=True)
    argv, cwd, need = invocation(case, ctx, lay)
    if need:
        os.makedirs(lay.bld)
    rc, out = core.run(argv, cwd=pwd_value('logical', cwd) if ctx.get('via') else cwd,
                       env=make_env(case, ctx, cwd), timeout=180)
    return rc, out, (snapshot(lay.bld) if os.path.isdir(lay.bld) else {})


def run_regenerate(case, ctx, lay):
    cwd = lay.cwd(ctx['cwd'])
    if ctx['cwd'] == 'build':
        arg = ['.'] if ctx['rel'] else []
    else:
        arg = [os.path.relpath(lay.bld, cwd) if ctx['rel'] else lay.bld]
    rc, out = core.run([BFG, 'regenerate'] + arg,
                       cwd=pwd_value('logical', cwd) if ctx.get('via') else cwd,
                       env=make_env(case, ctx, cwd), timeout=180)
    return rc, out, snapshot(lay.bld)


# --------------------------------------------------------------------------
# classification of differences (all derived from the two texts)

FIXED_TARGETS = ('all', 'install', 'uninstall', 'clean', 'test', 'tests', 'dist', 'dist-gzip',
                 'dist-bzip2', 'dist-zip', '.PHONY', 'Makefile', 'build.ninja', 'FORCE',
                 'everything', 'xall', 'xcopy', 'xcopy2', 'xtestdeps')


def _target_kind(t):
    t = t.strip().split(' ')[0] if t.strip() else ''
    if t in FIXED_TARGETS:
        return t
    if t.startswith('pkg-config-'):
        return 'pkg-config-alias'
    return 'other-target'


def where_make(lines, i):
    line = lines[i]
    if line.startswith('\t'):
        j = i
        while j >= 0 and (lines[j].startswith('\t') or not lines[j].strip()):
            j -= 1
        head = lines[j] if j >= 0 else ''
        return 'recipe:' + _target_kind(head.partition(':')[0]), head.partition(':')[0][:80]
    if line.startswith('#'):
        return 'comment', line[:80]
    if line.startswith(('include ', '-include ', 'sinclude ')):
        return 'include', line[:80]
    m = re.match(r'^(?:override\s+|export\s+)?([A-Za-z_.][\w.]*)\s*(:=|::=|\?=|\+=|=)', line)
    if m:
        return 'variable', m.group(1)
    if ':' in line:
        t = line.partition(':')[0]
        return 'rule:' + _target_kind(t), t[:80]
    return 'other', line[:80]


def where_ninja(lines, i):
    line = lines[i]
    if line.startswith(' '):
        j = i
        while j >= 0 and lines[j].startswith(' '):
            j -= 1
        head = lines[j] if j >= 0 else ''
        if head.startswith('rule '):
            return 'rule-binding', head[:80]
        outs = head[6:].partition(':')[0] if head.startswith('build ') else head
        return 'build-binding:' + _target_kind(outs), outs[:80]
    if line.startswith('build '):
        outs = line[6:].partition(':')[0]
        return 'build:' + _target_kind(outs), outs[:80]
    if line.startswith('rule '):
        return 'rule', line[:80]
    if line.startswith('default'):
        return 'default', ''
    if line.startswith('#'):
        return 'comment', line[:80]
    if '=' in line:
        return 'variable', line.partition('=')[0].strip()
    return 'other', line[:80]


def where_pc(lines, i):
    line = lines[i]
    m = re.match(r'^([A-Za-z_.]+)\s*([:=])', line)
    if m:
        return ('field:' if m.group(2) == ':' else 'variable:') + m.group(1), m.group(1)
    return 'other', line[:60]


def _tokens(line):
    return sorted(t for t in re.split(r'[\s,]+', line) if t)


def text_diff(a, b, where_fn):
    """-> (diffkind, where_kind, where_name, small diff)"""
    la, lb = a.split('\n'), b.split('\n')
    small = [l[:300] for l in difflib.unified_diff(la, lb, 'reference', 'other', n=0,
                                                   lineterm='')][:14]
    if sorted(la) == sorted(lb):
        i = next(k for k in range(len(la)) if la[k] != lb[k])
        wk, wn = where_fn(la, i)
        return 'line-order', wk, wn, small
    from collections import Counter
    ca, cb = Counter(la), Counter(lb)
    only_a = [k for k in range(len(la)) if ca[la[k]] > cb[la[k]]]
    only_b = [k for k in range(len(lb)) if cb[lb[k]] > ca[lb[k]]]
    if only_a:
        i = only_a[0]
        wk, wn = where_fn(la, i)
        ta = _tokens(la[i])
        for k in only_b:
            if _tokens(lb[k]) == ta:
                # show where the two token sequences part
                xa, xb = la[i].split(), lb[k].split()
                j = next((n for n in range(min(len(xa), len(xb))) if xa[n] != xb[n]), 0)
                small = ['token %d of %d' % (j, len(xa)), ' '.join(xa[max(0, j - 2):j + 8])[:400],
                         ' '.join(xb[max(0, j - 2):j + 8])[:400]] + small[:6]
                return 'token-order', wk, wn, small
        return 'content', wk, wn, small
    wk, wn = where_fn(lb, only_b[0])
    return 'extra-lines', wk, wn, small


def compdb_diff(a, b):
    try:
        ja, jb = json.loads(a), json.loads(b)
    except ValueError:
        return 'unparsable', 'json', '', []
    ka = [json.dumps(e, sort_keys=True) for e in ja]
    kb = [json.dumps(e, sort_keys=True) for e in jb]
    if sorted(ka) == sorted(kb):
        i = next(k for k in range(len(ka)) if ka[k] != kb[k])
        return 'entry-order', 'entries', ja[i].get('output', ja[i].get('file', '')), \
            [ka[i][:300], kb[i][:300]]
    if len(ka) != len(kb):
        return 'entry-count', 'entries', '', [len(ka), len(kb)]
    for ea, eb in zip(ja, jb):
        if ea != eb:
            fields = sorted(k for k in set(ea) | set(eb) if ea.get(k) != eb.get(k))
            f = fields[0]
            va, vb = ea.get(f), eb.get(f)
            kind = 'content'
            if isinstance(va, list) and isinstance(vb, list) and sorted(va) == sorted(vb):
                kind = 'token-order'
            elif isinstance(va, str) and isinstance(vb, str) and _tokens(va) == _tokens(vb):
                kind = 'token-order'
            return kind, 'entry-field:' + f, ea.get('output', ea.get('file', '')), \
                [json.dumps(va)[:400], json.dumps(vb)[:400]]
    return 'key-order', 'entries', '', []


def parse_find_deps(text):
    lines = text.split('\n')
    target, _, deps = lines[0].partition(':')
    return target.strip(), sorted(deps.split()), sorted(l for l in lines[1:] if l)


def norm_find_cache(text):
    d = json.loads(text)
    rf = d['data']['regen_files']
    for k in ('inputs', 'outputs'):
        rf[k] = sorted(rf[k], key=json.dumps)
    d['data']['cache'] = sorted(d['data']['cache'], key=lambda e: json.dumps(e[0], sort_keys=True))
    return d


def norm_environ(text):
    d = json.loads(text)
    v = d['data'].get('variables', {})
    for part in ('initial', 'current'):
        if isinstance(v.get(part), dict):
            v[part] = {k: x for k, x in v[part].items() if k not in c13gen.NOISE_NAMES}
    return d


def file_kind(rel):
    base = os.path.basename(rel)
    if rel in PRIMARY_NAMES:
        return rel
    if rel.endswith('.pc'):
        return '*.pc'
    if base.startswith('.bfg_'):
        return base
    return 'other-file'


def compare_file(rel, a, b, backend, res, count=True):
    """a = reference bytes, b = other bytes.  -> None | (scope, filekind, diffkind, where, detail)"""
    kind = file_kind(rel)
    # .pc files and .bfg_environ are written by back-end independent code
    scope = {'*.pc': 'pkg-config', '.bfg_environ': 'environment'}.get(kind, backend)
    ev = {'Makefile': 'buildfile-compared', 'build.ninja': 'buildfile-compared',
          'compile_commands.json': 'compdb-compared', '*.pc': 'pc-files-compared',
          '.bfg_find_deps': 'find_deps-compared', '.bfg_find_cache': 'find_cache-compared',
          '.bfg_environ': 'environ-compared'}.get(kind, 'other-files-compared')
    if count:
        res.ev(ev)
    if a == b:
        return None
    ta, tb = a.decode('utf-8', 'replace'), b.decode('utf-8', 'replace')
    if kind in ('Makefile', 'build.ninja', '*.pc', 'other-file'):
        fn = {'Makefile': where_make, 'build.ninja': where_ninja, '*.pc': where_pc}.get(
            kind, lambda lines, i: ('line', lines[i][:60]))
        dk, wk, wn, small = text_diff(ta, tb, fn)
        return scope, kind, dk, wk, {'where': wn, 'diff': small}
    if kind == 'compile_commands.json':
        dk, wk, wn, small = compdb_diff(ta, tb)
        return scope, kind, dk, wk, {'where': wn, 'diff': small}
    if kind == '.bfg_find_deps':
        pa, pb = parse_find_deps(ta), parse_find_deps(tb)
        if pa == pb:
            res.ev('find_deps-order-differs')
            return None
        which = ['target', 'dependencies', 'empty-rules'][[x != y for x, y in zip(pa, pb)].index(True)]
        return scope, kind, 'entry-set', which, {
            'where': which, 'diff': [str(sorted(set(map(str, pa[1])) ^ set(map(str, pb[1]))))[:600],
                                     str(sorted(set(pa[2]) ^ set(pb[2])))[:600]]}
    if kind == '.bfg_find_cache':
        try:
            na, nb = norm_find_cache(ta), norm_find_cache(tb)
        except (ValueError, KeyError, TypeError):
            return scope, kind, 'unparsable', 'json', {'where': '', 'diff': [ta[:200], tb[:200]]}
        if na == nb:
            res.ev('find_cache-order-differs')
            return None
        if na['data']['regen_files'] != nb['data']['regen_files']:
            return scope, kind, 'entry-set', 'regen_files', {
                'where': 'regen_files', 'diff': [json.dumps(na['data']['regen_files'])[:500],
                                                 json.dumps(nb['data']['regen_files'])[:500]]}
        ea = {json.dumps(e[0], sort_keys=True): e[1:] for e in na['data']['cache']}
        eb = {json.dumps(e[0], sort_keys=True): e[1:] for e in nb['data']['cache']}
        if set(ea) != set(eb):
            return scope, kind, 'entry-set', 'filters', {
                'where': 'cache', 'diff': sorted(set(ea) ^ set(eb))[:3]}
        for k in ea:
            if ea[k] != eb[k]:
                perm = sorted(map(json.dumps, ea[k][0])) == sorted(map(json.dumps, eb[k][0]))
                return scope, kind, 'found-order' if perm else 'content', 'results', {
                    'where': k[:300], 'diff': [json.dumps(ea[k])[:400], json.dumps(eb[k])[:400]]}
        return scope, kind, 'content', 'other', {'where': '', 'diff': []}
    if kind == '.bfg_environ':
        try:
            na, nb = norm_environ(ta), norm_environ(tb)
        except (ValueError, KeyError, TypeError):
            return scope, kind, 'unparsable', 'json', {'where': '', 'diff': [ta[:200], tb[:200]]}
        if na == nb:
            return None
        if na.get('version') != nb.get('version'):
            return scope, kind, 'content', 'version', {'where': 'version', 'diff': []}
        for k in sorted(set(na['data']) | set(nb['data'])):
            va, vb = na['data'].get(k), nb['data'].get(k)
            if va != vb:
                if k == 'variables':
                    for part in ('initial', 'current'):
                        xa, xb = va.get(part, {}), vb.get(part, {})
                        names = sorted(n for n in set(xa) | set(xb) if xa.get(n) != xb.get(n))
                        if names:
                            return scope, kind, 'content', 'variables:' + part, {
                                'where': ','.join(names)[:200],
                                'diff': [[n, xa.get(n), xb.get(n)] for n in names[:5]]}
                return scope, kind, 'content', 'field:' + k, {
                    'where': k, 'diff': [json.dumps(va)[:300], json.dumps(vb)[:300]]}
    return scope, kind, 'content', 'other', {'where': '', 'diff': []}


def compare_snapshots(ref, other, backend, res, count=True):
    """-> list of (rel, scope, filekind, diffkind, where, detail)"""
    out = []
    if set(ref) != set(other):
        miss = sorted(set(ref) ^ set(other))
        out.append((miss[0], backend, file_kind(miss[0]), 'file-set', 'present-in-one-run-only',
                    {'where': ','.join(miss)[:300], 'diff': miss[:10]}))
    for rel in sorted(set(ref) & set(other)):
        d = compare_file(rel, ref[rel], other[rel], backend, res, count)
        if d is not None:
            out.append((rel,) + d)
    return out


# --------------------------------------------------------------------------

def isolate(case, lay, ref_snap, ctx, rel, res):
    """Which varied dimension reproduces a difference in file `rel` against run 0?"""
    r0 = case['runs'][0]
    probes = [('none (identical context repeated: pid/time/race)', dict(r0))]
    seeds = [ctx['seed']] if ctx['seed'] != 'random' else []
    probes += [('hashseed', dict(r0, seed=s)) for s in seeds + ['1', '2', '3', '4']
               if s != r0['seed']]
    probes.append(('invocation', dict(r0, spelling=ctx['spelling'], cwd=ctx['cwd'],
                                      pwd=ctx.get('pwd', False), via=ctx.get('via', False))))
    probes.append(('environment', dict(r0, noise=ctx['noise'], order=ctx['order'],
                                       drop=ctx.get('drop', []))))
    dummy = CaseResult()
    for factor, c in probes:
        rc, out, snap = run_configure(case, c, lay)
        res.ev('isolating-configures')
        if rc != 0 or rel not in snap or rel not in ref_snap:
            continue
        if compare_file(rel, ref_snap[rel], snap[rel], case['backend'], dummy, False):
            return factor, c
    return 'unattributed', None


def subject_fingerprint():
    """(path, mtime, size) of every module of the bfg9000 tree under test.  Other builders share
    this machine and /repo is edited while checks run: a case whose runs saw two different
    versions of the subject compares apples with oranges and must not be judged."""
    out = []
    top = os.path.join(core.REPO, 'bfg9000')
    for d, ds, fs in os.walk(top):
        ds[:] = [x for x in ds if x != '__pycache__']
        for n in fs:
            if n.endswith('.py'):
                st = os.stat(os.path.join(d, n))
                out.append((os.path.join(d, n), st.st_mtime_ns, st.st_size))
    return sorted(out)


def run_case(case):
    before = subject_fingerprint()
    res = _run_case(case)
    after = subject_fingerprint()
    if before != after:
        changed = sorted({a[0] for a in set(before) ^ set(after)})
        res = CaseResult()
        res.inconclusive = 'bfg9000 tree under test changed while the case ran: ' + \
            ', '.join(os.path.relpath(c, core.REPO) for c in changed[:4])
    return res


def _run_case(case):
    res = CaseResult()
    backend = case['backend']
    p = case['project']
    lay = Layout(core.mkscratch('c13'))
    wb = {'index': case.get('index'), 'backend': backend, 'features': p['features']}
    try:
        proj.write_tree(lay.src, p['files'])
        snaps = []
        for k, ctx in enumerate(case['runs']):
            rc, out, snap = run_configure(case, ctx, lay)
            res.ev('configures')
            res.ev('spelling:' + ctx['spelling'])
            res.ev('seed:random' if ctx['seed'] == 'random' else 'seed:fixed')
            res.ev('noise-vars', len(ctx['noise']))
            res.ev('PWD:' + str(ctx.get('pwd') or 'unset'))
            if ctx.get('via'):
                res.ev('cwd-through-symlink')
            if ctx.get('bare'):
                res.ev('found-through-PATH')
            res.classes.add('spelling:' + ctx['spelling'])
            if ctx.get('cwd'):
                res.classes.add('into-cwd:' + ctx['cwd'])
            snaps.append((rc, out, snap))
        res.evaluations = len(snaps)
        rcs = [s[0] for s in snaps]
        if len(set(rc != 0 for rc in rcs)) > 1:
            bad = next(k for k, rc in enumerate(rcs) if (rc != 0) != (rcs[0] != 0))
            res.violate((backend, 'configure-outcome-differs'),
                        dict(wb, run=case['runs'][bad], reference=case['runs'][0],
                             rcs=rcs, output=snaps[bad][1][-800:], ref_output=snaps[0][1][-800:],
                             __case__=dict(case, runs=[case['runs'][0], case['runs'][bad]],
                                           regen=[])))
            return res
        contexts = sorted({(c['seed'], c['spelling'], c.get('cwd')) for c in case['runs']})
        if rcs[0] != 0:
            res.ev('projects-refused')
            res.key([core.digest(p['files']), backend, contexts], False)
            res.notes.append('project %s refused: %s' % (case.get('index'), snaps[0][1][-300:]))
            return res
        ref = snaps[0][2]
        npc = sum(1 for r in ref if r.endswith('.pc'))
        ndirs = len(parse_find_deps(ref['.bfg_find_deps'].decode())[1]) \
            if '.bfg_find_deps' in ref else 0
        res.ev('find-dirs-entries', ndirs)
        res.ev('pc-files', npc)
        res.ev('install-lines', ref.get('Makefile', ref.get('build.ninja', b'')).count(b'DOPPEL')
               + ref.get('build.ninja', b'').count(b'doppel'))
        res.classes.update('feature:' + f for f in p['features'])
        res.key([core.digest(p['files']), backend, contexts],
                npc >= 3 and ndirs >= 4 and len(contexts) >= 5)

        reported = set()
        attributions = 0
        for k in range(1, len(snaps)):
            for rel, scope, fkind, dkind, where, detail in compare_snapshots(
                    ref, snaps[k][2], backend, res):
                sig = (scope, fkind, dkind, where, 'configure')
                if sig in reported:
                    res.ev('repeat-differences')
                    continue
                reported.add(sig)
                ctx = case['runs'][k]
                factor, minimal = 'unattributed', None
                if attributions < 3:
                    attributions += 1
                    factor, minimal = isolate(case, lay, ref, ctx, rel, res)
                res.violate(sig,
                            dict(wb, file=rel, difference=dkind, where=detail['where'],
                                 diff=detail['diff'], factor=factor, reference_run=case['runs'][0],
                                 differing_run=ctx, isolating_run=minimal,
                                 __case__=dict(case, runs=[case['runs'][0], minimal or ctx],
                                               regen=[])))
        # ---- regenerate on top of a configured build directory
        if case.get('regen'):
            last = case['runs'][-1]
            dirty = attributions > 0
            for ctx in case['regen']:
                if dirty:
                    rc, out, base = run_configure(case, last, lay)
                    res.ev('configures')
                    dirty = False
                else:
                    rc, out, base = snaps[-1]
                if rc != 0:     # cannot happen: the same invocation succeeded above
                    res.inconclusive = 're-configure before regenerate failed: ' + out[-300:]
                    return res
                rc, out, snap = run_regenerate(case, ctx, lay)
                dirty = True
                res.ev('regenerates')
                res.classes.add('regen-cwd:' + ctx['cwd'] + (':rel' if ctx['rel'] else ':abs'))
                if rc != 0:
                    res.violate((backend, 'regenerate-failed'),
                                dict(wb, run=ctx, output=out[-1200:],
                                     __case__=dict(case, runs=[case['runs'][0], last],
                                                   regen=[ctx])))
                    continue
                before = sum(res.events.get(n, 0) for n in list(res.events)
                             if n.endswith('-compared'))
                diffs = compare_snapshots(base, snap, backend, res)
                after = sum(res.events.get(n, 0) for n in list(res.events)
                            if n.endswith('-compared'))
                res.ev('regen-files-compared', after - before)
                psnap = None
                for rel, scope, fkind, dkind, where, detail in diffs:
                    sig = (scope, fkind, dkind, where)
                    if sig + ('configure',) in reported or sig + ('regenerate',) in reported:
                        res.ev('repeat-differences')
                        continue
                    # is it regenerate-specific, or would a fresh configure in the same
                    # context (hash seed, environment) differ in the same way?
                    if psnap is None:
                        pctx = dict(last, seed=ctx['seed'], noise=ctx['noise'], order=ctx['order'],
                                    drop=ctx.get('drop', []), pwd=False)
                        prc, pout, psnap = run_configure(case, pctx, lay)
                        res.ev('isolating-configures')
                    phase = 'regenerate'
                    if prc == 0 and rel in psnap and rel in base:
                        d = compare_file(rel, base[rel], psnap[rel], backend, CaseResult(), False)
                        if d is not None and d[:4] == sig:
                            phase = 'configure'
                    reported.add(sig + (phase,))
                    res.violate(sig + (phase,),
                                dict(wb, file=rel, difference=dkind, where=detail['where'],
                                     diff=detail['diff'], factor='regenerate' if phase ==
                                     'regenerate' else 'hashseed-or-environment',
                                     configured_by=last, regenerated_by=ctx,
                                     __case__=dict(case, runs=[case['runs'][0], last],
                                                   regen=[ctx])))
        res.sample = {'index': case.get('index'), 'backend': backend, 'features': p['features'],
                      'conf_args': p['conf_args'], 'const_env': p['const_env'],
                      'runs': case['runs'], 'regen': case.get('regen'),
                      'files_written': sorted(ref), 'pc_files': npc, 'find_dirs': ndirs,
                      'source_files': len(p['files']),
                      'build.bfg': p['files']['build.bfg'][:1800]}
        return res
    finally:
        core.rmtree(lay.root)
