"""C03 - Generated dependency graph equals the graph the build script describes."""
import os

from .. import core, proj
from ..core import CaseResult
from ..gen import dag, dagrun

LEVEL = 'exploration'
MODE = 'thread'
RULE = ('seeded random build-graph specs (vf/gen/dag.py: 4-22 nodes of object files from '
        'sources or generated sources, static/shared libraries, executables with explicit and '
        'implicit objects, build_steps with 1-3 outputs (some always_outdated), copy_file in 3 '
        'modes, aliases, commands, tests/test_deps, extra_deps, includes= headers, default()/'
        'install()) rendered to build.bfg; per spec and back end: clean default build, no-op '
        'rebuild, build of everything, one rebuild per touched file (all of them in thorough, '
        '<= 8 in quick), clean + build of each alias and of `tests`; the recording stub tool chain '
        'shows which steps really ran; distinct = (graph shape hash, backend, kind of touched '
        'file); non-trivial = touched file has >= 2 downstream steps or the script has a '
        'multi-output or always-outdated step')
ASSUMPTIONS = [
    'model of what each step consumes/produces is vf/gen/dag.py:Model (never imports bfg9000)',
    'stub tools give every rebuilt output a fresh mtime, so "exactly the downstream steps" is '
    'what any correct mtime-based tool does',
    'timestamp discipline of DESIGN.md Appendix C.2 (kernel clock only, strictly newer, verified)',
    'Ninja half executed by vf/ref/refninja.py',
]


def floors(tier):
    return {'touch-observations': 100, 'builds:default-clean': 20, 'builds:noop': 20,
            'targets:alias-or-tests': 10, 'failed-step:injected': 25, 'distinct_nontrivial': 15}


def cases(tier, seed):
    for backend in ('make', 'ninja'):
        yield {'kind': 'jbos', 'backend': backend}
    rng = core.rng_for(seed, 'c03')
    n = 24 if tier == 'quick' else 400
    for i in range(n):
        spec = dag.gen_spec(core.rng_for(seed, 'c03spec', i))
        # library() nodes are shared, dual-use or static, as the project is configured
        margs = [[], ['--enable-static'], ['--disable-shared', '--enable-static']][i % 3]
        dag.set_mode(spec, *dag.mode_of_args(margs))
        for backend in ('make', 'ninja'):
            yield {'spec': spec, 'backend': backend, 'index': i, 'conf_args': margs,
                   'max_touch': 8 if tier == 'quick' else 1000,
                   'max_fail': 2 if tier == 'quick' else 6,
                   'touch_seed': '%d/%d' % (seed, i)}


def _cmp(res, p, what, got_sids, expected, extra, witness_base, optional_extra=()):
    got = set(got_sids)
    dup = sorted(s for s in got if got_sids.count(s) > 1 and
                 not s.startswith('test') and s != 'doppel')
    got = {s for s in got if not s.startswith('test') and s != 'doppel'}
    # a symlink 'copy' always reflects its target: make/ninja rightly see it as up to
    # date when the target was rebuilt, so its re-run is optional (never *required*)
    optional = {s for s in expected if _symlink_copy(p.model, s)} | set(optional_extra)
    expected = (set(expected) - optional) | (optional & got)
    ok = True
    if got != set(expected):
        missing = sorted(set(expected) - got)
        spurious = sorted(got - set(expected))
        kinds = sorted({p.model.steps[s]['kind'] for s in missing + spurious
                        if s in p.model.steps})
        multi = any(len(p.model.steps[s]['out']) > 1 for s in p.model.steps)
        res.violate((p.backend, what,
                     'missing' if missing and not spurious else
                     'spurious' if spurious and not missing else 'both',
                     '+'.join(kinds)),
                    dict(witness_base, what=what, missing=missing, spurious=spurious,
                         has_multi_output_step=multi, **extra))
        ok = False
    if dup:
        res.violate((p.backend, what, 'ran-twice'),
                    dict(witness_base, what=what, ran_twice=dup, **extra))
        ok = False
    return ok


JBOS_BFG = (
    "a = build_step('a.txt', cmd=['vrec', '--id=1', '--touch', build_step.output, '--end'])\n"
    "b = build_step('b.txt', cmd=['vrec', '--id=2', '--in=' + a, '--touch', build_step.output, "
    "'--end'])\n"
    "c = build_step('c.txt', cmd=['vrec', '--id=3', '--data=' + generic_file('d.dat'), '--touch', "
    "build_step.output, '--end'])\n"
    "d = command('d', cmd=['vrec', '--id=4', '--in=' + a])\n"
    "default(b, c)\n")


def run_jbos(case):
    """A file object that is PART of a command word ('--in=' + file): the documentation makes
    every file object specified in a command a dependency of the step."""
    res = CaseResult()
    backend = case['backend']
    root = core.mkscratch('c03j')
    try:
        src, bld, log = (os.path.join(root, x) for x in ('src', 'bld', 'log'))
        proj.write_tree(src, {'build.bfg': JBOS_BFG, 'd.dat': 'data\n'})
        env = core.base_env(proj.stub_toolchain_env(log, backend))
        rc, out = proj.configure(src, bld, backend, env=env)
        res.evaluations = 3
        res.key(['jbos', backend], True)
        if rc != 0:
            res.violate((backend, 'configure-failed'), {'backend': backend, 'output': out[-800:]})
            return res

        def build(targets=()):
            proj.clear_log(log)
            proj.settle()
            rc, out = proj.build(bld, backend, list(targets), env=env,
                                 extra=['-k'] if backend == 'make' else ['-k', '0'])
            ids = sorted(a[5:] for r in proj.read_log(log) for a in r['argv'][1:2]
                         if a.startswith('--id='))
            return rc, out, ids

        def bad(kind, **kw):
            res.violate((backend, 'file-inside-a-command-word', 'not-a-dependency', kind),
                        dict(kw, backend=backend, script=JBOS_BFG))
        rc, out, ids = build()
        res.ev('jbos:builds')
        if '1' not in ids:
            bad('generated-file/not-built-first', ran=ids, rc=rc)
            build(['a.txt'])
            build()
        proj.bump(os.path.join(bld, 'a.txt'), bld, src)
        rc, out, ids = build()
        res.ev('jbos:builds')
        if '2' not in ids:
            bad('generated-file/change-not-noticed', ran=ids)
        proj.bump(os.path.join(src, 'd.dat'), bld, src)
        rc, out, ids = build()
        res.ev('jbos:builds')
        if '3' not in ids:
            bad('source-file/change-not-noticed', ran=ids)
        res.sample = {'backend': backend, 'build.bfg': JBOS_BFG}
        return res
    finally:
        core.rmtree(root)


def run_case(case):
    if case.get('kind') == 'jbos':
        return run_jbos(case)
    res = CaseResult()
    spec, backend = case['spec'], case['backend']
    p = dagrun.Project(spec, backend, stub_install=True, conf_args=case.get('conf_args', ()))
    m = p.model
    wb = {'backend': backend, 'index': case.get('index')}
    try:
        p.materialise()
        rc, out = p.configure()
        if rc != 0:
            res.violate((backend, 'configure-failed'),
                        dict(wb, output=out[-1500:]))
            return res
        res.evaluations = 0
        multi = any(len(st['out']) > 1 or st['always'] for st in m.steps.values())
        shape = m.shape()

        # 1. clean default build
        rc, out, recs = p.build()
        all_recs = list(recs)
        sids, unknown = p.classify(recs)
        res.ev('builds:default-clean')
        res.evaluations += 1
        dflt = m.default_steps()
        if rc != 0:
            res.violate((backend, 'default-build-failed'), dict(wb, output=out[-1500:]))
            return res
        if unknown:
            res.violate((backend, 'unmodelled-step'), dict(wb, unknown=unknown[:5]))
        _cmp(res, p, 'default-clean', sids, dflt, {}, wb)
        miss = p.missing_outputs(dflt)
        if miss:
            res.violate((backend, 'output-not-created'), dict(wb, missing_files=miss))
        res.key([shape, backend, 'default'], multi)

        # 2. immediately again
        rc, out, recs = p.build()
        sids, unknown = p.classify(recs)
        res.ev('builds:noop')
        res.evaluations += 1
        _cmp(res, p, 'noop-after-default', sids, m.always_steps(dflt), {}, wb)

        # 3. everything
        allsteps = m.everything_steps()
        rc, out, recs = p.build(['everything'])
        all_recs += recs
        sids, unknown = p.classify(recs)
        res.evaluations += 1
        if rc != 0:
            res.violate((backend, 'everything-build-failed'), dict(wb, output=out[-1500:]))
            return res
        _cmp(res, p, 'everything-after-default', sids,
             (allsteps - dflt) | m.always_steps(allsteps), {}, wb)
        rc, out, recs = p.build(['everything'])
        sids, unknown = p.classify(recs)
        res.ev('builds:noop')
        res.evaluations += 1
        _cmp(res, p, 'noop-after-everything', sids, m.always_steps(allsteps), {}, wb)

        # 4. touches
        rng = core.rng_for(0, 'c03touch', case['touch_seed'], backend)
        cands = m.source_files() + [f for f in m.intermediate_files()
                                    if not _linky(m, f)]
        if backend == 'ninja':
            # Ninja itself re-runs a deps=gcc edge whose output is newer than its
            # recorded deps ("stored deps info out of date"): touching an object
            # file legitimately recompiles it under Ninja, whatever bfg9000 wrote.
            before = len(cands)
            cands = [f for f in cands if not (f.startswith('B:') and
                     m.steps[m.producer[f]]['kind'] in ('compile', 'pch'))]
            if before != len(cands):
                res.exclude('ninja: touched compile output (deps=gcc staleness rule)',
                            before - len(cands))
        if len(cands) > case['max_touch']:
            cands = rng.sample(cands, case['max_touch'])
        for f in cands:
            p.touch(f)
            rc, out, recs = p.build(['everything'])
            sids, unknown = p.classify(recs)
            res.ev('touch-observations')
            res.evaluations += 1
            down = m.downstream(f)
            exp = down | m.always_steps(allsteps)
            kind = ('src' if f.startswith('S:') else 'intermediate') + \
                ':' + f.rsplit('.', 1)[-1]
            res.key([shape, backend, kind], len(down) >= 2 or multi)
            # utime on the source of a hard link is utime on the link itself (one inode)
            hl = {s for s in down if m.steps[s]['kind'] == 'copy' and
                  m.byid[m.steps[s]['node']]['mode'] == 'hardlink' and f in m.steps[s]['in']}
            hl_down = set()
            for s in hl:
                for o in m.steps[s]['out']:
                    hl_down |= m.downstream(o)
            ok = _cmp(res, p, 'touch', sids, exp, {'touched': f, 'touched_kind': kind}, wb,
                      optional_extra=hl)
            if rc != 0:
                res.violate((backend, 'rebuild-failed'),
                            dict(wb, touched=f, output=out[-1200:]))
            # and the build right after that does nothing
            rc, out, recs = p.build(['everything'])
            sids, unknown = p.classify(recs)
            res.ev('builds:noop')
            _cmp(res, p, 'noop-after-touch', sids, m.always_steps(allsteps),
                 {'touched': f, 'touched_kind': kind}, wb)

        # 4b. a step that fails is retried: after a touched input, one downstream step dies
        # (injected: the stub tool exits 1 before writing anything); the next build must run
        # that step and everything downstream of it again, and then be quiet
        first_word = {}       # sid -> an argument that identifies the step's process
        for r in all_recs:
            ss, _ = p.classify([r])
            if not ss or ss[0] not in m.steps or ss[0] in first_word:
                continue
            a = r['argv']
            ident = [x for x in a[1:3] if x.startswith('--id=')]
            if ident:
                first_word[ss[0]] = ident[0]
            elif '-o' in a[:-1]:
                first_word[ss[0]] = a[a.index('-o') + 1]
        fcands = [f for f in cands if any(s in first_word for s in m.downstream(f))]
        # (quick: two per project, those with a multi-output step downstream first)
        fcands.sort(key=lambda f: -max(len(m.steps[s]['out']) for s in m.downstream(f)))
        for f in fcands[:case.get('max_fail', 2)]:
            down = m.downstream(f)
            victims = sorted((s for s in down if s in first_word and
                              not m.steps[s]['always']),
                             key=lambda s: (-len(m.steps[s]['out']), s))
            if not victims:
                continue
            victim = victims[0] if len(m.steps[victims[0]]['out']) > 1 else rng.choice(victims)
            p.touch(f)
            rc, out, recs = p.build(['everything'],
                                    extra_env={'VSTUB_FAIL_MATCH': first_word[victim]})
            ran1, _ = p.classify(recs)
            res.ev('failed-step:injected')
            res.evaluations += 1
            wf = {'touched': f, 'failed_step': victim,
                  'failed_step_kind': m.steps[victim]['kind'],
                  'failed_step_outputs': len(m.steps[victim]['out'])}
            if victim not in ran1:
                # the step was not started at all: the touch check above has said so already
                res.ev('failed-step:victim-not-started')
                p.build(['everything'])
                continue
            if rc == 0:
                res.violate((backend, 'failed-step', 'build-reported-success'),
                            dict(wb, output=out[-600:], **wf))
            rc, out, recs = p.build(['everything'])
            ran2, _ = p.classify(recs)
            must = {victim}
            for o in m.steps[victim]['out']:
                must |= m.downstream(o)
            # steps that wait for the victim's outputs could not run in the failed build
            must |= (down - set(ran1))
            # links share their source's inode or always reflect it: their re-run is never
            # required (same rule as in the touch phase)
            must = {s for s in must if not _symlink_copy(m, s) and not (
                m.steps[s]['kind'] == 'copy' and m.byid[m.steps[s]['node']]['mode'] != 'copy')}
            lost = sorted(must - set(ran2))
            if lost or rc != 0:
                res.violate((backend, 'failed-step', 'not-retried' if lost else 'retry-failed',
                             m.steps[victim]['kind'] +
                             ('-multi' if len(m.steps[victim]['out']) > 1 else '')),
                            dict(wb, not_rerun=lost, ran_in_failed_build=sorted(set(ran1)),
                                 ran_in_next_build=sorted(set(ran2)), rc=rc,
                                 output=out[-500:], **wf))
            else:
                res.ev('failed-step:retried')
            rc, out, recs = p.build(['everything'])
            sids, unknown = p.classify(recs)
            res.ev('builds:noop')
            _cmp(res, p, 'noop-after-retry', sids, m.always_steps(allsteps), wf, wb)

        # 5. aliases and tests from clean
        targets = [(name, m.node_target_steps(members)) for name, members in
                   sorted(m.members.items())]
        # command() targets: everything the command line names must be built first
        for nd in spec['nodes']:
            if nd['kind'] == 'cmd':
                targets.append((nd['name'], m.node_target_steps([nd['id']])))
        if m.tests:
            targets.append(('tests', m.test_steps()))
        if spec.get('install'):
            # `install` builds the default set first, then runs the (stubbed) install tool
            targets.append(('install', dflt))
        if len(targets) > 4 and case['max_touch'] < 100:
            targets = rng.sample(targets, 4)
        for name, exp in targets:
            rc, out = p.clean()
            if rc != 0:
                res.violate((backend, 'clean-failed'), dict(wb, output=out[-800:]))
                break
            rc, out, recs = p.build([name])
            sids, unknown = p.classify(recs)
            res.ev('targets:alias-or-tests')
            res.evaluations += 1
            _cmp(res, p, 'target-from-clean', sids, exp, {'target': name}, wb)
            if name == 'install':
                res.ev('targets:install')
                if rc != 0 or 'doppel' not in sids:
                    res.violate((backend, 'install-target', 'did-not-run-the-install-tool'),
                                dict(wb, rc=rc, output=out[-500:]))
        res.sample = {'backend': backend, 'build.bfg': dag.render(spec)['build.bfg'],
                      'steps': len(m.steps), 'default_steps': sorted(dflt)}
        res.classes.update(st['kind'] for st in m.steps.values())
        return res
    finally:
        p.cleanup()


def _symlink_copy(m, sid):
    st = m.steps.get(sid)
    if st and st['kind'] == 'symlink':      # soname / development links of a versioned library
        return True
    return bool(st and st['kind'] == 'copy' and m.byid[st['node']]['mode'] == 'symlink')


def _linky(m, fid):
    sid = m.producer.get(fid)
    if sid and m.steps[sid]['kind'] == 'symlink':
        return True
    if sid and m.steps[sid]['kind'] == 'copy':
        nd = m.byid[m.steps[sid]['node']]
        return nd['mode'] != 'copy'
    return False
