"""C20 - Windows command lines and MSBuild solutions are well-formed and stable.

Two halves, one module; every case kind runs under the process pool.

(1) quoting
  enum1 / enumk  complete enumeration of small argument lists over the alphabet
                 {a, space, tab, ", \\} (a compact index range per case)
  lists          seeded random printable argument lists (explicit)
  jbos           jbos / shell_literal / path combinations through
                 bfg9000.shell.windows.quote and through the real Ninja writer
                 configured with the Windows shell (incl. the `cmd /s /c "..."`
                 wrapping of shell lists)
  proj           a real `bfg9000 configure --backend msbuild` of a generated
                 script whose command()/build_step() calls carry hostile
                 arguments; the `Exec Command=` attributes of the generated
                 .proj files are read back through XML (expat) -> MSBuild
                 property expansion and %XX unescaping -> cmd.exe `&&` splitting
                 -> MS C runtime argv parsing, all reference code of this
                 framework (vf/ref/msvcrt_argv.py), and compared with the
                 script's argument lists.
(2) solutions
  hist           histories of real configure / regenerate processes over scripts
                 that add, keep, rename, retype, rewire and remove
                 command/build_step/copy_file/alias steps; after every run the
                 .sln, every .proj and .bfg_uuid are parsed by this module's own
                 parsers and judged.
"""
import json
import os
import re
import xml.etree.ElementTree as ET

from .. import core
from ..core import CaseResult
from ..ref import msvcrt_argv as M

LEVEL = 'exploration'
MODE = 'process'
RULE = (
    'quoting: every string of length <= L over {a,space,tab,",\\} placed in each '
    'position of 3 fixed three-argument frames (L=6 quick, 8 thorough), every pair '
    'of strings of length <= 3 (4 thorough) and every triple of length <= 2 '
    '(3 thorough), enumerated completely; seeded random lists of 1-5 printable '
    'strings (ASCII 0x20-0x7e, tab, some non-ASCII; the cmd.exe metacharacters '
    '& | < > ^ % are never generated); jbos/shell_literal/path combinations; '
    'split() on every line of length <= 6 (8 thorough) over the same alphabet and '
    'on seeded random lines built from alternating bare/quoted segments, "" inside '
    'quotes, backslash runs, odd quote counts and tab/multi-blank separators, '
    'against the reference parser; '
    'generated msbuild projects with 8-10 steps of 1-4 hostile arguments each. '
    'solutions: histories of 5-9 configure/regenerate runs over scripts of 3-9 '
    'steps with 1-3 edits between runs; every 4th history additionally injects, at '
    'one run, two steps with one project name (command+build_step of one name, or '
    'copy_file(x)+command("copy_file_tasks/x")) - expected outcome: a non-zero exit '
    'that leaves .sln/.proj/.bfg_uuid untouched or at least well-formed, an '
    'accepted script with a duplicated name is a violation - or a step named '
    '<x>/<x>.proj. distinct = the argument list / the jbos '
    'item / (script, step) / (history, run); non-trivial = contains a blank, a '
    'quote, a backslash, an empty argument or a path part (quoting), or the run '
    'changes the project set or keeps >= 2 projects with dependencies (solutions). '
    'Enumerated spaces larger than 200k items report one key per case (they are '
    'distinct by construction; exact counts are in monitor_events enum:*).')
ASSUMPTIONS = [
    'vf/ref/msvcrt_argv.py is the MS C runtime parse_cmdline (both "" variants), '
    'written from the documented rules and self-tested against the MSDN table',
    'xml.etree/expat is the reference XML parser (bfg9000 writes with lxml/libxml2)',
    'MSBuild layer: $(Name) expansion then %XX unescaping; $(OutDir), $(IntDir), '
    '$(SolutionDir) are directories ending in a backslash (MSBuild convention, '
    'also stated in backends/msbuild/syntax.py); $(SourceDir) is read from the '
    '.proj file itself; arguments containing "$(" or "@(" are not generated',
    'cmd.exe layer: with none of & | < > ^ % in the arguments the command line '
    'reaches CreateProcess verbatim; multi-line commands (cmds=[..]) are only '
    'generated with quote-free arguments and are split at && outside cmd quotes',
    'arguments with % are observed but never judged (cmd.exe metacharacter, outside '
    'the quantifier)',
    'no MSBuild/Windows on this machine: files and return values are checked, not a '
    'Windows process',
    'project names are file-name like (letters, digits, space, . - _ and / nesting)',
    '.bfg_uuid must describe exactly the solution just written (no stale entries): '
    'taken from the comment in UuidMap.save, not from the property text',
]
EXTRA_COVERAGE = {
    'exhaustive': True,
    'exhaustive_scope': 'the enumerated argument-list spaces named in rule (not the '
                        'random lists, jbos items, projects or histories)',
}

ALPHA = 'a \t"\\'
CMD_META = '&|<>^%'
FRAMES = [[None, 'x', 'y z'], ['x\\', None, '"q'], ['p q', 'r\\\\', None]]
KEY_LIMIT = 200000

PROPS = {'OutDir': 'C:\\b ld\\out\\', 'IntDir': 'C:\\b ld\\int\\',
         'SolutionDir': 'C:\\b ld\\'}
NINJA_VARS = {'srcdir': 'C:\\s r c'}
MSB_NS = '{http://schemas.microsoft.com/developer/msbuild/2003}'
GUID = r'\{[0-9A-F]{8}-[0-9A-F]{4}-[0-9A-F]{4}-[0-9A-F]{4}-[0-9A-F]{12}\}'


class Res(CaseResult):
    """At most 3 witnesses per mechanism and case (a broken quoting function
    would otherwise ship 10^5 witnesses through the pool)."""

    def violate(self, mechanism, witness):
        mechanism = tuple(mechanism)
        n = sum(1 for m, _ in self.violations if m == mechanism)
        if n >= 3:
            self.ev('violations-beyond-3-per-case-and-mechanism')
            return
        self.violations.append((mechanism, witness))


def floors(tier):
    q = tier == 'quick'
    return {
        'join:msvcrt-post2008': 100000 if q else 1000000,
        'join:msvcrt-pre2008': 100000 if q else 1000000,
        'split:inverse': 100000 if q else 1000000,
        'quote_info:msvcrt': 20000 if q else 300000,
        'force_quote:msvcrt': 20000 if q else 300000,
        'inner_quote:msvcrt': 20000 if q else 300000,
        'jbos:shell': 200 if q else 4000,
        'jbos:ninja': 300 if q else 5000,
        'jbos:split-inverse': 500 if q else 10000,
        'split:msvcrt-lines': 20000 if q else 450000,
        'split:agrees-with-both-runtimes': 15000 if q else 300000,
        'split:agrees-without-doubled-quote-rule': 500 if q else 10000,
        'ninja:cmd-wrap': 50 if q else 800,
        'lines:join_lines': 50 if q else 800,
        'proj:configure': 15 if q else 250,
        'proj:exec-parsed': 120 if q else 2000,
        'proj:args-roundtrip': 250 if q else 4000,
        'hist:runs': 80 if q else 1500,
        'hist:sln-parsed': 80 if q else 1500,
        'hist:proj-xml-parsed': 300 if q else 6000,
        'hist:uuidmap-parsed': 80 if q else 1500,
        'hist:dependency-edges': 100 if q else 2000,
        'hist:guid-kept': 150 if q else 3000,
        'hist:projects-added': 20 if q else 400,
        'hist:projects-removed': 20 if q else 400,
        'dup-name:refused': 2 if q else 40,
        'hist:near-namesakes:case-only': 10 if q else 200,
        'hist:near-namesakes:same-basename': 5 if q else 100,
        'distinct_nontrivial': 60000 if q else 60000,
    }


# --------------------------------------------------------------------------
# enumeration by index (so that a case is a compact, generator-free range)

def count_upto(k, maxlen):
    return sum(k ** i for i in range(maxlen + 1))


def nth_string(alpha, i):
    k = len(alpha)
    ln = 0
    while i >= k ** ln:
        i -= k ** ln
        ln += 1
    out = []
    for _ in range(ln):
        out.append(alpha[i % k])
        i //= k
    return ''.join(reversed(out))


def nth_list(alpha, maxlen, arity, i):
    n = count_upto(len(alpha), maxlen)
    out = []
    for _ in range(arity):
        out.append(nth_string(alpha, i % n))
        i //= n
    return list(reversed(out))


# --------------------------------------------------------------------------
# generators

def rand_string(rng, maxlen=12):
    pool = [c for c in (chr(i) for i in range(0x20, 0x7f)) if c not in CMD_META]
    hot = [' ', '\t', '"', '\\', '\\', '"']
    extra = ['é', 'ß', '日', 'Ω']
    n = rng.choice([0, 1, 1, 2, 3, 4, 5, 6, 8, maxlen])
    out = []
    for _ in range(n):
        r = rng.random()
        if r < 0.45:
            out.append(rng.choice(hot))
        elif r < 0.5:
            out.append(rng.choice(extra))
        elif r < 0.6:
            out.append('\\' * rng.randint(1, 4) + rng.choice(['"', '', ' ']))
        else:
            out.append(rng.choice(pool))
    return ''.join(out)


def clean(s, drop):
    for a, b in drop:
        s = s.replace(a, b)
    return s


LIT_POOL = ['x', '=', '-o', 'L1', '/D', ':']
SUFFIX_POOL = ['x', 'x y', 'dir/f', 'a b/c d', 'd.e/f-g', 'n']


def gen_jbos_item(rng):
    ctx = rng.choice(['shell', 'shell', 'ninja', 'ninja', 'ninja'])
    nbits = rng.choice([1, 2, 2, 3, 3, 4])
    bits = []
    for _ in range(nbits):
        kinds = ['s', 's', 'l'] if ctx == 'shell' else ['s', 's', 'l', 'L', 'p', 'p']
        k = rng.choice(kinds)
        if bits and bits[-1][0] == k:
            k = 'l' if k == 's' else 's'
        if k == 's':
            s = rand_string(rng, 6) or 'a b'
            if rng.random() < 0.15:
                s = rng.choice(['drop dir\\', 'x y\\\\', 'a\\', 'C:\\out dir\\'])
            bits.append(['s', s])
        elif k in 'lL':
            bits.append([k, rng.choice(LIT_POOL)])
        else:
            root = rng.choice(['srcdir', 'srcdir', 'builddir', 'absolute'])
            suf = rng.choice(SUFFIX_POOL)
            if root == 'absolute':
                suf = 'C:/' + suf
            bits.append(['p', root, suf])
    return {'ctx': ctx, 'bits': bits}


def gen_wrap_item(rng):
    nlines = rng.choice([1, 1, 2, 3])
    lines = []
    for _ in range(nlines):
        args = ['prog'] + [rand_string(rng, 6) for _ in range(rng.randint(0, 3))]
        if nlines > 1:
            args = [a.replace('"', "'") for a in args]
        lines.append(args)
    return {'ctx': rng.choice(['ninja-wrap', 'lines']), 'lines': lines}


def rand_line(rng):
    """A command line that is *not* a join() output: arguments made of
    alternating bare and quoted segments, `""` inside quotes, backslash runs
    before quotes, odd quote counts, tabs and multiple blanks between
    arguments."""
    plain = [c for c in 'abcXYZ019-_=/.:,;+@#~\'()[]{}!$?*' ]

    def text(n, blanks):
        out = []
        for _ in range(n):
            r = rng.random()
            if r < 0.12:
                out.append('\\' * rng.randint(1, 4))
            elif r < 0.2:
                out.append('\\' * rng.randint(0, 3) + '\\"')
            elif r < 0.35 and blanks:
                out.append(rng.choice([' ', ' ', '\t', '  ']))
            elif r < 0.4 and blanks:
                out.append('""')
            else:
                out.append(rng.choice(plain))
        return ''.join(out)

    args = []
    for _ in range(rng.randint(1, 4)):
        segs = []
        quoted = rng.random() < 0.5
        for _ in range(rng.randint(1, 4)):
            if quoted:
                segs.append('"' + text(rng.randint(0, 5), True) +
                            rng.choice(['', '\\\\', '\\\\\\\\']) + '"')
            else:
                segs.append(text(rng.randint(1, 4), False))
            quoted = not quoted
        args.append(''.join(segs))
    line = args[0]
    for a in args[1:]:
        line += rng.choice([' ', ' ', '  ', '\t', ' \t ']) + a
    r = rng.random()
    if r < 0.1:
        line = rng.choice([' ', '\t']) + line
    elif r < 0.2:
        line += rng.choice([' ', '\t', '  '])
    elif r < 0.3:
        line += rng.choice(['"', '"x y', '\\', '\\\\'])     # odd quote / trailing \
    return line


SRC_FILES = ['in file.txt', 'sub/plain.txt']


def gen_proj_arg(rng, kind, special):
    """-> list of parts"""
    def text(maxlen=8):
        s = rand_string(rng, maxlen)
        return clean(s, [('$(', '$ ('), ('@(', '@ (')])
    r = rng.random()
    if not special or r < 0.7:
        return [['s', text()]]
    def pathpart():
        opts = [['src', rng.choice(SRC_FILES)]]
        if kind == 'build_step':
            opts += [['out'], ['out']]
        return rng.choice(opts)
    r = rng.random()
    if r < 0.35:
        return [pathpart()]
    if r < 0.55:
        return [['s', rng.choice(['--o=', '-I', 'k=', '/out:'])], pathpart()]
    if r < 0.7:
        return [pathpart(), ['s', rng.choice(['.bak', ',x', '=1'])]]
    if r < 0.75:
        # a string that ENDS IN BACKSLASHES glued to a path (a Windows directory prefix):
        # whether those backslashes are doubled depends on what follows them in the output
        return [['s', rng.choice(['drop dir\\', 'x y\\\\', 'a\\', '\\\\srv\\share\\',
                                  'C:\\out dir\\', 'q"r\\'])], pathpart()]
    if r < 0.8:
        return [['s', text(4) or 'a b'], pathpart()]
    if r < 0.9:
        return [pathpart(), ['s', text(4) or ' y']]
    if r < 0.95:
        return [['srcdir']]
    return [['s', rng.choice(['100%', '%PATH%', 'a%b', '%41', '5%%'])]]


def gen_proj_case(rng, idx):
    steps = []
    for i in range(rng.randint(8, 10)):
        kind = rng.choice(['command', 'build_step'])
        special = rng.random() < 0.35
        ncmds = 1 if rng.random() < 0.8 else rng.choice([2, 3])
        cmds = []
        for _ in range(ncmds):
            args = [gen_proj_arg(rng, kind, special)
                    for _ in range(rng.randint(1, 4))]
            if ncmds > 1:
                args = [[[p[0], p[1].replace('"', "'")] if p[0] == 's' else p
                         for p in a] for a in args]
            cmds.append(args)
        steps.append({'name': 's%02d' % i if rng.random() < 0.7 else
                      'd %d/s%02d.out' % (i % 3, i),
                      'kind': kind, 'cmds': cmds})
    # every project has words made of a string ending in backslashes and a path
    for st, pre in zip(steps, ['drop dir\\', 'a\\', 'x y\\\\', '\\\\srv\\sh are\\']):
        part = ['out'] if st['kind'] == 'build_step' and pre.startswith('a') else \
            ['src', SRC_FILES[len(pre) % 2]]
        st['cmds'][0].append([['s', pre], part])
    return {'kind': 'proj', 'project': rng.choice(['p', 'p q', 'my.proj-1']),
            'srcname': rng.choice(['src', 's rc']), 'steps': steps,
            'tag': 'proj%d' % idx}


# ---- histories

NAME_POOL = ['a', 'b', 'c', 'gen', 'out.txt', 'data.bin', 'x.y', 'my step',
             'sub/a', 'sub/b', 'sub/deep/c', 'a/b', 'a/a', 'tools/run', 'd-1',
             'e_2', 'f g/h i', 'z', 'sub/deep', 'lib/libq.a']
# Names that are distinct strings (hence distinct projects, valid for every
# back end on a case-sensitive file system) but collide under some
# normalisation: letter case, trailing dot / blank, Unicode case folding
# (sharp s, dotted capital I), the basename alone.
NEAR_CLUSTERS = [
    ['report', 'Report', 'REPORT', 'report.', 'report '],
    ['gen', 'Gen', 'gEN', 'gen.'],
    ['sub/a', 'Sub/a', 'sub/A', 'SUB/A', 'a', 'A'],
    ['stra\u00dfe', 'STRASSE', 'strasse', 'Stra\u00dfe', 'STRA\u1e9eE'],
    ['\u0130x', 'i\u0307x', 'ix', 'Ix', 'IX'],
    ['tools/run', 'bin/run', 'run', 'Tools/Run', 'tools/Run'],
    ['out.txt', 'Out.txt', 'out.TXT', 'd/out.txt', 'D/out.txt'],
    ['\u00e9t\u00e9', '\u00c9t\u00e9', '\u00c9T\u00c9', 'e\u0301te\u0301'],
]
COPY_SRC = ['data/in1.txt', 'data/in 2.txt', 'top.txt']
PHONY = ('command', 'alias')


def step_project(st):
    if st['kind'] == 'copy_file':
        return 'copy_file_tasks/' + (st['name'] or st['src'])
    if st['kind'] == 'build_step':
        return st['name'] if isinstance(st['name'], str) else st['name'][0]
    return st['name']


def step_outputs(st):
    """Paths (build dir) the step owns, phony or not."""
    if st['kind'] == 'copy_file':
        return [st['name'] or st['src']]
    if isinstance(st['name'], list):
        return list(st['name'])
    return [st['name']]


def model_valid(steps):
    """No two steps own the same output, no file output is a directory prefix
    of another output, no project name ends in .proj, project names unique."""
    steps = [s for s in steps if not s.get('injected')]
    owners = {}
    for st in steps:
        for o in step_outputs(st):
            if o in owners:
                return False
            owners[o] = st
    for a, sa in owners.items():
        for b in owners:
            if b.startswith(a + '/') and sa['kind'] not in PHONY:
                return False
    names = [step_project(s) for s in steps]
    return len(set(names)) == len(names)


def render_script(project, steps, default):
    ids = {s['id'] for s in steps}
    ref = {s['id']: 'v_' + s['id'] + ('[0]' if isinstance(s['name'], list) else '')
           for s in steps}
    lines = ['# generated by vf/props/c20.py',
             'project(%r, version=%r)' % (project, '1.0')]
    for st in steps:
        var = 'v_' + st['id']
        deps = '[' + ', '.join(ref[d] for d in st['deps'] if d in ids) + ']'
        uses = ''.join(', ' + ref[u] for u in st.get('use', []) if u in ids)
        if st['kind'] == 'command':
            lines.append('%s = command(%r, cmd=[%r, %r%s], extra_deps=%s)' %
                         (var, st['name'], 'vrec', 'run ' + st['id'], uses, deps))
        elif st['kind'] == 'build_step':
            lines.append('%s = build_step(%r, cmd=[%r, %r, build_step.output, '
                         '%r%s], extra_deps=%s)' %
                         (var, st['name'], 'vrec', '--touch', '--end', uses, deps))
        elif st['kind'] == 'copy_file':
            if st['name']:
                lines.append('%s = copy_file(%r, %r, extra_deps=%s)' %
                             (var, st['name'], st['src'], deps))
            else:
                lines.append('%s = copy_file(file=%r, extra_deps=%s)' %
                             (var, st['src'], deps))
        elif st['kind'] == 'alias':
            lines.append('%s = alias(%r, %s)' % (var, st['name'], deps))
    # `default` is None, one id, or ['calls'|'args', id, id...]: several default outputs, named
    # in one default() call or in one call each
    if isinstance(default, list):
        form, dids = default[0], [d for d in default[1:] if d in ids]
        if form == 'args' and dids:
            lines.append('default(%s)' % ', '.join(ref[d] for d in dids))
        else:
            for d in dids:
                lines.append('default(%s)' % ref[d])
    elif default in ids:
        lines.append('default(%s)' % ref[default])
    return '\n'.join(lines) + '\n'


class Hist:
    """Mutable script model used only by the generator."""

    def __init__(self, rng, flavour):
        self.rng = rng
        self.flavour = flavour
        self.steps = []
        self.default = None
        self.n = 0
        self.removed = []     # (kind, name) of steps that were removed
        self.pool = NAME_POOL
        if flavour == 'near':
            self.clusters = rng.sample(NEAR_CLUSTERS, 3)
            self.pool = [n for c in self.clusters for n in c]

    def cluster_mate(self):
        """(existing step, unused name of the same cluster) or None"""
        rng = self.rng
        used = {s['name']: s for s in self.steps if isinstance(s['name'], str)}
        cands = []
        for c in getattr(self, 'clusters', []):
            here = [n for n in c if n in used]
            free = [n for n in c if n not in used]
            if here and free:
                cands.append((used[rng.choice(here)], rng.choice(free)))
        return rng.choice(cands) if cands else None

    def fresh_name(self, kind):
        rng = self.rng
        for _ in range(50):
            nm = rng.choice(self.pool)
            if rng.random() < (0.15 if self.flavour != 'near' else 0.03):
                nm = nm + str(rng.randint(2, 9))
            if kind == 'build_step' and rng.random() < 0.2:
                nm = [nm, rng.choice(NAME_POOL) + '.h']
                if nm[0] == nm[1]:
                    continue
            trial = {'kind': kind, 'name': nm, 'src': None}
            if model_valid(self.steps + [trial]):
                return nm
        return None

    def add(self, kind=None, name=None):
        rng = self.rng
        kind = kind or rng.choice(['command', 'build_step', 'build_step',
                                   'copy_file', 'alias'])
        st = {'id': 's%d' % self.n, 'kind': kind, 'deps': [], 'use': []}
        self.n += 1
        if kind == 'copy_file':
            st['src'] = rng.choice(COPY_SRC)
            st['name'] = None if rng.random() < 0.3 else \
                'cp/' + rng.choice(NAME_POOL)
            if name is not None:
                st['name'] = name
            if not model_valid(self.steps + [st]):
                return None
        else:
            st['src'] = None
            st['name'] = name if name is not None else self.fresh_name(kind)
            if st['name'] is None:
                return None
        pos = rng.randint(0, len(self.steps))
        mate = None
        if name is not None and self.flavour == 'near':
            mate = next((s for s in self.steps if s.get('mate_of') == name), None)
        if mate is not None:
            pos = rng.randint(self.steps.index(mate) + 1, len(self.steps))
        earlier = self.steps[:pos]
        k = rng.choice([0, 1, 1, 2, 3]) if kind != 'alias' else rng.choice([1, 2, 3])
        st['deps'] = [s['id'] for s in rng.sample(earlier, min(k, len(earlier)))]
        if mate is not None:
            mate.pop('mate_of', None)
            if mate['id'] not in st['deps']:
                st['deps'].append(mate['id'])    # the near-namesake depends on it
        if kind in ('command', 'build_step'):
            files = [s for s in earlier if s['kind'] in ('build_step', 'copy_file')]
            if files and rng.random() < 0.4:
                st['use'] = [rng.choice(files)['id']]
        self.steps.insert(pos, st)
        return st

    def add_near(self):
        """Add a step whose name is a near-namesake of an existing step and
        which depends on it."""
        pair = self.cluster_mate()
        if pair is None:
            return None
        old, name = pair
        for kind in self.rng.sample(['command', 'build_step', 'alias'], 3):
            trial = {'kind': kind, 'name': name, 'src': None}
            if model_valid(self.steps + [trial]):
                old['mate_of'] = name
                st = self.add(kind, name)
                old.pop('mate_of', None)
                return st
        return None

    def fix_order(self):
        seen = set()
        for st in self.steps:
            st['deps'] = [d for d in st['deps'] if d in seen]
            st['use'] = [d for d in st.get('use', []) if d in seen]
            seen.add(st['id'])
        if isinstance(self.default, list):
            self.default = self.default[:1] + [d for d in self.default[1:] if d in seen]
        elif self.default not in seen:
            self.default = None

    def mutate(self):
        rng = self.rng
        ops = ['add', 'add', 'remove', 'remove', 'rename', 'rewire',
               'retype', 'reorder', 'default', 'keep']
        if self.flavour == 'near':
            ops += ['add-near', 'add-near', 'add-near', 'readd', 'readd']
        op = rng.choice(ops)
        if op == 'add-near':
            return 'add-near' if self.add_near() else 'keep'
        if op == 'readd':
            # a project that existed earlier comes back under the same name
            rng.shuffle(self.removed)
            for kind, name in self.removed:
                trial = {'kind': kind, 'name': name, 'src': None}
                if kind != 'copy_file' and model_valid(self.steps + [trial]) \
                   and self.add(kind, name) is not None:
                    self.removed.remove((kind, name))
                    self.fix_order()
                    return 'readd'
            return 'keep'
        if op == 'add' or len(self.steps) < 2:
            self.add()
            return 'add'
        if op == 'remove':
            st = rng.choice(self.steps)
            self.steps.remove(st)
            if not st.get('injected'):
                self.removed.append((st['kind'], st['name']))
        elif op == 'rename':
            st = rng.choice(self.steps)
            old = st['name']
            at = self.steps.index(st)
            if st['kind'] == 'copy_file':
                st['name'] = 'cp/' + rng.choice(NAME_POOL) + 'r'
                if not model_valid(self.steps):
                    st['name'] = old
            else:
                self.steps.pop(at)
                nm = self.fresh_name(st['kind'])
                self.steps.insert(at, st)
                st['name'] = nm if nm is not None else old
        elif op == 'rewire':
            st = rng.choice(self.steps)
            i = self.steps.index(st)
            earlier = self.steps[:i]
            st['deps'] = [s['id'] for s in
                          rng.sample(earlier, min(rng.randint(0, 3), len(earlier)))]
        elif op == 'retype':
            cands = [s for s in self.steps if s['kind'] != 'copy_file' and
                     isinstance(s['name'], str)]
            if cands:
                st = rng.choice(cands)
                old = st['kind']
                st['kind'] = rng.choice([k for k in ('command', 'build_step', 'alias')
                                         if k != old])
                if not model_valid(self.steps):
                    st['kind'] = old
        elif op == 'reorder':
            rng.shuffle(self.steps)
        elif op == 'default':
            r = rng.random()
            if r < 0.45 and len(self.steps) >= 2:
                k = rng.randint(2, min(3, len(self.steps)))
                self.default = [rng.choice(['calls', 'args'])] + \
                    [s['id'] for s in rng.sample(self.steps, k)]
            else:
                self.default = rng.choice(self.steps)['id'] if r < 0.9 else None
        self.fix_order()
        # an alias whose users vanished is fine; a step that lost a `use` too
        return op

    def snapshot(self, project):
        self.fix_order()
        return {
            'script': render_script(project, self.steps, self.default),
            'projects': [{'name': step_project(s), 'kind': s['kind'], 'id': s['id']}
                         for s in self.steps],
        }


def gen_history(rng, tier, idx, flavour):
    project = rng.choice(['p', 'p q', 'sol-1', 'x.y'])
    h = Hist(rng, flavour)
    for _ in range(rng.randint(3, 6)):
        h.add()
    if flavour == 'near':
        for _ in range(rng.randint(1, 2)):
            h.add_near()
    h.fix_order()
    # two of three histories start with several default outputs (the MSBuild back end moves
    # default projects to the front of the solution one by one)
    if idx % 3 != 2 and len(h.steps) >= 2:
        k = rng.randint(2, min(3, len(h.steps)))
        h.default = [['args', 'calls'][idx % 3]] + [s['id'] for s in rng.sample(h.steps, k)]
        h.fix_order()
    nruns = rng.randint(5, 6) if tier == 'quick' else rng.randint(6, 9)
    runs = []
    special_at = rng.randint(1, nruns - 1)
    for r in range(nruns):
        ops = []
        if r:
            for _ in range(rng.randint(1, 3)):
                ops.append(h.mutate())
        if flavour not in ('plain', 'near') and r == special_at:
            ops.append(inject_collision(h, rng, flavour))
        snap = h.snapshot(project)
        snap['how'] = 'configure' if r == 0 else rng.choice(
            ['regenerate', 'regenerate', 'regenerate-cwd', 'configure'])
        snap['ops'] = ops
        runs.append(snap)
    return {'kind': 'hist', 'project': project, 'flavour': flavour, 'runs': runs,
            'tag': 'hist%d' % idx}


def inject_collision(h, rng, flavour):
    """Deliberately leave the collision-free model (dedicated histories)."""
    st = {'id': 's%d' % h.n, 'deps': [], 'use': [], 'src': None,
          'injected': True}
    h.n += 1
    if flavour == 'same-name':
        cands = [s for s in h.steps if s['kind'] in ('command', 'alias') and
                 isinstance(s['name'], str)]
        if not cands:
            base = h.add('command')
            if base is None:
                return 'collision-skipped'
            cands = [base]
        st.update(kind='build_step', name=rng.choice(cands)['name'])
    elif flavour == 'copy-prefix':
        cands = [s for s in h.steps if s['kind'] == 'copy_file']
        if not cands:
            base = h.add('copy_file')
            if base is None:
                return 'collision-skipped'
            cands = [base]
        st.update(kind='command', name=step_project(rng.choice(cands)))
    else:   # proj-suffix
        cands = [s for s in h.steps if s['kind'] != 'copy_file' and
                 isinstance(s['name'], str)]
        if not cands:
            return 'collision-skipped'
        base = rng.choice(cands)['name']
        st.update(kind='command',
                  name=base + '/' + os.path.basename(base) + '.proj')
    h.steps.append(st)
    return 'collision:' + flavour


def cases(tier, seed):
    q = tier == 'quick'
    # subprocess-driven cases first: they overlap with the CPU-bound ones
    nh = 26 if q else 420
    flav = ['same-name', 'copy-prefix', 'proj-suffix']
    for i in range(nh):
        c = gen_history(core.rng_for(seed, 'c20hist', i), tier, i,
                        flav[(i // 4) % 3] if i % 4 == 3 else
                        'near' if i % 4 == 1 else 'plain')
        c['sample'] = i == 0
        yield c
    for i in range(24 if q else 400):
        c = gen_proj_case(core.rng_for(seed, 'c20proj', i), i)
        c['sample'] = i == 0
        yield c

    k = len(ALPHA)
    L1 = 6 if q else 8
    n1 = count_upto(k, L1)
    chunk = 1000 if q else 8000
    for lo in range(0, n1, chunk):
        yield {'kind': 'enum1', 'alpha': ALPHA, 'lo': lo, 'hi': min(n1, lo + chunk),
               'keys': n1 * 3 <= KEY_LIMIT, 'sample': lo == 0}
    for arity, maxlen in ((2, 3 if q else 4), (3, 2 if q else 3)):
        n = count_upto(k, maxlen) ** arity
        chunk = 3000 if q else 40000
        for lo in range(0, n, chunk):
            yield {'kind': 'enumk', 'alpha': ALPHA, 'maxlen': maxlen,
                   'arity': arity, 'lo': lo, 'hi': min(n, lo + chunk),
                   'keys': n <= KEY_LIMIT}
    for i in range(40 if q else 400):
        r = core.rng_for(seed, 'c20rand', i)
        yield {'kind': 'lists', 'keys': True, 'sample': i == 0,
               'lists': [[rand_string(r) for _ in range(r.randint(1, 5))]
                         for _ in range(150 if q else 250)]}
    Ls = 6 if q else 8
    ns = count_upto(k, Ls)
    chunk = 2000 if q else 16000
    for lo in range(0, ns, chunk):
        yield {'kind': 'splitenum', 'alpha': ALPHA, 'lo': lo,
               'hi': min(ns, lo + chunk), 'keys': False}
    for i in range(10 if q else 100):
        r = core.rng_for(seed, 'c20split', i)
        yield {'kind': 'splitlines', 'sample': i == 0,
               'lines': [rand_line(r) for _ in range(400 if q else 1000)]}
    for i in range(6 if q else 60):
        r = core.rng_for(seed, 'c20jbos', i)
        items = [gen_jbos_item(r) for _ in range(150 if q else 300)]
        items += [gen_wrap_item(r) for _ in range(40 if q else 60)]
        yield {'kind': 'jbos', 'items': items, 'sample': i == 0}


# --------------------------------------------------------------------------
# classification helpers (mechanisms are computed from the witness only)

def feature(strings):
    if isinstance(strings, str):
        strings = [strings]
    if any(re.search(r'\\"', s) for s in strings):
        return 'backslash-before-quote'
    if any(s.endswith('\\') for s in strings):
        return 'trailing-backslash'
    if any('"' in s for s in strings):
        return 'quote'
    if any(' ' in s or '\t' in s for s in strings):
        return 'blank'
    if any(s == '' for s in strings):
        return 'empty'
    if any('\\' in s for s in strings):
        return 'backslash'
    return 'plain'


def nontrivial(strings):
    return feature(strings) != 'plain'


def both_variants(text):
    """-> {variant: argv[1:]} of `prog <text>`"""
    return {v: M.parse('prog ' + text, v)[1:] for v in M.VARIANTS}


def which_variants(got, want):
    bad = [v for v in M.VARIANTS if got[v] != want]
    return 'both' if len(bad) == 2 else (bad[0] if bad else None)


# --------------------------------------------------------------------------
# (1a) quoting functions, in-process

def check_list(res, W, args):
    """join / split on one argument list."""
    try:
        line = W.join(args)
    except Exception as e:
        res.violate(('api-raised', 'join', type(e).__name__),
                    {'args': args, 'error': repr(e),
                     '__case__': {'kind': 'lists', 'lists': [args]}})
        return
    got = both_variants(line)
    bad = which_variants(got, args)
    if bad:
        res.violate(('join', 'msvcrt-mismatch', bad, feature(args)),
                    {'args': args, 'line': line, 'parsed': got,
                     '__case__': {'kind': 'lists', 'lists': [args]}})
    try:
        back = W.split(line)
    except Exception as e:
        back = 'EXC ' + repr(e)
    if back != args:
        res.violate(('split', 'not-inverse-of-join', feature(args)),
                    {'args': args, 'line': line, 'split': back,
                     '__case__': {'kind': 'lists', 'lists': [args]}})


def check_string(res, W, s):
    """The single-string API: quote_info, quote, force_quote, inner_quote_info,
    inner_quote, wrap_quotes, escape_percent for %-free strings, listify."""
    sub = {'kind': 'lists', 'lists': [[s]]}

    def fail(api, what, **kw):
        res.violate((api, what, feature(s)), dict(kw, arg=s, __case__=sub))

    try:
        q, flag = W.quote_info(s)
        fq = W.force_quote(s)
        inner, iflag = W.inner_quote_info(s)
        wrapped = W.wrap_quotes(inner)
        plain_q = W.quote(s)
        plain_inner = W.inner_quote(s)
        pq = W.quote(s, escape_percent=True)
    except Exception as e:
        res.violate(('api-raised', 'quote-family', type(e).__name__),
                    {'arg': s, 'error': repr(e), '__case__': sub})
        return

    bad = which_variants(both_variants(q), [s])
    if bad:
        fail('quote_info', 'msvcrt-mismatch-' + bad, text=q)
    if flag not in (True, False) or flag != (len(q) >= 2 and q[0] == '"'
                                              and q[-1] == '"'):
        fail('quote_info', 'flag-inconsistent', text=q, flag=flag)
    if plain_q != q:
        fail('quote', 'differs-from-quote_info', text=plain_q, info=q)
    if pq != q:     # s never contains '%'
        fail('quote', 'escape_percent-changes-percent-free-string', text=pq)

    bad = which_variants(both_variants(fq), [s])
    if bad:
        fail('force_quote', 'msvcrt-mismatch-' + bad, text=fq)
    if not (len(fq) >= 2 and fq[0] == '"' and fq[-1] == '"'):
        fail('force_quote', 'not-quoted', text=fq)

    bad = which_variants(both_variants('"' + inner + '"'), [s])
    if bad:
        fail('inner_quote', 'msvcrt-mismatch-' + bad, text=inner)
    if not iflag and s != '':
        # "does not need quotes" must mean it may stand alone
        bad = which_variants(both_variants(inner), [s])
        if bad:
            fail('inner_quote_info', 'unquoted-flag-but-needs-quotes', text=inner)
    if plain_inner != inner:
        fail('inner_quote', 'differs-from-inner_quote_info', text=plain_inner)
    bad = which_variants(both_variants(wrapped), [s])
    if bad:
        fail('wrap_quotes', 'msvcrt-mismatch-' + bad, text=wrapped)


def run_quote_lists(res, W, lists, strings, keys):
    for args in lists:
        res.evaluations += 1
        check_list(res, W, args)
        if keys:
            res.key(['l', args], nontrivial(args))
    for s in strings:
        res.evaluations += 1
        check_string(res, W, s)
    # every call above evaluated these oracles exactly once
    for name in ('join:msvcrt-post2008', 'join:msvcrt-pre2008', 'split:inverse'):
        res.ev(name, len(lists))
    for name in ('quote_info:msvcrt', 'force_quote:msvcrt', 'inner_quote:msvcrt',
                 'wrap_quotes:msvcrt'):
        res.ev(name, len(strings))


def run_enum1(case):
    from bfg9000.shell import windows as W
    res = Res()
    alpha = case['alpha']
    lists, strings = [], []
    for i in range(case['lo'], case['hi']):
        s = nth_string(alpha, i)
        strings.append(s)
        for fr in FRAMES:
            lists.append([s if x is None else x for x in fr])
    run_quote_lists(res, W, lists, strings, case.get('keys'))
    res.ev('enum:frame-lists', len(lists))
    res.ev('enum:strings', len(strings))
    if not case.get('keys'):
        res.key(['enum1', case['lo'], case['hi']], True)
    # listify(str) is split, listify(list) is the list
    for s in strings[:50]:
        line = W.join([s, 'k'])
        if W.listify(line) != [s, 'k'] or W.listify([s, 'k']) != [s, 'k']:
            res.violate(('listify', 'not-split', feature(s)),
                        {'arg': s, 'line': line,
                         '__case__': {'kind': 'lists', 'lists': [[s, 'k']]}})
    res.classes.update(['quote:enumerated-frames'])
    mid = strings[len(strings) // 2]
    if case.get('sample'):
        res.sample = {'kind': 'enum1', 'arg': mid,
                      'join': W.join([mid, 'x', 'y z']),
                      'parsed': both_variants(W.join([mid, 'x', 'y z']))}
    return res


def run_enumk(case):
    from bfg9000.shell import windows as W
    res = Res()
    lists = [nth_list(case['alpha'], case['maxlen'], case['arity'], i)
             for i in range(case['lo'], case['hi'])]
    run_quote_lists(res, W, lists, [], case.get('keys'))
    res.ev('enum:arity%d-lists' % case['arity'], len(lists))
    if not case.get('keys'):
        res.key(['enumk', case['arity'], case['lo'], case['hi']], True)
    res.classes.add('quote:enumerated-arity%d' % case['arity'])
    return res


def run_lists(case):
    from bfg9000.shell import windows as W
    res = Res()
    lists = case['lists']
    strings = sorted(set(s for a in lists for s in a if '%' not in s))
    run_quote_lists(res, W, lists, strings, True)
    res.ev('rand:lists', len(lists))
    res.classes.add('quote:random-printable')
    if any(ord(c) > 0x7f for a in lists for s in a for c in s):
        res.classes.add('quote:non-ascii')
    if lists and case.get('sample'):
        a = lists[len(lists) // 2]
        res.sample = {'kind': 'lists', 'args': a, 'join': W.join(a)}
    return res


# --------------------------------------------------------------------------
# (1a') split() on arbitrary lines against the reference parser

NO_DDQ = ('split() implements the MS C runtime rules without the `""`-inside-'
          'quotes rule (on which the pre- and post-2008 runtimes themselves '
          'differ): lines where that rule fires are compared with the reference '
          'parser run without it, not with either runtime')


def check_split_line(res, W, line):
    sub = {'kind': 'splitlines', 'lines': [line]}
    try:
        got = W.split(line)
    except Exception as e:
        res.violate(('api-raised', 'split', type(e).__name__),
                    {'line': line, 'error': repr(e), '__case__': sub})
        return
    post = M.parse('prog ' + line, 'post2008')[1:]
    pre = M.parse('prog ' + line, 'pre2008')[1:]
    plain = M.parse('prog ' + line, 'no-doubled-quote')[1:]
    if got == post and got == pre:
        res.ev('split:agrees-with-both-runtimes')
        return
    if got == plain:
        # only the `""` rule separates split() from the runtimes here
        res.ev('split:agrees-without-doubled-quote-rule')
        res.exclude(NO_DDQ)
        return
    wit = {'line': line, 'split': got, 'msvcrt_post2008': post,
           'msvcrt_pre2008': pre, '__case__': sub}
    stripped = line.rstrip('\\')
    if stripped != line and \
       got == M.parse('prog ' + stripped, 'no-doubled-quote')[1:]:
        res.violate(('split', 'msvcrt-deviation', 'trailing-backslashes-dropped'),
                    dict(wit, dropped=len(line) - len(stripped)))
    elif len(got) != len(plain):
        res.violate(('split', 'msvcrt-deviation', 'argument-count'), wit)
    else:
        res.violate(('split', 'msvcrt-deviation', 'argument-text'), wit)


def run_split(case):
    from bfg9000.shell import windows as W
    res = Res()
    if case['kind'] == 'splitenum':
        lines = [nth_string(case['alpha'], i)
                 for i in range(case['lo'], case['hi'])]
        res.key(['splitenum', case['lo'], case['hi']], True)
        res.ev('enum:split-lines', len(lines))
        res.classes.add('split:enumerated-lines')
    else:
        lines = case['lines']
        res.classes.add('split:random-structured-lines')
    for line in lines:
        res.evaluations += 1
        check_split_line(res, W, line)
        if case['kind'] == 'splitlines':
            res.key(['line', line], True)
    res.ev('split:msvcrt-lines', len(lines))
    if case.get('sample') and lines:
        ln = lines[len(lines) // 2]
        res.sample = {'kind': 'split', 'line': ln, 'split': W.split(ln),
                      'msvcrt': both_variants(ln)}
    return res


# --------------------------------------------------------------------------
# (1b) jbos / path combinations; the Ninja writer with the Windows shell

def path_alternatives(root, suffix):
    win = suffix.replace('/', '\\')
    if root == 'srcdir':
        return [NINJA_VARS['srcdir'] + '\\' + win]
    if root == 'builddir':
        return [win, '.\\' + win]
    return [win]


def expected_alternatives(bits):
    alts = ['']
    for b in bits:
        if b[0] in 'slL':
            alts = [a + b[1] for a in alts]
        else:
            alts = [a + p for a in alts for p in path_alternatives(b[1], b[2])]
    return alts


def build_thing(bits, P):
    from bfg9000.safe_str import jbos, literal, shell_literal
    from bfg9000.path import Root
    objs = []
    for b in bits:
        if b[0] == 's':
            objs.append(b[1])
        elif b[0] == 'l':
            objs.append(shell_literal(b[1]))
        elif b[0] == 'L':
            objs.append(literal(b[1]))
        else:
            objs.append(P(b[2], Root[b[1]]))
    if len(objs) == 1:
        return objs[0]
    return jbos(*objs)


def run_jbos(case):
    from io import StringIO
    from bfg9000.shell import windows as W
    from bfg9000.shell.list import shell_list
    from bfg9000.backends.ninja import syntax as nsyn
    from bfg9000.platforms.windows import WindowsPath
    from bfg9000.path import Root

    res = Res()
    path_vars = {Root.srcdir: nsyn.Variable('srcdir'), Root.builddir: None}

    class _Win:
        family = 'windows'

    for item in case['items']:
        res.evaluations += 1
        ctx = item['ctx']
        sub = {'kind': 'jbos', 'items': [item]}
        if ctx in ('shell', 'ninja'):
            bits = item['bits']
            alts = expected_alternatives(bits)
            res.key([ctx, bits], True)
            try:
                thing = build_thing(bits, WindowsPath)
                if ctx == 'shell':
                    text, flag = W.quote_info(thing)
                    raw = text
                else:
                    w = nsyn.Writer(StringIO(), path_vars, W)
                    w.write(thing, nsyn.Syntax.shell)
                    raw = w.stream.getvalue()
                    text = M.ninja_unescape(raw, NINJA_VARS)
            except Exception as e:
                res.violate(('api-raised', 'jbos-' + ctx, type(e).__name__),
                            {'bits': bits, 'error': repr(e), '__case__': sub})
                continue
            res.ev('jbos:' + ctx)
            if ctx == 'shell':
                # split is the inverse of join also when an argument is a
                # quoted string with a shell_literal glued to it
                for tail in (['baz'], ['b z', 'q'], []):
                    res.ev('jbos:split-inverse')
                    try:
                        line = W.join([thing] + tail)
                        back = W.split(line)
                    except Exception as e:
                        back, line = 'EXC ' + repr(e), None
                    if back != [alts[0]] + tail:
                        res.violate(('split', 'not-inverse-of-join', 'jbos'),
                                    {'bits': bits, 'tail': tail, 'line': line,
                                     'split': back, 'expected': [alts[0]] + tail,
                                     '__case__': sub})
                        break
            got = both_variants(text)
            bad = [v for v in M.VARIANTS
                   if not (len(got[v]) == 1 and got[v][0] in alts)]
            if bad:
                strs = [b[1] for b in bits if b[0] == 's']
                plain = M.parse('prog ' + text, 'no-doubled-quote')[1:]
                touch = any(a[0] in 'sp' and b[0] in 'sp'
                            for a, b in zip(bits, bits[1:]))
                if touch and len(plain) == 1 and plain[0] in alts:
                    # correct but for the `""` rule: two quoted bits touch
                    mech = ('jbos-' + ctx, 'adjacent-quotes')
                else:
                    mech = ('jbos-' + ctx, 'msvcrt-mismatch', feature(strs))
                res.violate(mech, {'context': ctx, 'bits': bits, 'written': raw,
                                   'command_line': text, 'parsed': got,
                                   'expected_one_of': alts, '__case__': sub})
            res.classes.add('jbos:' + ctx + (':path' if any(
                b[0] == 'p' for b in bits) else ''))
            if res.sample is None and len(bits) > 1 and case.get('sample') \
               and not bad:
                res.sample = {'kind': 'jbos', 'context': ctx, 'bits': bits,
                              'written': raw, 'parsed': got['post2008']}
        else:
            lines = item['lines']
            res.key([ctx, lines], True)
            try:
                flat = W.join_lines([list(a) for a in lines])
                if ctx == 'lines':
                    raw = ' '.join(W.quote(x) for x in flat)
                    inner = raw
                    res.ev('lines:join_lines')
                else:
                    saved = nsyn.platform_info
                    nsyn.platform_info = lambda: _Win
                    try:
                        w = nsyn.Writer(StringIO(), path_vars, W)
                        w.write_shell(shell_list(flat), can_wrap=True)
                    finally:
                        nsyn.platform_info = saved
                    raw = w.stream.getvalue()
                    text = M.ninja_unescape(raw, NINJA_VARS)
                    res.ev('ninja:cmd-wrap')
                    pre = 'cmd /s /c "'
                    if not (text.startswith(pre) and text.endswith('"') and
                            len(text) > len(pre)):
                        res.violate(('ninja-cmd-wrap', 'shape'),
                                    {'lines': lines, 'written': raw,
                                     '__case__': sub})
                        continue
                    inner = text[len(pre):-1]    # cmd /s strips first+last quote
            except Exception as e:
                res.violate(('api-raised', ctx, type(e).__name__),
                            {'lines': lines, 'error': repr(e), '__case__': sub})
                continue
            parts = M.cmd_split_andand(inner)
            ok = len(parts) == len(lines)
            got = None
            if ok:
                for part, want in zip(parts, lines):
                    for v in M.VARIANTS:
                        got = M.parse(part, v)
                        if got != want:
                            ok = False
            if not ok:
                res.violate((ctx if ctx == 'lines' else 'ninja-cmd-wrap',
                             'msvcrt-mismatch',
                             feature([a for ln in lines for a in ln])),
                            {'lines': lines, 'written': raw, 'commands': parts,
                             'parsed_last': got, '__case__': sub})
            res.classes.add('lines:' + ctx)
    # escape_line of a string is passed through raw
    for s in ('echo a b', 'x > "y z"'):
        if W.quote(list(W.escape_line(s))[0]) != s:
            res.violate(('escape_line', 'string-not-raw'), {'arg': s})
    return res


# --------------------------------------------------------------------------
# reading generated files (own parsers)

def parse_proj(path):
    """-> dict(guid, rootns, sourcedir, execs=[command strings], error)"""
    out = {'guid': None, 'rootns': None, 'sourcedir': None, 'execs': [],
           'error': None, 'tasks': []}
    try:
        with open(path, 'rb') as f:
            data = f.read()
        root = ET.fromstring(data)
    except FileNotFoundError:
        out['error'] = 'missing'
        return out
    except (ET.ParseError, OSError, UnicodeError, NotADirectoryError) as e:
        out['error'] = 'xml: %r' % (e,)
        return out
    if root.tag != MSB_NS + 'Project':
        out['error'] = 'root element is %s' % root.tag
        return out
    for el in root.iter():
        if el.tag == MSB_NS + 'ProjectGuid':
            out['guid'] = el.text
        elif el.tag == MSB_NS + 'RootNamespace':
            out['rootns'] = el.text
        elif el.tag == MSB_NS + 'SourceDir':
            out['sourcedir'] = el.text
        elif el.tag == MSB_NS + 'Exec':
            out['execs'].append(el.get('Command'))
            out['tasks'].append('Exec')
        elif el.tag in (MSB_NS + 'Copy', MSB_NS + 'MakeDir'):
            out['tasks'].append(el.tag[len(MSB_NS):])
    return out


_PROJECT_RE = re.compile(r'^Project\("(%s)"\) = "([^"]*)", "([^"]*)", "(%s)"$' %
                         (GUID, GUID))
_DEP_RE = re.compile(r'^\t\t(%s) = (%s)$' % (GUID, GUID))
_CFG_RE = re.compile(r'^\t\t(%s)\.([^=]*?)\.(ActiveCfg|Build\.0) = (.*)$' % GUID)


def parse_sln(text):
    """-> (dict(sln_guids, projects=[{name,path,guid,deps}], cfg_guids), errors)"""
    errors = []
    lines = text.split('\n')
    if lines and lines[-1] == '':
        lines.pop()
    sln = {'sln_guids': [], 'projects': [], 'cfg_guids': []}
    i = 0

    def err(msg):
        errors.append('line %d: %s' % (i + 1, msg))

    if not lines or not lines[0].startswith(
            'Microsoft Visual Studio Solution File, Format Version '):
        errors.append('line 1: header missing')
    i = 1
    state = 'top'
    cur = None
    section = None
    seen_global = False
    while i < len(lines):
        ln = lines[i]
        if state == 'top':
            m = _PROJECT_RE.match(ln)
            if m:
                cur = {'name': m.group(2), 'path': m.group(3),
                       'guid': m.group(4), 'deps': []}
                sln['sln_guids'].append(m.group(1))
                sln['projects'].append(cur)
                state = 'project'
            elif ln == 'Global':
                state = 'global'
                seen_global = True
            elif ln.startswith('#') or re.match(r'^\w+ = \S.*$', ln):
                pass
            else:
                err('unexpected %r' % ln[:80])
        elif state == 'project':
            if ln == 'EndProject':
                state = 'top'
            elif ln == '\tProjectSection(ProjectDependencies) = postProject':
                state = 'deps'
            else:
                err('unexpected in Project: %r' % ln[:80])
        elif state == 'deps':
            m = _DEP_RE.match(ln)
            if m:
                if m.group(1) != m.group(2):
                    err('dependency sides differ')
                cur['deps'].append(m.group(1))
            elif ln == '\tEndProjectSection':
                state = 'project'
            else:
                err('unexpected in ProjectDependencies: %r' % ln[:80])
        elif state == 'global':
            m = re.match(r'^\tGlobalSection\((\w+)\) = (pre|post)Solution$', ln)
            if m:
                section = m.group(1)
                state = 'gsection'
            elif ln == 'EndGlobal':
                state = 'top'
            else:
                err('unexpected in Global: %r' % ln[:80])
        elif state == 'gsection':
            if ln == '\tEndGlobalSection':
                state = 'global'
            elif section == 'ProjectConfigurationPlatforms':
                m = _CFG_RE.match(ln)
                if m:
                    sln['cfg_guids'].append(m.group(1))
                else:
                    err('unexpected configuration entry %r' % ln[:80])
            elif not re.match(r'^\t\t[^=]+ = .*$', ln):
                err('unexpected in GlobalSection: %r' % ln[:80])
        i += 1
    if state != 'top':
        errors.append('unterminated %s block' % state)
    if not seen_global:
        errors.append('no Global block')
    return sln, errors


def name_relation(a, b):
    """How two distinct project names are related (witness field / coverage)."""
    import unicodedata
    if a.lower() == b.lower() or a.upper() == b.upper():
        return 'case-only'
    nf = [unicodedata.normalize('NFKD', x).casefold() for x in (a, b)]
    if nf[0] == nf[1]:
        return 'unicode-casefold'
    if a.rstrip('. ').lower() == b.rstrip('. ').lower():
        return 'trailing-dot-or-blank'
    if os.path.basename(a).lower() == os.path.basename(b).lower():
        return 'same-basename'
    return 'unrelated'


def guid_hex(g):
    return g.strip('{}').replace('-', '').lower()


# --------------------------------------------------------------------------
# (1c) Exec Command= of real msbuild projects

def render_proj_script(case):
    lines = ['# generated by vf/props/c20.py',
             'project(%r, version=%r)' % (case['project'], '1.0'),
             'srcd = directory(%r)' % '.']
    for i, f in enumerate(SRC_FILES):
        lines.append('f%d = generic_file(%r)' % (i, f))
    for st in case['steps']:
        cmds = []
        for args in st['cmds']:
            exprs = [repr('vrec')]
            for parts in args:
                ps = []
                for p in parts:
                    if p[0] == 's':
                        ps.append(repr(p[1]))
                    elif p[0] == 'out':
                        ps.append('build_step.output')
                    elif p[0] == 'src':
                        ps.append('f%d' % SRC_FILES.index(p[1]))
                    else:
                        ps.append('srcd')
                exprs.append(' + '.join(ps))
            cmds.append('[' + ', '.join(exprs) + ']')
        lines.append('%s(%r, cmds=[%s])' % (st['kind'], st['name'], ', '.join(cmds)))
    return '\n'.join(lines) + '\n'


def proj_arg_alternatives(parts, outname, sourcedir):
    alts = ['']
    for p in parts:
        if p[0] == 's':
            opts = [p[1]]
        elif p[0] == 'out':
            win = outname.replace('/', '\\')
            opts = [PROPS[k] + win for k in ('OutDir', 'IntDir', 'SolutionDir')]
        elif p[0] == 'src':
            opts = [sourcedir + p[1].replace('/', '\\')]
        else:
            opts = [sourcedir, sourcedir.rstrip('\\')]
        alts = [a + o for a in alts for o in opts]
    return alts


def classify_proj_arg(parts, command, k, alts, sourcedir):
    kinds = [p[0] for p in parts]
    if kinds == ['srcdir'] and ('"' + sourcedir + '"') in command and \
       sourcedir.endswith('\\'):
        return ('dir-root-trailing-backslash',)
    plain = M.parse(command, 'no-doubled-quote')
    if len(parts) > 1 and alts and k < len(plain) and plain[k] in alts:
        # correct but for the `""` rule: two quoted parts touch
        return ('adjacent-quotes',)
    strs = [p[1] for p in parts if p[0] == 's']
    return ('msvcrt-mismatch', 'path' if any(k != 's' for k in kinds) else
            feature(strs))


def run_proj(case):
    from .. import proj as vproj
    res = Res()
    root = core.mkscratch('c20proj')
    try:
        src = os.path.join(root, case['srcname'])
        bld = os.path.join(root, 'b')
        files = {'build.bfg': render_proj_script(case)}
        for f in SRC_FILES:
            files[f] = 'x\n'
        vproj.write_tree(src, files)
        rc, out = vproj.configure(src, bld, backend='msbuild')
        if rc != 0:
            res.inconclusive = 'msbuild configure failed: ' + out[-600:]
            return res
        res.ev('proj:configure')
        for st in case['steps']:
            res.evaluations += 1
            sub = dict(case, steps=[st])
            name = st['name']
            ppath = os.path.join(bld, name, os.path.basename(name) + '.proj')
            pj = parse_proj(ppath)
            if pj['error']:
                res.violate(('proj-exec', 'project-unreadable'),
                            {'step': name, 'error': pj['error'], '__case__': sub})
                continue
            if len(pj['execs']) != 1 or pj['execs'][0] is None:
                res.violate(('proj-exec', 'exec-count'),
                            {'step': name, 'execs': pj['execs'], '__case__': sub})
                continue
            res.ev('proj:exec-parsed')
            attr = pj['execs'][0]
            allparts = [p for args in st['cmds'] for a in args for p in a]
            has_pct = any(p[0] == 's' and '%' in p[1] for p in allparts)
            props = dict(PROPS, SourceDir=pj['sourcedir'] or '')
            line = M.msbuild_expand(attr, props)
            wit = {'step': name, 'kind': st['kind'], 'exec_attribute': attr,
                   'command_line': line, 'sourcedir': pj['sourcedir'],
                   'backend': 'msbuild', '__case__': sub}
            res.key(['proj', case['tag'], name], True)
            if not (pj['sourcedir'] or '').endswith('\\'):
                res.violate(('proj-exec', 'sourcedir-no-trailing-backslash'), wit)
                continue
            if has_pct:
                line2, clean_pct = M.batch_percent(line)
                ok = clean_pct and proj_compare(st, line2, pj['sourcedir']) is None
                if ok:
                    res.ev('proj:percent-roundtrip-ok')
                else:
                    res.exclude('argument with % (cmd.exe metacharacter, outside '
                                'the quantifier) does not survive MSBuild %XX / '
                                'batch % processing: observed, not judged')
                res.classes.add('proj:percent-observed')
                continue
            if '%' in line:
                res.violate(('proj-exec', 'spurious-percent'), wit)
                continue
            bad = proj_compare(st, line, pj['sourcedir'])
            if bad is None:
                res.ev('proj:args-roundtrip', sum(len(a) for a in st['cmds']))
                if res.sample is None and case.get('sample') and any(
                        len(a) > 1 for args in st['cmds'] for a in args):
                    res.sample = {'kind': 'proj', 'step': st,
                                  'exec_attribute': attr, 'command_line': line,
                                  'parsed': [M.parse(p) for p in
                                             M.cmd_split_andand(line)]}
            else:
                what, detail = bad
                res.violate(('proj-exec',) + what, dict(wit, **detail))
            for a in [a for args in st['cmds'] for a in args]:
                ks = [p[0] for p in a]
                res.classes.add('proj:arg:' + ('+'.join(ks) if len(ks) > 1 or
                                               ks[0] != 's' else 'string'))
            if len(st['cmds']) > 1:
                res.classes.add('proj:multi-line')
    finally:
        core.rmtree(root)
    return res


def proj_compare(st, line, sourcedir):
    """None if every command of the step parses back; else (mechanism tail,
    witness detail) for the first argument that does not."""
    outname = st['name']
    parts = M.cmd_split_andand(line)
    if len(parts) != len(st['cmds']):
        return (('command-count',),
                {'commands': parts, 'expected_commands': len(st['cmds'])})
    for ci, (text, args) in enumerate(zip(parts, st['cmds'])):
        for v in M.VARIANTS:
            got = M.parse(text, v)
            want = [['vrec']] + [proj_arg_alternatives(a, outname, sourcedir)
                                 for a in args]
            for k in range(max(len(got), len(want))):
                g = got[k] if k < len(got) else None
                w = want[k] if k < len(want) else None
                if g is None or w is None or g not in w:
                    culprit = args[min(max(k - 1, 0), len(args) - 1)] if args \
                        else [['s', '']]
                    return (classify_proj_arg(culprit, text, k, w, sourcedir),
                            {'variant': v, 'command_index': ci, 'arg_index': k,
                             'arg': culprit, 'parsed': got,
                             'expected_one_of': w})
    return None


# --------------------------------------------------------------------------
# (2) solution histories

def observe_solution(bld, project):
    """Read what a run left behind.  -> dict"""
    obs = {'sln': None, 'sln_errors': [], 'projs': {}, 'uuidmap': None,
           'uuid_error': None}
    sln_path = os.path.join(bld, project + '.sln')
    try:
        with open(sln_path, encoding='utf-8', newline='') as f:
            text = f.read()
    except OSError as e:
        obs['sln_errors'] = ['cannot read: %r' % (e,)]
        return obs
    obs['sln'], obs['sln_errors'] = parse_sln(text)
    for p in obs['sln']['projects']:
        if p['path'] not in obs['projs']:
            obs['projs'][p['path']] = parse_proj(
                os.path.join(bld, *re.split(r'[\\/]', p['path'])))
    try:
        with open(os.path.join(bld, '.bfg_uuid')) as f:
            obs['uuidmap'] = json.load(f)
    except (OSError, ValueError) as e:
        obs['uuid_error'] = repr(e)
    return obs


def run_hist(case):
    from .. import proj as vproj
    res = Res()
    root = core.mkscratch('c20hist')
    project = case['project']
    try:
        src = os.path.join(root, 'src')
        bld = os.path.join(root, 'bld')
        other = os.path.join(root, 'elsewhere')
        os.makedirs(other)
        files = {f: 'data\n' for f in COPY_SRC}
        vproj.write_tree(src, files)
        prev = None       # {'guids': {name: guid}, 'sln_guid': g}
        for ri, run in enumerate(case['runs']):
            res.evaluations += 1
            vproj.write_tree(src, {'build.bfg': run['script']})
            before = solution_files(bld)
            if run['how'] == 'configure':
                rc, out = vproj.configure(src, bld, backend='msbuild')
            else:
                rc, out = core.run(
                    [os.path.join(core.VENV_BIN, 'bfg9000'), 'regenerate', bld],
                    cwd=other if run['how'] == 'regenerate-cwd' else src,
                    env=core.base_env(), timeout=180)
            model = run['projects']
            names = [p['name'] for p in model]
            sub = dict(case, runs=case['runs'][:ri + 1])
            base = {'run': ri, 'how': run['how'], 'ops': run.get('ops'),
                    'backend': 'msbuild', 'flavour': case['flavour'],
                    '__case__': sub}
            dups = sorted(set(n for n in names if names.count(n) > 1))
            if rc != 0 and dups:
                # Two steps with one project name cannot be represented (the
                # name determines GUID and .proj path): a loud refusal is the
                # expected outcome, provided that what is on disk is still the
                # previous, well-formed solution.
                res.ev('dup-name:refused')
                res.classes.add('hist:dup-name-refused:' + case['flavour'])
                if any(repr(n) in out or n in out for n in dups):
                    res.ev('dup-name:refusal-names-the-project')
                res.key(['hist', case['tag'], ri], True)
                if solution_files(bld) == before:
                    res.ev('dup-name:state-untouched')
                elif prev is not None:
                    res.ev('dup-name:state-changed')
                    judge_run(res, observe_solution(bld, project), prev['model'],
                              prev, dict(base, after_refusal=True,
                                         refused_names=dups))
                else:
                    obs = observe_solution(bld, project)
                    if obs['sln'] is not None and obs['sln_errors']:
                        res.violate(('solution', 'malformed-sln'),
                                    dict(base, after_refusal=True,
                                         errors=obs['sln_errors'][:5]))
                continue
            if rc != 0:
                clash = [(a, b) for a in names for b in names if b ==
                         a + '/' + os.path.basename(a) + '.proj' and
                         os.path.join(a, os.path.basename(a) + '.proj') in out]
                if clash:
                    res.violate(('solution', 'project-file-is-directory-of-another'),
                                dict(base, name=clash[0][0], other=clash[0][1],
                                     output=out[-400:],
                                     sln_after=observe_brief(bld, project)))
                else:
                    res.inconclusive = ('run %d (%s) failed: %s' %
                                        (ri, run['how'], out[-1400:]))
                break
            res.ev('hist:runs')
            obs = observe_solution(bld, project)
            judge_run(res, obs, model, prev, base)
            if obs['sln'] is None:
                break
            cur = {}
            for p in obs['sln']['projects']:
                cur.setdefault(p['name'], p['guid'])
            sg = obs['sln']['sln_guids'][0] if obs['sln']['sln_guids'] else None
            changed = prev is None or set(prev['guids']) != set(cur)
            ndeps = sum(len(p['deps']) for p in obs['sln']['projects'])
            res.key(['hist', case['tag'], ri],
                    changed or (len(cur) >= 2 and ndeps > 0))
            ns = sorted(cur)
            for i, a in enumerate(ns):
                for b in ns[i + 1:]:
                    rel = name_relation(a, b)
                    if rel != 'unrelated':
                        res.ev('hist:near-namesakes:' + rel)
                        res.classes.add('hist:near-namesakes:' + rel)
            if prev is not None:
                res.ev('hist:projects-readded', len(
                    (set(cur) - set(prev['guids'])) & prev.get('gone', set())))
                res.ev('hist:projects-added', len(set(cur) - set(prev['guids'])))
                res.ev('hist:projects-removed', len(set(prev['guids']) - set(cur)))
            gone = (prev.get('gone', set()) | set(prev['guids'])) - set(cur) \
                if prev else set()
            prev = {'guids': cur, 'sln_guid': sg, 'model': model, 'gone': gone}
            res.classes.add('hist:' + run['how'])
            for op in run.get('ops') or []:
                res.classes.add('hist:op:' + op)
            for p in model:
                res.classes.add('hist:kind:' + p['kind'])
            if res.sample is None and ri == 2 and case.get('sample'):
                res.sample = {'kind': 'hist', 'run': ri, 'how': run['how'],
                              'ops': run.get('ops'), 'script': run['script'],
                              'projects_seen': cur}
    finally:
        core.rmtree(root)
    return res


def solution_files(bld):
    """{relpath: sha1} of every .sln / .proj / .vcxproj / .bfg_uuid under bld."""
    import hashlib
    snap = {}
    for d, ds, fs in os.walk(bld):
        for n in fs:
            if n == '.bfg_uuid' or n.endswith(('.sln', '.proj', '.vcxproj')):
                p = os.path.join(d, n)
                try:
                    with open(p, 'rb') as f:
                        snap[os.path.relpath(p, bld)] = \
                            hashlib.sha1(f.read()).hexdigest()
                except OSError as e:
                    snap[os.path.relpath(p, bld)] = 'unreadable: %r' % (e,)
    return snap


def observe_brief(bld, project):
    obs = observe_solution(bld, project)
    if obs['sln'] is None:
        return None
    return [{'name': p['name'], 'path': p['path'],
             'proj_file': obs['projs'][p['path']]['error'] or 'ok'}
            for p in obs['sln']['projects']]


def judge_run(res, obs, model, prev, base):
    def viol(mech, **kw):
        res.violate(mech, dict(base, **kw))

    if obs['sln'] is None or obs['sln_errors']:
        viol(('solution', 'malformed-sln'), errors=obs['sln_errors'][:5])
        if obs['sln'] is None:
            return
    res.ev('hist:sln-parsed')
    sln = obs['sln']
    projects = sln['projects']
    kinds = {}
    for p in model:
        kinds.setdefault(p['name'], []).append(p['kind'])

    # ---- one .sln entry per project name
    byname = {}
    for p in projects:
        byname.setdefault(p['name'], []).append(p)
    dup_names = sorted(n for n, ps in byname.items() if len(ps) > 1)
    for n in dup_names:
        ps = byname[n]
        viol(('solution', 'duplicate-project-name'), name=n,
             kinds=sorted(kinds.get(n, [])), guids=[p['guid'] for p in ps],
             paths=[p['path'] for p in ps],
             same_guid=len(set(p['guid'] for p in ps)) == 1,
             same_path=len(set(p['path'] for p in ps)) == 1)
    uniq = [ps[0] for n, ps in byname.items() if len(ps) == 1]

    # ---- GUIDs pairwise distinct (solution GUID included), paths distinct
    res.ev('hist:guid-distinctness', len(uniq))
    seen = {}
    for g in set(sln['sln_guids']):
        seen[g] = '(solution)'
    if len(set(sln['sln_guids'])) > 1:
        viol(('solution', 'solution-guid-not-unique'),
             guids=sorted(set(sln['sln_guids'])))
    seen_path = {}
    for p in uniq:
        if p['guid'] in seen:
            viol(('solution', 'duplicate-guid'), name=p['name'],
                 other=seen[p['guid']], guid=p['guid'],
                 relation=name_relation(p['name'], seen[p['guid']]))
        seen[p['guid']] = p['name']
        if p['path'] in seen_path:
            viol(('solution', 'duplicate-path'), name=p['name'],
                 other=seen_path[p['path']], path=p['path'])
        seen_path[p['path']] = p['name']

    # ---- project set == the script's steps
    want = set(kinds)
    have = set(byname)
    if want - have:
        viol(('solution', 'project-set-differs', 'missing'),
             missing=sorted(want - have))
    if have - want:
        viol(('solution', 'project-set-differs', 'extra'),
             extra=sorted(have - want))

    # ---- references
    guids = set(p['guid'] for p in projects)
    for p in projects:
        for d in p['deps']:
            res.ev('hist:dependency-edges')
            if d not in guids:
                viol(('solution', 'dangling-dependency'), name=p['name'], guid=d)
            elif d == p['guid'] and p['name'] not in dup_names:
                viol(('solution', 'self-dependency'), name=p['name'], guid=d)
    for g in sln['cfg_guids']:
        res.ev('hist:config-entries')
        if g not in guids:
            viol(('solution', 'dangling-config-entry'), guid=g)

    # ---- every project path is a project of this solution
    for p in uniq:
        pj = obs['projs'][p['path']]
        if pj['error'] == 'missing':
            viol(('solution', 'project-file-missing'), name=p['name'],
                 path=p['path'])
            continue
        if pj['error']:
            viol(('solution', 'project-xml-malformed'), name=p['name'],
                 path=p['path'], error=pj['error'])
            continue
        res.ev('hist:proj-xml-parsed')
        if pj['guid'] != p['guid']:
            viol(('solution', 'project-guid-mismatch'), name=p['name'],
                 sln_guid=p['guid'], proj_guid=pj['guid'])
        if pj['rootns'] != p['name']:
            viol(('solution', 'project-name-mismatch'), name=p['name'],
                 proj_name=pj['rootns'])

    # ---- .bfg_uuid agrees with the solution just written
    um = obs['uuidmap']
    if um is None or not isinstance(um, dict) or um.get('version') != 1 or \
       not isinstance(um.get('map'), dict):
        viol(('uuidmap', 'malformed'), error=obs['uuid_error'], content=um)
    else:
        res.ev('hist:uuidmap-parsed')
        mp = um['map']
        sg = sln['sln_guids'][0] if sln['sln_guids'] else None
        if sg is not None and mp.get('') != guid_hex(sg):
            viol(('uuidmap', 'solution-guid-mismatch'), sln_guid=sg,
                 saved=mp.get(''))
        for p in uniq:
            if p['name'] not in mp:
                viol(('uuidmap', 'missing-entry'), name=p['name'])
            elif mp[p['name']] != guid_hex(p['guid']):
                viol(('uuidmap', 'guid-mismatch'), name=p['name'],
                     sln_guid=p['guid'], saved=mp[p['name']])
        stale = sorted(set(mp) - set(byname) - {''})
        if stale:
            viol(('uuidmap', 'stale-entry'), names=stale)

    # ---- stability
    if prev is not None:
        sg = sln['sln_guids'][0] if sln['sln_guids'] else None
        res.ev('hist:solution-guid-kept')
        if prev['sln_guid'] and sg != prev['sln_guid']:
            viol(('solution', 'guid-changed', 'solution'), before=prev['sln_guid'],
                 after=sg)
        for p in uniq:
            if p['name'] in prev['guids']:
                res.ev('hist:guid-kept')
                if prev['guids'][p['name']] != p['guid']:
                    viol(('solution', 'guid-changed', 'project'), name=p['name'],
                         before=prev['guids'][p['name']], after=p['guid'])


# --------------------------------------------------------------------------

def run_case(case):
    core.use_repo_in_process()
    kind = case['kind']
    if kind == 'enum1':
        return run_enum1(case)
    if kind == 'enumk':
        return run_enumk(case)
    if kind == 'lists':
        return run_lists(case)
    if kind == 'jbos':
        return run_jbos(case)
    if kind in ('splitenum', 'splitlines'):
        return run_split(case)
    if kind == 'proj':
        return run_proj(case)
    if kind == 'hist':
        return run_hist(case)
    raise ValueError(kind)
