"""C07 - Real-toolchain builds are incremental and survive header changes."""
import copy
import os
import re
import threading

from .. import core, proj
from ..core import CaseResult
from ..gen import c07gen as g

LEVEL = 'exploration'
MODE = 'thread'
RULE = ('seeded random C and C++ projects (vf/gen/c07gen.py: 3-10 translation units, some in a '
        'static library, 3/8 of the projects with a precompiled header for the executable\'s TUs - '
        'pch=\'file\' on a single-source executable or one precompiled_header() object shared by '
        '>= 2 objects - that is never #included by the sources and pulls in 1-2 headers reachable '
        'only through it; 3-12 headers in an include DAG of depth <= 4 spread over 1-2 include '
        'directories that reach the compiler through header_directory()/string includes=/'
        'opts.include_dir/raw -I/global_options, never listed individually; header and '
        'include-directory names plain or with spaces and Make-special characters, each admitted '
        '(the random names include the same character twice, and directed two-TU projects carry '
        'every special character twice - adjacent and separated - in headers that are renamed and '
        'then deleted, other directed projects carry white space that is not ASCII space/tab - '
        'U+00A0 U+3000 U+2003 U+2028 U+0085 VT FF US - in a header name and a header '
        'sub-directory; further projects - two random ones in eight and directed four-TU ones per '
        'character - put the special characters into source file names, source sub-directories '
        'and executable/library names, i.e. into the path of the objects and their .d files, '
        'with plain header names) per compiler and back end by calibration against a hand-written Makefile/build.ninja that '
        'consumes the compiler\'s raw -MMD output - one name at a time, then all names of a history '
        'together in both orders) built by the real gcc/g++ (clang/clang++ in '
        'thorough) through recording wrappers, under histories of 6-12 edits (modify header/'
        'source, modify the PCH header, modify a header reached only through the PCH, '
        'add header + #include (into a TU, a header or the PCH header), remove #include then '
        'delete, delete in one step, rename '
        'header with includers updated, move header between include dirs, no-op, clean, add/'
        'rename/delete source with build.bfg edited) each followed by a build, a run of the '
        'program and a look at the wrappers\' log; '
        'distinct = (backend, compiler, language, include mode, edit kind, special characters of '
        'the edited name, size class of the must-recompile set); non-trivial = every step except '
        'a plain source modification')
ASSUMPTIONS = [
    'the generator\'s own model (macro arithmetic mod 2^32 over the include DAG) gives the '
    'expected program output and the must-recompile sets; it never imports bfg9000',
    'which compilers/linkers/archivers ran is what the vwrap-* wrappers recorded during the build '
    'command only (configure-time probes are not in the window)',
    'a header or include-directory name is only demanded of bfg9000 if a hand-written build file '
    'using the same compiler\'s raw -MMD output handles it (rebuild on touch, quiet no-op) and, '
    'for Make, a hand-spelt empty rule for it (raw, backslash-escaped or through a variable, '
    'per character) survives the deletion of the header; the names of one history must also '
    'pass together',
    'special characters in an object\'s own path (target name, source directory, source name) '
    'are only demanded where a hand-written build file for that one object, reading back the '
    'compiler\'s own <object>.d, rebuilds it after a header touch and is quiet on a no-op; '
    '% * ? [ ] ( ) \' : , and leading ~/space are not drawn for object paths at all (C04 shows '
    'bfg9000+Make cannot build them)',
    'precompiled headers are only demanded where a hand-written build file with the PCH as a '
    'normal prerequisite of the object (compiled with -include, own depfiles) follows edits of '
    'the PCH header and of a header behind it and is quiet on a no-op (per compiler, language '
    'and back end)',
    'timestamp discipline of DESIGN.md Appendix C.2 (kernel clock only, strictly newer, verified)',
    'Ninja half executed by vf/ref/refninja.py (deps=gcc, deps log, -t clean, regeneration)',
]
KEEP_GOING = False
# which projects (index mod 8) use a precompiled header, and in which form
# which projects (index mod 8) have special characters in source/target names
OBJNAME_SHARE = (3, 6)
PCH_SHARE = {1: 'object', 4: 'string', 6: 'object'}
EXTRA_COVERAGE = {'backends': ['make', 'ninja (vf/ref/refninja.py)'],
                  'compilers': ['gcc', 'g++', 'clang', 'clang++']}
# edits that make a file named in the previous depfiles vanish share their root causes
KIND_CLASS = {'mod_pch': 'pch-header-modified', 'del_header': 'header-gone', 'rename_header': 'header-gone',
              'move_header': 'header-gone', 'mod_header': 'header-modified',
              'add_header': 'header-added', 'uninclude': 'include-removed',
              'rm_header': 'unused-header-deleted',
              'unbreak_tu': 'header-gone-after-failed-build',
              'fix_header': 'header-repaired-after-failed-build'}


def floors(tier):
    q = tier == 'quick'
    return {'builds:after-edit': 50 if q else 900, 'builds:expected-to-fail': 8 if q else 100,
            'builds:expected-to-fail:header': 12,
            'builds:noop': 8 if q else 120,
            'builds:clean+rebuild': 8 if q else 120,
            'obligations:must-recompile': 200 if q else 3000,
            'obligations:output-lines': 500 if q else 8000,
            'obligations:clean-products': 100 if q else 1500,
            'compile-invocations': 300 if q else 4000,
            'link-invocations': 80 if q else 1200,
            'edit:stale-dep-header-gone': 12 if q else 200,
            'names:special-admitted': 15 if q else 300,
            'calibration:admitted': 30 if q else 500,
            'edit:header-gone-with-repeated-character': 20 if q else 150,
            'obligations:must-recompile-object-with-special-path': 40 if q else 600,
            'calibration:object-admitted': 20 if q else 150,
            'edit:header-gone-with-odd-space': 10 if q else 60,
            'edit:mod_pch': 3 if q else 50,
            'edit:header-only-through-pch': 3 if q else 50,
            'obligations:pch-users-must-recompile': 10 if q else 300,
            'builds:noop-after-pch-edit': 1 if q else 20,
            'distinct_nontrivial': 40 if q else 300}


# --------------------------------------------------------------------------
# tool chain

def show(chars):
    """Special characters for labels: printable ASCII as it is, the rest as U+XXXX."""
    return ''.join(c if ' ' <= c <= '~' else 'U+%04X' % ord(c) for c in chars)


def cc_for(compiler, lang, wrap=True):
    name = {('gcc', 'c'): 'gcc', ('gcc', 'c++'): 'g++',
            ('clang', 'c'): 'clang', ('clang', 'c++'): 'clang++'}[(compiler, lang)]
    return ('vwrap-' if wrap else '') + name


def toolchain_env(compiler, log):
    return {'CC': cc_for(compiler, 'c'), 'CXX': cc_for(compiler, 'c++'), 'AR': 'vwrap-ar',
            'VSTUB_LOG': log, 'VSTUB_ENVKEYS': 'NONE'}


# --------------------------------------------------------------------------
# calibration: can compiler + build tool handle this header name at all?

_calib = {}
_calib_lock = threading.Lock()
MAKE_ESCAPABLE = set(' #%:;=*?[]~|&()\'"`<>!{}^,@+\\')
# how a hand-written Makefile may spell one special character inside a target name
ESC_STYLES = ('raw', 'bs', 'var')
_VAR_DEFS = {' ': 'C07E :=\nC07CH_32 := $(C07E) $(C07E)\n', '#': 'C07CH_35 := \\#\n'}


def _mtime(p):
    try:
        return os.stat(p).st_mtime_ns
    except OSError:
        return None


def _esc_target(path, style):
    """-> (escaped text, variable definitions needed)"""
    out, defs = [], []
    for ch in path:
        if ch == '$':
            out.append('$$')
        elif style.get(ch) == 'bs':
            out.append('\\' + ch)
        elif style.get(ch) == 'var':
            out.append('$(C07CH_%d)' % ord(ch))
            d = _VAR_DEFS.get(ch, 'C07CH_%d := %s\n' % (ord(ch), ch))
            if d not in defs:
                defs.append(d)
        else:
            out.append(ch)
    return ''.join(out), ''.join(defs)


def _styles_for(compiler, lang, text):
    """Per character of `text`: the first spelling with which GNU make accepts an empty rule
    for a name holding that character (decided once, on the name n<c>m.h).
    -> {char: style} or None if some character has no working spelling."""
    style = {}
    for c in sorted({c for c in text if c in MAKE_ESCAPABLE}):
        k = (compiler, lang, 'style', c)
        with _calib_lock:
            known = k in _calib
        if not known:
            found = None
            for sty in ESC_STYLES:
                ok, why = _calibrate(compiler, lang, 'make', [('inc', 'n%sm.h' % c)], {c: sty})
                if ok:
                    found = sty
                    break
                if 'deletion' not in why:
                    break       # the compiler's own output is the limit, not the rule
            with _calib_lock:
                _calib[k] = found
        style[c] = _calib[k]
    return style if all(style.values()) else None


def calibrate(compiler, lang, backend, incdir, relpath):
    """-> (admitted, reason) for one header name."""
    return calibrate_set(compiler, lang, backend, [(incdir, relpath)])


def calibrate_set(compiler, lang, backend, pairs):
    """-> (admitted, reason).  Reference build of one TU including all the given headers
    ((include dir, path below it) pairs, in this order), with hand-written build files fed
    by the compiler's own -MMD output."""
    key = (compiler, lang, backend, tuple(pairs))
    with _calib_lock:
        if key in _calib:
            return _calib[key]
    style = {}
    if backend == 'make':
        style = _styles_for(compiler, lang, ''.join(d + '/' + n for d, n in pairs))
    if style is None:
        out = (False, 'reference build cannot survive the deletion')
    else:
        out = _calibrate(compiler, lang, backend, pairs, style)
    with _calib_lock:
        _calib[key] = out
    return out


def _calibrate(compiler, lang, backend, pairs, style):
    root = core.mkscratch('c07cal')
    try:
        src, bld = os.path.join(root, 'src'), os.path.join(root, 'bld')
        hdrs = [os.path.join(src, d, n) for d, n in pairs]
        dirs = []
        for d, n in pairs:
            if d not in dirs:
                dirs.append(d)
        tu = os.path.join(src, 't.c' if lang == 'c' else 't.cpp')

        def tu_text(k):
            return ''.join('#include "%s"\nint v%d = H%d;\n' % (n, i, i)
                           for i, (d, n) in enumerate(pairs[:k]))  + 'int w = 1;\n'
        try:
            for i, (d, n) in enumerate(pairs):
                proj.write_tree(src, {d + '/' + n: '#define H%d 1\n' % i})
            proj.write_tree(src, {os.path.basename(tu): tu_text(len(pairs))})
        except OSError:
            return False, 'file system refuses the name'
        os.makedirs(bld)
        extra = {'C07_SRC': tu, 'C07_CC': cc_for(compiler, lang, wrap=False)}
        for i, d in enumerate(dirs):
            extra['C07_INC%d' % i] = os.path.join(src, d)
        env = core.base_env(extra)
        obj = os.path.join(bld, 't.o')
        if backend == 'make':
            incs = ' '.join('-I "$$C07_INC%d"' % i for i in range(len(dirs)))
            base = ('all: t.o\n'
                    't.o: $(C07_SRC)\n'
                    '\t"$$C07_CC" %s -c "$$C07_SRC" -MMD -MF t.o.d -o t.o\n'
                    '-include t.o.d\n' % incs)
            argv = ['make', '--no-print-directory']
        else:
            incs = ' '.join('-I "$$C07_INC%d"' % i for i in range(len(dirs)))
            base = ('rule cc\n'
                    '  command = "$$C07_CC" %s -c "$$C07_SRC" -MMD -MF $out.d -o $out\n'
                    '  depfile = $out.d\n'
                    '  deps = gcc\n'
                    'build t.o: cc %s\n'
                    'default t.o\n' % (incs, tu.replace('$', '$$').replace(' ', '$ ')
                                        .replace(':', '$:')))
            argv = [os.path.join(core.BIN, 'ninja')]
        bf = os.path.join(bld, proj.buildfile(backend))

        def build():
            rc, o = core.run(argv, cwd=bld, env=env, timeout=120)
            return rc

        def quiet():
            m = _mtime(obj)
            proj.settle()
            return build() == 0 and _mtime(obj) == m

        def rebuilds():
            m = _mtime(obj)
            return build() == 0 and _mtime(obj) not in (None, m)

        with open(bf, 'w') as f:
            f.write(base)
        proj.settle()
        if build() != 0 or _mtime(obj) is None:
            return False, 'compiler or tool cannot build with it'
        if not quiet():
            return False, 'reference build is not quiet on a no-op'
        for h in hdrs:
            proj.bump(h, bld, src)
            if not rebuilds():
                return False, 'reference build does not notice a touch'
        if not quiet():
            return False, 'reference build is not quiet after the rebuild'
        # deletion of a no longer included header: does the tool have a way to say
        # "this file may vanish"?  (Make: an empty rule, spelt by hand; Ninja: its deps log)
        if backend == 'make':
            rules, defs = [], []
            for h in hdrs:
                text, d = _esc_target(h, style)
                rules.append(text + ':\n')
                if d not in defs:
                    defs.append(d)
            with open(bf, 'w') as f:
                f.write(''.join(defs) + base + ''.join(rules))
            if not quiet():
                return False, 'reference build cannot survive the deletion'
        proj.write_tree(src, {os.path.basename(tu): tu_text(len(pairs) - 1)})
        os.remove(hdrs[-1])
        proj.bump(tu, bld, src)
        if not rebuilds() or not quiet():
            return False, 'reference build cannot survive the deletion'
        return True, ''
    finally:
        core.rmtree(root)


def calibrate_obj(compiler, lang, backend, target, srcrel):
    """-> (admitted, reason) for an object <target>.int/<srcrel minus suffix>.o compiled from
    the source srcrel: a hand-written build file (object and source spelt by hand, the
    compiler's own <object>.d read back) must build it, stay quiet, and rebuild it after a
    touch of the (plainly named) header and of the source."""
    key = (compiler, lang, backend, 'obj', target, srcrel)
    with _calib_lock:
        if key in _calib:
            return _calib[key]
    style = {}
    if backend == 'make':
        for c in sorted({c for c in target + '/' + srcrel if c in MAKE_ESCAPABLE and c != '/'}):
            k = (compiler, lang, 'ostyle', c)
            with _calib_lock:
                known = k in _calib
            if not known:
                found = None
                for sty in ESC_STYLES:
                    ok, why = _calibrate_obj(compiler, lang, 'make', 'prog',
                                             't%su%s' % (c, '.c' if lang == 'c' else '.cpp'),
                                             {c: sty})
                    if ok:
                        found = sty
                        break
                with _calib_lock:
                    _calib[k] = found
            style[c] = _calib[k]
    if not all(style.values()):
        out = (False, 'no hand-written spelling of the object works')
    else:
        out = _calibrate_obj(compiler, lang, backend, target, srcrel, style)
    with _calib_lock:
        _calib[key] = out
    return out


def _calibrate_obj(compiler, lang, backend, target, srcrel, style):
    root = core.mkscratch('c07obj')
    try:
        src, bld = os.path.join(root, 'src'), os.path.join(root, 'bld')
        tu = os.path.join(src, srcrel)
        hdr = os.path.join(src, 'inc', 'p.h')
        objrel = target + '.int/' + os.path.splitext(srcrel)[0] + '.o'
        obj = os.path.join(bld, objrel)
        try:
            proj.write_tree(src, {'inc/p.h': '#define H 1\n',
                                  srcrel: '#include "p.h"\nint v = H;\n'})
            os.makedirs(os.path.dirname(obj))
        except OSError:
            return False, 'file system refuses the name'
        env = core.base_env({'C07_INC0': os.path.join(src, 'inc'), 'C07_SRC': tu,
                             'C07_OBJ': objrel, 'C07_CC': cc_for(compiler, lang, wrap=False)})
        cmd = '"$$C07_CC" -I "$$C07_INC0" -c "$$C07_SRC" -MMD -MF "$$C07_OBJ.d" -o "$$C07_OBJ"'
        if backend == 'make':
            eo, d1 = _esc_target(objrel, style)
            es, d2 = _esc_target(tu, style)
            text = (d1 + (d2 if d2 != d1 else '') +
                    'all: %s\n%s: %s\n\t%s\n-include %s.d\n' % (eo, eo, es, cmd, eo))
            argv = ['make', '--no-print-directory']
        else:
            def n(x):
                return x.replace('$', '$$').replace(' ', '$ ').replace(':', '$:')
            text = ('rule cc\n  command = %s\n  depfile = $out.d\n  deps = gcc\n'
                    'build %s: cc %s\ndefault %s\n' % (cmd, n(objrel), n(tu), n(objrel)))
            argv = [os.path.join(core.BIN, 'ninja')]
        with open(os.path.join(bld, proj.buildfile(backend)), 'w') as f:
            f.write(text)

        def build():
            rc, o = core.run(argv, cwd=bld, env=env, timeout=120)
            return rc

        def quiet():
            m = _mtime(obj)
            proj.settle()
            return build() == 0 and _mtime(obj) == m

        def rebuilds():
            m = _mtime(obj)
            return build() == 0 and _mtime(obj) not in (None, m)

        proj.settle()
        if build() != 0 or _mtime(obj) is None:
            return False, 'reference build of the object fails'
        if not quiet():
            return False, 'reference build of the object is not quiet on a no-op'
        proj.bump(hdr, bld, src)
        if not rebuilds() or not quiet():
            return False, "reference build cannot read the compiler's depfile for the object"
        proj.bump(tu, bld, src)
        if not rebuilds() or not quiet():
            return False, 'reference build does not notice a touch of the source'
        return True, ''
    finally:
        core.rmtree(root)


def calibrate_pch(compiler, lang, backend):
    """-> (ok, reason).  Can compiler + build tool do precompiled headers the way the
    property demands?  Hand-written build file: the PCH (compiled from pre.h, which includes
    inc/inner.h) is a normal prerequisite of the object, the object is compiled with
    -include ./pre.h and its own depfile; editing inner.h or pre.h must change what the
    program prints, and a no-op must run nothing."""
    key = (compiler, lang, backend, 'pch')
    with _calib_lock:
        if key in _calib:
            return _calib[key]
    out = (False, 'no PCH suffix works')
    for ext in (['gch', 'pch'] if compiler == 'gcc' else ['pch', 'gch']):
        out = _calibrate_pch(compiler, lang, backend, ext)
        if out[0]:
            break
    with _calib_lock:
        _calib[key] = out
    return out


def _calibrate_pch(compiler, lang, backend, ext):
    root = core.mkscratch('c07pch')
    try:
        src, bld = os.path.join(root, 'src'), os.path.join(root, 'bld')
        tu = os.path.join(src, 't.c' if lang == 'c' else 't.cpp')
        pre, inner = os.path.join(src, 'pre.h'), os.path.join(src, 'inc', 'inner.h')

        def put(i, p):
            proj.write_tree(src, {'inc/inner.h': '#define INNER %d\n' % i,
                                  'pre.h': '#include "inner.h"\n#define P (%d+INNER)\n' % p})
        put(1, 10)
        proj.write_tree(src, {os.path.basename(tu): '#include <stdio.h>\nint main(void)'
                                                    '{printf("%d\\n", P);return 0;}\n'})
        os.makedirs(bld)
        env = core.base_env({'C07_INC0': os.path.join(src, 'inc'), 'C07_SRC': tu, 'C07_PRE': pre,
                             'C07_CC': cc_for(compiler, lang, wrap=False)})
        xh = 'c-header' if lang == 'c' else 'c++-header'
        gch = 'pre.h.' + ext
        if backend == 'make':
            text = ('all: t\n'
                    '%(g)s: $(C07_PRE)\n'
                    '\t"$$C07_CC" -x %(x)s -I "$$C07_INC0" -c "$$C07_PRE" -MMD -MF %(g)s.d '
                    '-o %(g)s\n'
                    't.o: $(C07_SRC) %(g)s\n'
                    '\t"$$C07_CC" -I "$$C07_INC0" -include ./pre.h -c "$$C07_SRC" -MMD -MF t.o.d '
                    '-o t.o\n'
                    't: t.o\n'
                    '\t"$$C07_CC" t.o -o t\n'
                    '-include t.o.d\n'
                    '-include %(g)s.d\n' % {'g': gch, 'x': xh})
            argv = ['make', '--no-print-directory']
        else:
            text = ('rule pch\n'
                    '  command = "$$C07_CC" -x %(x)s -I "$$C07_INC0" -c $in -MMD -MF $out.d -o $out\n'
                    '  depfile = $out.d\n'
                    '  deps = gcc\n'
                    'rule cc\n'
                    '  command = "$$C07_CC" -I "$$C07_INC0" -include ./pre.h -c $in -MMD -MF $out.d '
                    '-o $out\n'
                    '  depfile = $out.d\n'
                    '  deps = gcc\n'
                    'rule ld\n'
                    '  command = "$$C07_CC" $in -o $out\n'
                    'build %(g)s: pch %(p)s\n'
                    'build t.o: cc %(s)s | %(g)s\n'
                    'build t: ld t.o\n'
                    'default t\n' % {'g': gch, 'x': xh, 'p': pre, 's': tu})
            argv = [os.path.join(core.BIN, 'ninja')]
        with open(os.path.join(bld, proj.buildfile(backend)), 'w') as f:
            f.write(text)
        exe = os.path.join(bld, 't')

        def build_says(expect):
            rc, o = core.run(argv, cwd=bld, env=env, timeout=120)
            if rc != 0 or not os.path.isfile(exe):
                return False
            rc, o = core.run([exe], cwd=bld, env=env, timeout=60)
            return rc == 0 and o.strip() == str(expect)

        def quiet():
            m = (_mtime(exe), _mtime(os.path.join(bld, 't.o')), _mtime(os.path.join(bld, gch)))
            proj.settle()
            rc, o = core.run(argv, cwd=bld, env=env, timeout=120)
            return rc == 0 and m == (_mtime(exe), _mtime(os.path.join(bld, 't.o')),
                                     _mtime(os.path.join(bld, gch)))

        proj.settle()
        if not build_says(11):
            return False, 'reference PCH build does not work'
        if not quiet():
            return False, 'reference PCH build is not quiet on a no-op'
        put(2, 10)
        proj.bump(inner, bld, src)
        if not build_says(12) or not quiet():
            return False, 'reference PCH build misses a header behind the PCH'
        put(2, 20)
        proj.bump(pre, bld, src)
        if not build_says(22) or not quiet():
            return False, 'reference PCH build misses the PCH header'
        return True, ''
    finally:
        core.rmtree(root)


# --------------------------------------------------------------------------
# cases

def cases(tier, seed):
    quick = tier == 'quick'
    n = 8 if quick else 130
    # directed: every special character twice in a header name, each such header renamed
    # and deleted (small two-TU projects; '=' alone because of its known finding)
    k = 0
    for compiler in (['gcc'] if quick else ['gcc', 'clang']):
        for chars in (g.REPEAT_QUICK if quick else g.REPEAT_ALL):
            k += 1
            st, hist = g.directed_repeat(('c', 'c++')[k % 2], chars,
                                         g.INCMODES[k % len(g.INCMODES)])
            for backend in ('make', 'ninja'):
                yield {'index': 1000 + k, 'backend': backend, 'compiler': compiler, 'jobs': 1,
                       'directed': 'repeated:' + chars, 'state': st, 'history': hist}
    # directed: white space other than ASCII space/tab in a header name and in a header
    # sub-directory; each such header renamed, then deleted
    for compiler in (['gcc'] if quick else ['gcc', 'clang']):
        for chars in g.WS_QUICK:
            k += 1
            st, hist = g.directed_repeat(('c', 'c++')[k % 2], chars,
                                         g.INCMODES[k % len(g.INCMODES)], g.odd_space_names)
            for backend in ('make', 'ninja'):
                yield {'index': 1000 + k, 'backend': backend, 'compiler': compiler, 'jobs': 1,
                       'directed': 'odd-space:' + ascii(chars), 'state': st, 'history': hist}
    for compiler in (['gcc'] if quick else ['gcc', 'clang']):
        for c in (g.OBJ_CHARS_QUICK if quick else g.OBJ_CHARS_ALL):
            k += 1
            st, hist = g.directed_objpath(('c', 'c++')[k % 2], c,
                                          g.INCMODES[k % len(g.INCMODES)])
            for backend in ('make', 'ninja'):
                yield {'index': 1000 + k, 'backend': backend, 'compiler': compiler, 'jobs': 1,
                       'directed': 'object-path:' + c, 'state': st, 'history': hist}
    # directed: plainly named headers that are #included under spellings that are not
    # normalised ("../inc/h.h", "./h.h"); each such header renamed, then deleted
    for sp in ('dotdot', 'dot', 'mixed'):
        k += 1
        st, hist = g.directed_repeat(('c', 'c++')[k % 2], '_', g.INCMODES[k % len(g.INCMODES)])
        st['spell'] = sp
        for backend in ('make', 'ninja'):
            yield {'index': 1000 + k, 'backend': backend, 'compiler': 'gcc', 'jobs': 1,
                   'directed': 'include-spelling:' + sp, 'state': st, 'history': hist}
    # directed: extension-less headers next to sources of the same name
    for lang in ('c++', 'c'):
        k += 1
        st, hist = g.directed_sibling(lang, g.INCMODES[k % len(g.INCMODES)])
        for backend in ('make', 'ninja'):
            yield {'index': 1000 + k, 'backend': backend, 'compiler': 'gcc', 'jobs': 1,
                   'directed': 'header-beside-source-of-the-same-name', 'state': st,
                   'history': hist}
    # directed: a header saved with a mistake in it (the build fails, the compiler leaves the
    # old objects alone), then repaired with new contents - plainly named files throughout
    for lang in ('c', 'c++'):
        for compiler in ('gcc', 'clang'):
            k += 1
            base = probe_case('make', compiler, lang, 'h1.h', 'inc')
            hist = [{'op': 'break_header', 'h': '1'}, {'op': 'fix_header', 'h': '1', 'base': 11},
                    {'op': 'noop'}, {'op': 'break_header', 'h': '2'},
                    {'op': 'fix_header', 'h': '2', 'base': 13}, {'op': 'noop'},
                    {'op': 'mod_header', 'h': '1', 'base': 17}, {'op': 'clean'}]
            for backend in ('make', 'ninja'):
                yield {'index': 1000 + k, 'backend': backend, 'compiler': compiler, 'jobs': 1,
                       'directed': 'header-broken-then-repaired', 'state': base['state'],
                       'history': hist}
    for i in range(n):
        rng = core.rng_for(seed, 'c07', i)
        lang = ('c', 'c++')[i % 2] if quick else rng.choice(['c', 'c++'])
        if quick:
            # two of the three PCH projects (string form, object form) are built with clang
            compiler = 'clang' if i in (4, 6) else 'gcc'
        else:
            compiler = 'clang' if i % 3 == 2 else 'gcc'
        p_special = [0.0, 0.35, 0.6, 0.35][i % 4]
        st = g.gen_state(rng, lang, p_special, special_incdir=(i % 3 == 1))
        if i % 8 in OBJNAME_SHARE:
            st = g.add_objnames(core.rng_for(seed, 'c07obj', i), st,
                                g.OBJ_CHARS_QUICK if quick or i % 16 < 8 else g.OBJ_CHARS_ALL)
        form = PCH_SHARE.get(i % 8)
        if form:
            st = g.add_pch(core.rng_for(seed, 'c07pch', i), st, form, p_special)
        st['spell'] = [None, 'mixed', None, 'dotdot', None, 'dot', 'mixed', None][(i + seed) % 8]
        nedits = 8 if quick else rng.randint(6, 12)
        hist = g.gen_history(rng, st, nedits, p_special, allow_regen=True)
        for backend in ('make', 'ninja'):
            yield {'index': i, 'backend': backend, 'compiler': compiler,
                   'jobs': (3 if i % 4 == 3 else 1),
                   'state': st, 'history': hist}


# --------------------------------------------------------------------------
# name admission

def _pass(case, res, banned, count):
    compiler, backend = case['compiler'], case['backend']
    st = copy.deepcopy(case['state'])
    lang = st['lang']
    used = []       # admitted (incdir, relpath) pairs with special characters

    def admitted(incdir, relpath, record=True):
        if not g.name_chars(incdir + '/' + relpath):
            return True
        if (incdir, relpath) in banned:
            return False
        # digits are alike for every tool involved: one calibration per name shape
        ok, why = calibrate(compiler, lang, backend, incdir, re.sub(r'[0-9]+', '0', relpath))
        if count:
            res.ev('calibration:admitted' if ok else 'calibration:excluded')
            if not ok:
                res.exclude('%s/%s: %s: %s' % (compiler, backend, why,
                                               show(g.name_chars(incdir + '/' + relpath))))
        if ok and record and (incdir, relpath) not in used:
            used.append((incdir, relpath))
        return ok

    plain_dirs = st.get('incdirs_plain') or ['inc', 'inc2']
    for i, d in enumerate(st['incdirs']):
        if not admitted(d, 'p.h', record=False) or (d, None) in banned:
            st['incdirs'][i] = plain_dirs[i]
    for hid, h in st['headers'].items():
        if not admitted(st['incdirs'][h['dir']], h['name']):
            h['name'] = h['plain']
    hist = []
    cur = st
    for op in case['history']:
        op = dict(op)
        try:
            if op['op'] in ('add_header', 'rename_header'):
                d = op.get('dir', cur['headers'][op['h']]['dir'] if op['h'] in cur['headers']
                           else 0)
                if not admitted(cur['incdirs'][d], op['name']):
                    op['name'] = op['plain']
            elif op['op'] == 'move_header':
                if not admitted(cur['incdirs'][op['dir']], cur['headers'][op['h']]['name']):
                    continue
            cur, _ = g.apply(cur, op)
        except (ValueError, KeyError):
            continue     # a replay file edited by hand; skip what does not apply
        hist.append(op)
    # headers with plain names in a special include directory
    for d in st['incdirs']:
        if g.name_chars(d) and not any(x == d for x, n in used):
            used.append((d, 'p.h'))
    return st, hist, used


def _resolve_objnames(case, res):
    """Targets and sources whose object path the tool chain cannot handle get plain names."""
    compiler, backend = case['compiler'], case['backend']
    st = copy.deepcopy(case['state'])
    lang = st['lang']
    ext = g.src_ext(st)

    def ok_obj(target, srcrel):
        norm = re.sub(r'[0-9]+', '0', srcrel)
        ok, why = calibrate_obj(compiler, lang, backend, target, norm)
        res.ev('calibration:object-admitted' if ok else 'calibration:object-excluded')
        if not ok:
            res.exclude('%s/%s: object path: %s: %s' % (
                compiler, backend, why, show(g.name_chars(target + '/' + srcrel))))
        return ok

    if st.get('exe_name') and not ok_obj(st['exe_name'], 't' + ext):
        st['exe_name'] = None
    if st.get('lib_name') and not ok_obj('lib' + st['lib_name'], 't' + ext):
        st['lib_name'] = None
    for tid, t in st['tus'].items():
        if 'file_plain' in t and g.name_chars(t['file']) and \
           not ok_obj(g.tu_target(st, tid), t['file']):
            t['file'] = t['file_plain']
    return st


def resolve(case, res):
    """Replace names the tool chain itself cannot handle by their plain fallbacks: first
    name by name, then all names of the history together (both orders: GNU make reads
    `a( b)` in a prerequisite list as archive members, for example).
    -> (state, history) ready to run."""
    compiler, backend = case['compiler'], case['backend']
    if case['state'].get('pch'):
        ok, why = calibrate_pch(compiler, case['state']['lang'], backend)
        res.ev('calibration:pch-admitted' if ok else 'calibration:pch-excluded')
        if not ok:
            res.exclude('%s/%s: %s' % (compiler, backend, why))
            s2, h2 = g.strip_pch(case['state'], case['history'])
            case = dict(case, state=s2, history=h2)
    if any('file_plain' in t for t in case['state']['tus'].values()) or \
       case['state'].get('exe_name') or case['state'].get('lib_name'):
        case = dict(case, state=_resolve_objnames(case, res))
    banned = set()
    st, hist, used = _pass(case, res, banned, True)
    while len(used) > 1:
        norm = [(d, re.sub(r'[0-9]+', str(i), n)) for i, (d, n) in enumerate(used)]
        ok, why = calibrate_set(compiler, st['lang'], backend, norm)
        if ok:
            ok, why = calibrate_set(compiler, st['lang'], backend, norm[::-1])
        res.ev('calibration:joint-admitted' if ok else 'calibration:joint-excluded')
        if ok:
            break
        # drop one name (parentheses first: they pair up across names) and try again
        victim = next((p for p in used if '(' in p[0] + p[1] or ')' in p[0] + p[1]), used[-1])
        res.exclude('%s/%s: names together: %s: %s' % (
            compiler, backend, why, show(g.name_chars(victim[0] + '/' + victim[1]))))
        banned.add(victim)
        if victim[1] == 'p.h':
            banned.add((victim[0], None))
        st, hist, used = _pass(case, res, banned, False)
    return st, hist


# --------------------------------------------------------------------------
# observing builds

COMPILERS = ('vwrap-gcc', 'vwrap-g++', 'vwrap-clang', 'vwrap-clang++', 'vwrap-cc', 'vwrap-c++')


class Observed:
    def __init__(self):
        self.compiled = []     # tids
        self.links = 0
        self.archives = 0
        self.other = 0
        self.products = {}     # abs path -> kind


def observe(recs, src, st):
    by_path = {os.path.join(src, t['file']): tid for tid, t in st['tus'].items()}
    if st.get('pch'):
        by_path[os.path.join(src, st['pch']['file'])] = 'pch'
    ob = Observed()
    for r in recs:
        if 'corrupt' in r:
            ob.other += 1
            continue
        base = os.path.basename(r['name'])
        argv = r['argv']
        cwd = r['cwd']

        def absn(a):
            return os.path.normpath(os.path.join(cwd, a))

        if base == 'vwrap-ar':
            ob.archives += 1
            if len(argv) >= 3:
                ob.products[absn(argv[2])] = ('archive', None)
            continue
        if base not in COMPILERS:
            ob.other += 1
            continue
        outs = [absn(argv[i + 1]) for i, a in enumerate(argv[:-1]) if a == '-o']
        if '-c' in argv:
            tid = next((by_path[absn(a)] for a in argv[1:] if absn(a) in by_path), None)
            if tid is None:
                ob.other += 1       # a stale or foreign compile (e.g. a configure probe)
                continue
            ob.compiled.append(tid)
            for o in outs:
                ob.products[o] = ('pch' if tid == 'pch' else 'object', tid)
            for i, a in enumerate(argv[:-1]):
                if a == '-MF':
                    ob.products[absn(argv[i + 1])] = ('depfile', tid)
        elif outs and not any(a in ('-E', '-S', '--version', '-v') for a in argv):
            ob.links += 1
            for o in outs:
                ob.products[o] = ('executable', None)
        else:
            ob.other += 1
    return ob


def fail_reason(out):
    o = out or ''
    if 'No rule to make target' in o:
        return 'no-rule-to-make-target'
    if 'missing separator' in o or 'multiple target patterns' in o or \
       'target pattern contains no' in o or 'mixed implicit' in o:
        return 'makefile-syntax'
    if 'depfixer' in o:
        return 'depfixer-error'
    if 'missing and no known rule' in o:
        return 'ninja-missing-input'
    if 'depfile' in o and ('expected' in o or 'ninja: error' in o):
        return 'ninja-depfile'
    if 'since the precompiled header' in o or 'precompiled header' in o and 'out of date' in o:
        return 'stale-pch'
    if re.search(r'ld: cannot find [^\n]*\.o: No such file', o):
        return 'linker-cannot-find-object'
    if 'No such file or directory' in o and ('fatal error' in o or 'error:' in o):
        return 'header-not-found'
    if 'error:' in o:
        return 'compile-or-link-error'
    return 'other'


def syntax_culprit(bld, out, root):
    """For a Make parse error inside an included depfile: the offending line and the
    smallest set of special characters with which GNU make still rejects it.
    -> (line with the scratch prefix removed, chars) or None"""
    m = re.search(r'^(?:make[^:]*: )?([^\n]*?\.d):(\d+): \*\*\* ', out or '', re.M)
    if not m:
        return None
    try:
        with open(os.path.join(bld, m.group(1)), encoding='utf-8', errors='replace') as f:
            line = f.read().split('\n')[int(m.group(2)) - 1]
    except (OSError, IndexError):
        return None
    line = line.replace(os.path.join(root, 'src'), '/S')
    body = line[:-1] if line.endswith(':') else line
    chars = [c for c in sorted(set(body)) if c in g.SPECIALS and c not in '-']
    d = core.mkscratch('c07syn')

    def rejected(text):
        with open(os.path.join(d, 'Makefile'), 'w') as f:
            f.write('all:\n\t@true\n' + text + ':\n')
        rc, o = core.run(['make', '--no-print-directory', '-n'], cwd=d, env=core.base_env(),
                         timeout=60)
        return rc != 0

    def without(text, c):
        return text.replace('\\' + c, 'x').replace('$$', 'x').replace(c, 'x') if c == '$' \
            else text.replace('\\' + c, 'x').replace(c, 'x')
    try:
        if not rejected(body):
            return line, ''.join(chars)
        cur = body
        keep = []
        for c in chars:
            t = without(cur, c)
            if rejected(t):
                cur = t         # still rejected without c: c does not matter
            else:
                keep.append(c)
        return line, ''.join(keep)
    finally:
        core.rmtree(d)


class Stop(Exception):
    pass


class StepFailed(Exception):
    pass


def run_history(case, st, hist, res, count=True, keep_going=False):
    backend, compiler = case['backend'], case['compiler']
    lang = st['lang']
    root = core.mkscratch('c07')
    src, bld = os.path.join(root, 'src'), os.path.join(root, 'bld')
    log = os.path.join(root, 'log')
    env = core.base_env(toolchain_env(compiler, log))
    extra = ['-j%d' % case['jobs']] if case.get('jobs', 1) > 1 else []
    products = {}
    done = []           # ops applied so far (for the truncated replay case)
    ctx = {'state': st}
    prev = {}

    def ev(name, n=1):
        if count:
            res.ev(name, n)

    def fail(step, kind, what, edited, **kw):
        names = [edited] if edited and g.name_chars(edited) else \
            [g.hdr_path(ctx['state'], h) for h in sorted(ctx['state']['headers'], key=int)
             if g.name_chars(g.hdr_path(ctx['state'], h))]
        chars = ''.join(sorted(set(''.join(g.name_chars(n) for n in names))))
        if 'output' in kw:      # scratch paths vary from run to run
            kw['raw_output'] = kw['output']
            kw['output'] = kw['output'].replace(root, '<scratch>')
        wit = dict(kw, backend=backend, compiler=compiler, lang=lang, incmode=st['incmode'],
                   step=step, kind=kind, what=what, edited=edited or '',
                   name_chars=chars, special_names=names,
                   __case__=dict(case, history=list(done)))
        what2 = what + ('/' + kw['reason'] if kw.get('reason') else '')
        kc = KIND_CLASS.get(kind, kind)
        trig = 'chars:' + show(chars)
        if kind == 'unbreak_tu':
            trig = 'after-a-build-that-failed'
        # names that end up in object paths (for predicates on the witness)
        cs = ctx['state']
        wit['object_path_names'] = ' | '.join(
            [g.exe_name(cs), g.lib_name(cs)] +
            [t['file'] for t in cs['tus'].values() if g.name_chars(t['file'])])
        m = re.search(r"No rule to make target '([^\n]*?)', needed by '([^\n]*?)'",
                      kw.get('raw_output') or '')
        if m and kind == 'initial':
            # a SOURCE (or an object) the generated Makefile itself cannot name: nothing to do
            # with headers or depfiles
            rel = m.group(1).replace(os.path.join(root, 'src') + '/', '')
            wit['no_rule_for'] = rel
            # make prints the name as it looked it up: a backslash that is still there was
            # written by bfg9000 and not taken off by make
            kept = ''.join(sorted(set(re.findall(r'\\(.)', rel, re.S))))
            trig = 'unbuildable-path:' + show(kept or g.name_chars(rel))
            wit['no_probe'] = True
        elif kw.get('reason') == 'linker-cannot-find-object' and kind == 'initial':
            trig = 'object-path:' + show(g.name_chars(wit['object_path_names'].replace(' | ', '')))
            wit['no_probe'] = True
        tus = [t for t in (kw.get('missing') or kw.get('wrong_tus') or []) if t != 'pch']
        objs = sorted(os.path.relpath(p_, bld) for p_, (k_, t_) in products.items()
                      if k_ == 'object' and t_ in tus)
        ochars = ''.join(sorted(set(''.join(g.name_chars(o) for o in objs))))
        if ochars and what in ('not-recompiled', 'stale-output') and \
           not g.name_chars(edited or ''):
            # plainly named header, but the objects concerned have special characters in
            # their own path (source name, source directory, target name)
            trig = 'object-path:' + show(ochars)
            wit['object_paths'] = objs
            wit['no_probe'] = True
        if wit.pop('pch_related', False):
            # only the edge object -> precompiled header carries this change
            kc, trig = 'change-behind-pch', 'pch:' + ctx['state']['pch']['form']
            wit['pch_form'] = ctx['state']['pch']['form']
            wit['no_probe'] = True
        if kw.get('reason') == 'makefile-syntax' and step > 0:
            # the build file no longer parses: whatever was edited, every later build fails
            sc = syntax_culprit(bld, kw.get('raw_output'), root)
            if sc:
                kc = 'any-rebuild'
                wit['offending_line'], wit['offending_chars'] = sc
        wit.pop('raw_output', None)
        res.violate((backend, kc, what2, trig), wit)
        if (KEEP_GOING or keep_going) and step > 0:
            raise StepFailed()
        raise Stop()

    def write(rel, content):
        proj.write_tree(src, {rel: content.replace(g.SRC_MARK, src)})

    def do_build(targets=()):
        proj.clear_log(log)
        rc, out = proj.build(bld, backend, list(targets), env=env,
                             extra=extra if not targets else [])
        return rc, out, proj.read_log(log)

    def run_prog(cur):
        exe = os.path.join(bld, g.exe_name(st))
        if not os.path.isfile(exe):
            return None, 'no executable ' + exe
        rc, out = core.run([exe], cwd=bld, env=env, timeout=60)
        return rc, out

    def stale_archive_members(cur):
        """Members of the static libraries built here that are not objects of a current
        translation unit (ar t vs. the objects the compile records produced)."""
        current = {os.path.basename(p) for p, (k, t) in products.items()
                   if k == 'object' and t in cur['tus']}
        stale = []
        for p, (k, t) in products.items():
            if k == 'archive' and os.path.isfile(p):
                rc, out = core.run(['ar', 't', p], cwd=bld, env=env, timeout=60)
                if rc == 0:
                    stale.extend(m for m in out.split() if m not in current)
        return stale

    def check_output(step, kind, cur, edited, via_pch=()):
        rc, out = run_prog(cur)
        exp = g.expected_lines(cur)
        ev('obligations:output-lines', len(exp))
        if rc != 0 or out.splitlines() != exp:
            got = out.splitlines() if rc is not None else []
            wrong = sorted(set(exp) - set(got))
            wrong_tus = [l.split('=')[0][1:] for l in wrong]
            stale = stale_archive_members(cur)
            if stale and all(cur['tus'].get(t, {}).get('lib') for t in wrong_tus):
                # not the dependency tracking: the archive still holds the object of a
                # source file that was renamed/removed, and the linker picks it
                renamed = any(o['op'] == 'rename_source' and o['t'] in wrong_tus for o in done)
                res.violate(('any-backend', 'static-library', 'stale-output/archive-keeps-old-member',
                             'source-renamed' if renamed else 'source-removed'),
                            dict(backend=backend, compiler=compiler, lang=lang, step=step,
                                 kind=kind, what='stale-output', stale_members=stale,
                                 wrong_lines=wrong[:10], expected=exp, got=got[:40],
                                 edited=edited or '', special_names=[], no_probe=True,
                                 __case__=dict(case, history=list(done))))
                if (KEEP_GOING or keep_going) and step > 0:
                    raise StepFailed()
                raise Stop()
            fail(step, kind, 'stale-output', edited, program_rc=rc, expected=exp, got=got[:40],
                 wrong_lines=wrong[:10], wrong_tus=wrong_tus,
                 pch_related=bool(wrong_tus) and set(wrong_tus) <= set(via_pch))

    try:
        files = g.render(st)
        for rel, content in files.items():
            if content is None:
                os.makedirs(os.path.join(src, rel), exist_ok=True)
            else:
                write(rel, content)
        rc, out = proj.configure(src, bld, backend, env=env)
        if rc != 0:
            fail(0, 'configure', 'configure-failed', '', output=out[-1500:])
        proj.settle()
        # ---- initial build
        rc, out, recs = do_build()
        ob = observe(recs, src, st)
        products.update(ob.products)
        ev('compile-invocations', len(ob.compiled))
        ev('link-invocations', ob.links + ob.archives)
        if rc != 0:
            fail(0, 'initial', 'build-failed', '', reason=fail_reason(out),
                 output=out[-1500:])
        missing = sorted((set(st['tus']) | ({'pch'} if st.get('pch') else set()))
                         - set(ob.compiled))
        if missing:
            fail(0, 'initial', 'not-compiled', '', missing=missing)
        check_output(0, 'initial', st, '')
        ev('builds:initial')
        cur = st
        rendered = files
        for idx, op in enumerate(hist, 1):
            kind = op['op']
            done.append(op)
            nxt, info = g.apply(cur, op)
            ctx['state'] = nxt
            new_render = g.render(nxt)
            fops, written = g.file_ops(rendered, new_render, info['renames'])
            edited = info['edited']
            if kind in ('add_source', 'rename_source', 'del_source', 'mod_source'):
                edited_for_class = ''
            else:
                edited_for_class = edited
            if kind in ('add_header', 'rename_header'):
                edited_for_class = g.hdr_path(nxt, op['h']) if not g.name_chars(edited or '') \
                    else edited
            # ---- apply to the tree
            proj.settle()
            for o in fops:
                if o[0] == 'rename':
                    os.makedirs(os.path.dirname(os.path.join(src, o[2])), exist_ok=True)
                    os.rename(os.path.join(src, o[1]), os.path.join(src, o[2]))
                elif o[0] == 'write':
                    write(o[1], o[2])
                else:
                    os.remove(os.path.join(src, o[1]))
            for o in fops:
                if o[0] == 'write':
                    proj.bump(os.path.join(src, o[1]), bld, src)
            must = g.must_recompile(nxt, written)
            # TUs (and the PCH itself) that this edit reaches only through the precompiled header
            via_pch = {t for t in must if t == 'pch' or
                       not (set(written) & set(g.own_closure_files(nxt, t)))}
            inner_edit = kind == 'mod_header' and op['h'] in g.only_through_pch(cur)
            stale_dep_gone = kind in ('del_header', 'rename_header', 'move_header')
            try:
                if kind == 'break_header' and not [m for m in must if m != 'pch']:
                    # (no translation unit reaches this header: nothing has to fail)
                    rc, out, recs = do_build()
                    cur, rendered = nxt, new_render
                    continue
                if kind in ('break_tu', 'break_header'):
                    # this build has to fail (the TU / the header does not compile); nothing
                    # else is asked
                    rc, out, recs = do_build()
                    ev('builds:expected-to-fail')
                    if kind == 'break_header':
                        ev('builds:expected-to-fail:header')
                    if rc == 0:
                        fail(idx, kind, 'broken-source-built', '', output=out[-800:])
                    cur, rendered = nxt, new_render
                    continue
                if kind == 'clean':
                    rc, out, recs = do_build(['clean'])
                    if rc != 0:
                        fail(idx, kind, 'clean-failed', '', output=out[-1200:])
                    left = sorted(p for p in products if os.path.lexists(p))
                    ev('obligations:clean-products', len(products))
                    if left:
                        kinds_left = sorted({products[p][0] for p in left})
                        fail(idx, kind, 'clean-left-' + '+'.join(kinds_left), '',
                             left=[os.path.relpath(p, bld) for p in left][:10])
                    must = sorted(nxt['tus'], key=int) + (['pch'] if nxt.get('pch') else [])
                    products.clear()
                rc, out, recs = do_build()
                ob = observe(recs, src, nxt)
                # products of translation units that no longer exist are not tracked
                if kind in ('rename_source', 'del_source'):
                    for p in [p for p, (k, t) in products.items() if t == op['t']]:
                        del products[p]
                products.update(ob.products)
                ev('compile-invocations', len(ob.compiled))
                ev('link-invocations', ob.links + ob.archives)
                ev('edit:' + kind)
                special_objs = [t for t in must if t != 'pch' and g.name_chars(
                    g.tu_target(nxt, t) + '/' + nxt['tus'][t]['file'])]
                if special_objs and kind not in ('clean', 'noop'):
                    ev('obligations:must-recompile-object-with-special-path', len(special_objs))
                if nxt.get('pch') and kind != 'clean':
                    if via_pch:
                        ev('edit:reaches-objects-through-pch')
                        ev('obligations:pch-users-must-recompile', len(via_pch))
                    if inner_edit:
                        ev('edit:header-only-through-pch')
                    if kind == 'noop' and prev.get('via_pch'):
                        ev('builds:noop-after-pch-edit')
                prev['via_pch'] = bool(via_pch) and kind != 'clean'
                if stale_dep_gone:
                    ev('edit:stale-dep-header-gone')
                    if any((edited or '').count(c) > 1 for c in g.name_chars(edited or '')):
                        ev('edit:header-gone-with-repeated-character')
                    if any(c in g.WS_SPECIALS for c in (edited or '')):
                        ev('edit:header-gone-with-odd-space')
                chars = g.name_chars(edited_for_class or '')
                if chars:
                    ev('names:special-admitted')
                if count:
                    res.key([backend, compiler, lang, st['incmode'], kind, chars,
                             min(len(must), 3), (st.get('pch') or {}).get('form'),
                             bool(via_pch)], kind != 'mod_source')
                    if nxt.get('pch'):
                        res.classes.add('pch:%s/%s/%s' % (nxt['pch']['form'], backend, compiler))
                    res.classes.add('%s/%s/%s' % (backend, compiler, kind))
                    if chars:
                        res.classes.add('chars:' + show(chars))
                if rc != 0 and kind == 'unbreak_tu':
                    # (plainly named header: no probing of names)
                    fail(idx, kind, 'build-failed', '', reason=fail_reason(out),
                         output=out[-1500:], op=op, compiled=ob.compiled, no_probe=True)
                if rc != 0:
                    fail(idx, kind, 'build-failed', edited_for_class, reason=fail_reason(out),
                         output=out[-1500:], op=op, compiled=ob.compiled,
                         # the PCH had to be recompiled for this edit and was not
                         pch_related=kind != 'clean' and 'pch' in must and
                         'pch' not in ob.compiled)
                if kind == 'noop':
                    ev('builds:noop')
                    n = len(ob.compiled) + ob.links + ob.archives + ob.other
                    if n:
                        fail(idx, kind, 'noop-rebuilt', '', compiled=ob.compiled, links=ob.links,
                             archives=ob.archives, other=ob.other)
                else:
                    ev('builds:clean+rebuild' if kind == 'clean' else 'builds:after-edit')
                    ev('obligations:must-recompile', len(must))
                    missing = [t for t in must if t not in ob.compiled]
                    if missing:
                        fail(idx, kind, 'not-recompiled', edited_for_class, missing=missing,
                             must=must, compiled=ob.compiled, op=op,
                             pch_related=kind != 'clean' and set(missing) <= via_pch,
                             missing_files=[nxt['pch']['file'] if t == 'pch' else
                                            nxt['tus'][t]['file'] for t in missing])
                    if kind == 'clean':
                        gone = sorted(p for p, k in products.items()
                                      if k[0] != 'depfile' and not os.path.lexists(p))
                        if gone or not ob.links:
                            fail(idx, kind, 'rebuild-after-clean-incomplete', '',
                                 missing=[os.path.relpath(p, bld) for p in gone], links=ob.links)
                check_output(idx, kind, nxt, edited_for_class,
                             via_pch if kind != 'clean' else ())
            except StepFailed:
                pass
            cur, rendered = nxt, new_render
        if count and res.sample is None:
            res.sample = {'backend': backend, 'compiler': compiler, 'lang': lang,
                          'incmode': st['incmode'], 'incdirs': st['incdirs'],
                          'headers': {h: g.hdr_path(st, h) for h in st['headers']},
                          'tus': {t: v['file'] for t, v in st['tus'].items()},
                          'pch': st.get('pch'),
                          'history': hist, 'final_output': g.expected_lines(cur)}
    except Stop:
        pass
    finally:
        core.rmtree(root)


# --------------------------------------------------------------------------
# naming the mechanism: which character reproduces the failure on its own?

_probe_cache = {}


def probe_case(backend, compiler, lang, name, incdir):
    st = {'lang': lang, 'incmode': 'hdrdir', 'incdirs': [incdir], 'incdirs_plain': ['inc'],
          'headers': {'1': {'name': name, 'plain': 'h1.h', 'dir': 0, 'base': 5, 'inc': []},
                      '2': {'name': 'h2.h', 'plain': 'h2.h', 'dir': 0, 'base': 7,
                            'inc': [['1', 2]]}},
          'tus': {'0': {'file': 'main' + ('.c' if lang == 'c' else '.cpp'), 'base': 1,
                        'inc': [['1', 3]], 'lib': False},
                  '1': {'file': 'tu1' + ('.c' if lang == 'c' else '.cpp'), 'base': 2,
                        'inc': [['2', 4]], 'lib': False}}}
    tail = name.replace('h1', 'k')
    hist = [{'op': 'mod_header', 'h': '1', 'base': 6}, {'op': 'noop'},
            {'op': 'rename_header', 'h': '1', 'name': 'r' + tail, 'plain': 'r1.h'},
            {'op': 'noop'},
            {'op': 'add_header', 'h': '3', 'name': 'a' + tail, 'plain': 'a3.h', 'dir': 0,
             'base': 9, 'inc': [], 'into': ['h', '2'], 'coef': 2},
            {'op': 'del_header', 'h': '1'}, {'op': 'noop'}, {'op': 'clean'}]
    return {'index': -1, 'backend': backend, 'compiler': compiler, 'jobs': 1,
            'state': st, 'history': hist}


def probe(backend, compiler, lang, name, incdir):
    """{mechanism head (kind class, what): witness} that a tiny fixed project with this
    one name shows."""
    key = (backend, compiler, lang, name, incdir)
    if key not in _probe_cache:
        ok, why = calibrate(compiler, lang, backend, incdir, name)
        found = {}
        if ok:
            case = probe_case(backend, compiler, lang, name, incdir)
            st, hist = resolve(case, CaseResult())
            tmp = CaseResult()
            run_history(case, st, hist, tmp, count=False, keep_going=True)
            for m, w in tmp.violations:
                found.setdefault((m[1], m[2]), w)
        _probe_cache[key] = found
    return _probe_cache[key]


def triggers(backend, compiler, lang, names, head):
    """-> [(trigger string, witness of the tiny probe project or None)] for a failure with
    mechanism head (kind class, what): the special characters (of the names involved) that
    reproduce it on their own."""
    if not any(g.name_chars(n) for n in names):
        return [('plain-names', None)]
    plain = probe(backend, compiler, lang, 'h1.h', 'inc')
    if head in plain:
        return [('plain-names', plain[head])]
    culprits = {}
    allchars = set()
    for path in names:
        comps = path.split('/')
        for c in g.name_chars(path):
            allchars.add(c)
            in_dir = c in comps[0]
            in_name = any(c in x for x in comps[1:])
            tries = []
            if in_name:
                tries.append(('char:' + show(c), 'h1%sm.h' % c, 'inc'))
                if any(x.count(c) > 1 for x in comps[1:]):
                    tries.append(('char:' + show(c) + '@repeated', 'h1%s%sm%sk.h' % (c, c, c), 'inc'))
                if any(x.startswith(c) for x in comps[1:]):
                    tries.append(('char:' + show(c) + '@lead', '%sh1.h' % c, 'inc'))
            if in_dir:
                tries.append(('char:' + show(c), 'h1.h', 'i%sd' % c))
            for label, name, incdir in tries:
                if label in culprits:
                    break
                got = probe(backend, compiler, lang, name, incdir)
                if head in got:
                    culprits[label] = got[head]
                    break
    if culprits:
        return sorted(culprits.items())
    return [('combination:' + show(''.join(sorted(allchars))), None)]


def run_case(case):
    res = CaseResult()
    st, hist = resolve(case, res)
    res.evaluations = len(hist) + 1
    run_history(case, st, hist, res)
    fixed = []
    for mech, wit in res.violations:
        c = wit.get('__case__')
        if c is not None:
            c['state'] = st     # the replay case carries the resolved names
        if wit.pop('no_probe', False):
            fixed.append((mech, wit))
            continue
        if 'offending_chars' in wit:
            trigs = [('combination:' + show(wit['offending_chars']), None)]
        else:
            trigs = triggers(case['backend'], case['compiler'], st['lang'],
                             wit['special_names'], (mech[1], mech[2]))
        for t, small in trigs:
            # the tiny probe project that shows the same failure is the better witness
            w = dict(small) if small is not None and case.get('index') != -1 else dict(wit)
            if '__case__' in w:
                w['__case__'] = copy.deepcopy(w['__case__'])
            fixed.append(((mech[0], mech[1], mech[2], t),
                          dict(w, trigger=t, all_triggers=[x for x, _ in trigs])))
    res.violations = fixed
    return res
