"""C15 - install/uninstall place and remove exactly the declared files.

Workload: generated projects (vf/gen/c15gen.py) with executables, shared /
static / versioned libraries, header files, header directories with an include
pattern, man pages (gzip on/off), data files and pkg-config files, random
`directory=` arguments, random --prefix/--exec-prefix/--bindir/... (with
spaces) under a per-case scratch root and DESTDIR values (with spaces) passed
as `make install DESTDIR=...` or at configure time.  Real gcc, make, doppel,
patchelf (the last two through the vwrap-* tracing wrappers).

Oracles (all from the generator's model, never from bfg9000 code):
  * whole-scratch-root snapshot before/after install: new non-directory entries
    == model set at DESTDIR + dir-for-kind + suffix, new directories only as
    ancestors of those, nothing pre-existing modified or removed (bystander
    files are planted in the install directories);
  * source tree and build tree byte-identical before/after install and
    uninstall;
  * installed file contents == their source / build-tree originals (gz: gunzip
    == source), soname/dev links are links resolving to the installed real file;
  * readelf -d of every installed ELF: project NEEDED == model, every RUNPATH
    entry is an installed (DESTDIR-less) directory of a library in its closure
    and every needed library is found through it; no $ORIGIN, no build or
    source path, no DESTDIR;
  * with an empty DESTDIR the installed executables run (build tree moved
    away) and print the modelled value;
  * patchelf trace: only ever applied to installed copies of model ELF files;
    doppel trace: every destination is a model destination;
  * after uninstall (same DESTDIR): no non-directory model entry remains and
    every other non-directory entry, and every pre-existing directory, is
    unchanged.
"""
import gzip
import os
import posixpath
import re

from .. import core, proj
from ..core import CaseResult
from ..gen import c15gen as G

LEVEL = 'exploration'
MODE = 'thread'
RULE = ('seeded random project = 2-5 libraries (shared / static / versioned, in '
        'sub-directories, linking random earlier ones, static ones forwarding shared '
        'ones) + 1-3 executables + 0-2 header directories with include=<glob> + header '
        'files (source and copy_file-built) + man pages (compress True/False/auto, '
        'explicit level) + data files (source and built) + optional pkg_config '
        '(explicit or auto_fill), partitioned into install() calls (some repeated) with '
        'directory=None / string (also un-normalised) / Path(.., InstallRoot.x); x '
        'random --prefix/--exec-prefix/--bindir/--libdir/--includedir/--datadir/'
        '--mandir (spaces, trailing slash, outside the prefix, bindir==libdir) x DESTDIR '
        'rounds (argument form with spaces / trailing slash, configure-time, '
        'overridden to empty, none; some rounds install twice); 15 features are forced '
        'round-robin (two per project), two currently rejected combinations in 1 of 20 '
        'projects each, so every tier covers each for every seed; '
        'distinct = (project, configuration, round); non-trivial = the round uses a '
        'DESTDIR or installs an ELF file with a run-time dependency or a header '
        'directory')
ASSUMPTIONS = [
    'gcc/ld, GNU make, readelf, gzip, the real doppel and patchelf are the trusted base',
    'Linux naming conventions (lib<name>.so[.<version>], lib<name>.a) as used by the '
    "project's own integration tests",
    'placement of the dependencies of an item installed with directory=..., and of '
    'shared dependencies of an explicitly installed static library, is not defined by '
    'docs/tests and is not generated; for a library installed explicitly with '
    'directory= that is also a dependency of a plainly installed binary only the '
    'explicit location is required and a second copy at the default location is '
    'tolerated',
    'a configure-time rejection of a generated project counts as a violation: every '
    'generated build.bfg only combines documented calls without declaring one file '
    'for two locations itself',
    'file modes are not asserted',
    'DESTDIR is absolute; environment-form DESTDIR (ignored by design) is not used; '
    'Make and (every third project in quick, all in thorough) the Ninja back end through the '
    'reference Ninja evaluator (configure-time DESTDIR only: Ninja has no command-line variables)',
]


def floors(tier):
    # (quick, thorough): roughly 40 % of what the unchanged tree gives on the
    # weakest of seeds 0-3; the forced feature cycle makes them seed-independent
    f = {
        'prebuilt:needed-checked': (12, 60),
        'prebuilt:installed-program-ran': (4, 15),
        'install:run': (24, 250),
        'install:run:ninja': (4, 100),
        'install:rerun-over-existing': (2, 25),
        'install:entry-placed': (150, 2500),
        'install:bystander-intact': (100, 1800),
        'tree:src-unchanged': (40, 500),
        'tree:bld-unchanged': (40, 500),
        'content:equal': (70, 1300),
        'link:resolves': (12, 300),
        'elf:inspected': (50, 800),
        'elf:runpath-entry-ok': (30, 600),
        'elf:needed-resolved': (40, 800),
        'exe:ran': (10, 150),
        'trace:patchelf': (25, 600),
        'trace:doppel': (120, 2500),
        'uninstall:run': (24, 250),
        'uninstall:entry-gone': (150, 2500),
        'kind:hdrdir-member': (12, 400),
        'kind:man': (8, 200),
        'kind:pc': (3, 80),
        'kind:data': (5, 150),
        'kind:built-header': (2, 60),
        'kind:built-data': (2, 40),
        'kind:soname-link': (8, 200),
        'kind:dev-link': (2, 80),
        'kind:static': (3, 70),
        'origin:runtime-dep': (15, 400),
        'origin:static-dep': (1, 10),
        'destdir:with-space': (5, 80),
        'destdir:configure-time': (1, 20),
        'destdir:empty': (8, 90),
        'dirs:with-space': (4, 80),
        'distinct_nontrivial': (20, 200),
    }
    return {k: v[0 if tier == 'quick' else 1] for k, v in f.items()}


# --------------------------------------------------------------------------
# generation

DESTDIRS = ['@R@/dest', '@R@/dest dir', '@R@/d e s t/stage 2', '@R@/dest dir/',
            '@R@/stage-1.0']


def _abs_conflicts(entries, cfg):
    dirs = G.resolve_dirs(cfg)
    seen = {}
    for e in entries:
        p = posixpath.normpath(posixpath.join(dirs[e['root']], e['rel']))
        if p in seen:
            return True
        seen[p] = e
    paths = sorted(seen)
    for a in paths:      # a file may not be an ancestor of another
        for b in paths:
            if b.startswith(a + '/'):
                return True
    return False


def cases(tier, seed):
    yield from prebuilt_cases(tier)
    n = 20 if tier == 'quick' else 240
    nf = len(G.FEATURES)
    import shutil
    # compress='auto' gzips exactly when gzip exists (doc: man_page)
    have_gzip = shutil.which('gzip', path=core.base_env()['PATH']) is not None
    for i in range(n):
        force = [G.FEATURES[i % nf], G.FEATURES[(i + 4) % nf]]
        if i % 20 == 9:
            force.append('pc-auto-dir')
        elif i % 20 == 19:
            force = [f for f in force if f != 'pc-auto'] + ['dep-explicit-dir']
        for attempt in range(50):
            rng = core.rng_for(seed, 'c15', tier, i, attempt)
            P = G.gen_project(rng, force)
            cfg = G.gen_config(rng, space=(i % 2 == 0))
            try:
                entries = G.model(P, gzip=have_gzip)
            except ValueError:
                continue
            if _abs_conflicts(entries, cfg):
                continue
            break
        else:
            raise RuntimeError('generator cannot produce a collision-free project')
        files = G.render(P)
        traits = {
            'pc_auto_fill': bool(P.pc and P.pc['auto']),
            'header_or_library_installed_with_directory': any(
                g['dir'] is not None and
                any(it in P.libs or it.startswith('h') for it in g['items'])
                for g in P.groups),
            'dependency_installed_with_directory': bool(P.disputed),
        }
        conf_destdir = None
        r = rng.random()
        if i % 6 == 4 or r < 0.1:
            conf_destdir = rng.choice(DESTDIRS)
            rounds = [{'arg': None}, {'arg': ''}]
        else:
            rounds = [{'arg': rng.choice(DESTDIRS[1:4] if i % 2 else DESTDIRS)},
                      {'arg': None}]
        if tier == 'thorough' and rng.random() < 0.3:
            rounds.append({'arg': rng.choice(DESTDIRS)})
        # installing over an existing installation gives the same result
        k = rng.randrange(len(rounds))
        if i % 4 == 1 or rng.random() < 0.15:
            rounds[k]['reinstall'] = True
        yield {'id': i, 'features': force, 'traits': traits, 'files': files,
               'config': cfg,
               'configure_destdir': conf_destdir, 'rounds': rounds,
               'entries': entries}
        # the Ninja back end writes its own install/uninstall rules: every third project
        # (every project in thorough) is also installed through the reference Ninja evaluator.
        # Ninja has no command-line variables, so DESTDIR only exists in its configure-time form
        if tier == 'thorough' or i % 3 == 0:
            nrounds = [{'arg': None}]
            if i % 2:
                nrounds[0]['reinstall'] = True
            yield {'id': i, 'backend': 'ninja', 'features': force, 'traits': traits,
                   'files': files, 'config': cfg,
                   'configure_destdir': (conf_destdir or
                                         (DESTDIRS[1 + i % 3] if i % 4 != 3 else None)),
                   'rounds': nrounds, 'entries': entries}


# --------------------------------------------------------------------------
# helpers

def _sub(s, R):
    return s.replace('@R@', R)


def readelf_dyn(path, env):
    rc, out = core.run(['readelf', '-d', path], env=env, timeout=60)
    if rc != 0:
        return None
    d = {'needed': [], 'soname': None, 'runpath': None, 'rpath': None}
    for line in out.splitlines():
        m = re.search(r'\((NEEDED|SONAME|RUNPATH|RPATH)\)\s+.*?\[(.*)\]\s*$', line)
        if not m:
            continue
        tag, val = m.group(1), m.group(2)
        if tag == 'NEEDED':
            d['needed'].append(val)
        else:
            d[tag.lower()] = val
    return d


def snap(R):
    s = proj.snapshot(R)
    # the recorder's log and the (reference) Ninja tool's own state files are not bfg9000's doing
    for k in [k for k in s if k == 'log' or k.startswith('log.') or
              os.path.basename(k) in ('.refninja_log.json', '.refninja_deps.json',
                                      '.ninja_log', '.ninja_deps')]:
        del s[k]
    return s


def under(path, root):
    return path == root or path.startswith(root.rstrip('/') + '/')


SYSTEM_LIBS = re.compile(r'^(libc|libm|libgcc_s|libstdc\+\+|ld-linux[-\w]*|libdl|'
                         r'libpthread)\.so')


def tool_of_failure(out):
    """Which recipe line failed (for the mechanism tuple)."""
    last = None
    for line in out.splitlines():
        if re.match(r'^(vwrap-doppel|doppel)\b', line):
            last = 'doppel'
        elif re.match(r'^(vwrap-patchelf|patchelf)\b', line):
            last = 'patchelf'
        elif re.match(r'^rm\b', line):
            last = 'rm'
        elif re.match(r'^(cc|gcc|ar|ln|gzip)\b', line):
            last = 'build-step'
    return last or 'make'


# --------------------------------------------------------------------------

def run_case(case):
    res = CaseResult()
    R = core.mkscratch('c15')
    try:
        if case.get('kind') == 'prebuilt':
            _run_prebuilt(case, res, R)
        else:
            _run(case, res, R)
    finally:
        core.rmtree(R)
    return res


# --------------------------------------------------------------------------
# a shared library that is NOT built by the project: it lies, ready-made, in the source tree
# (vendored), is linked by what the project builds, and is installed as a run-time dependency

PREBUILT_SHAPES = {
    'exe-uses-prebuilt': "pre = shared_library(%(pre)r)\n"
                         "prog = executable('prog', files=['main.c'], libs=[pre])\n"
                         "install(prog%(dir)s)\n",
    'exe-uses-built-lib-uses-prebuilt':
        "pre = shared_library(%(pre)r)\n"
        "mid = shared_library('mid', files=['mid.c'], libs=[pre])\n"
        "prog = executable('prog', files=['main2.c'], libs=[mid])\n"
        "install(prog%(dir)s)\n",
    'exe-uses-prebuilt-and-built': "pre = shared_library(%(pre)r)\n"
                                   "own = shared_library('sub/own', files=['own.c'])\n"
                                   "prog = executable('bin/prog', files=['main3.c'], "
                                   "libs=[own, pre])\n"
                                   "install(prog%(dir)s)\n",
}


def prebuilt_cases(tier):
    i = 0
    for shape in sorted(PREBUILT_SHAPES):
        for pre in ('vendor/libpre.so', 'libpre.so', 'third party/x/libpre.so'):
            for destdir in (None, '@R@/stage dir'):
                for d in ('', ", directory='tools'"):
                    i += 1
                    if tier == 'quick' and i % 3 != 1:
                        continue
                    yield {'kind': 'prebuilt', 'id': 'prebuilt-%d' % i, 'shape': shape,
                           'pre': pre, 'destdir': destdir, 'dir': d,
                           'config': {}, 'configure_destdir': None, 'files': {'build.bfg': ''}}


def _run_prebuilt(case, res, R):
    src, bld = os.path.join(R, 'src'), os.path.join(R, 'bld')
    prefix = os.path.join(R, 'root', 'pre fix')
    pre = case['pre']
    script = PREBUILT_SHAPES[case['shape']] % {'pre': pre, 'dir': case['dir']}
    proj.write_tree(src, {
        'build.bfg': "project('pb', version='1.0')\n" + script,
        'pre.c': 'int f_pre(void) { return 5; }\n',
        'mid.c': 'int f_pre(void);\nint f_mid(void) { return f_pre() + 20; }\n',
        'own.c': 'int f_own(void) { return 300; }\n',
        'main.c': 'int f_pre(void);\nint main(void) { return f_pre() == 5 ? 0 : 9; }\n',
        'main2.c': 'int f_mid(void);\nint main(void) { return f_mid() == 25 ? 0 : 9; }\n',
        'main3.c': 'int f_pre(void);\nint f_own(void);\n'
                   'int main(void) { return f_pre() + f_own() == 305 ? 0 : 9; }\n',
    })
    env = core.base_env({'CC': 'gcc'})
    os.makedirs(os.path.dirname(os.path.join(src, pre)), exist_ok=True)
    rc, out = core.run(['gcc', '-shared', '-fPIC', '-Wl,-soname,libpre.so', 'pre.c', '-o', pre],
                       cwd=src, env=env, timeout=120)
    if rc != 0:
        raise core.HarnessError('cannot build the vendored library: ' + out[-300:])
    res.evaluations = 1
    res.key(['prebuilt', case['shape'], pre, bool(case['destdir']), case['dir']], True)
    w = {'shape': case['shape'], 'prebuilt_library': pre, 'build_bfg': script,
         'destdir': case['destdir'], '__case__': case}
    rc, out = proj.configure(src, bld, 'make', ['--prefix', prefix], env=env)
    if rc != 0:
        res.violate(('prebuilt', 'configure-failed'), dict(w, output=out[-800:]))
        return
    rc, out = proj.build(bld, 'make', ['all'], env=env)
    if rc != 0:
        res.violate(('prebuilt', 'build-failed'), dict(w, output=out[-800:]))
        return
    destdir = _sub(case['destdir'], R) if case['destdir'] else ''
    rc, out = proj.build(bld, 'make', ['install'] + (['DESTDIR=' + destdir] if destdir else []),
                         env=env)
    if rc != 0:
        res.violate(('prebuilt', 'install-failed'), dict(w, output=out[-800:]))
        return
    res.ev('prebuilt:installed')

    def ondisk(p):
        return os.path.normpath(destdir + p) if destdir else p
    # (a file keeps its build-directory-relative name below the directory of its kind;
    # directory= is appended to that directory, for the run-time dependencies as well)
    libdir = prefix + '/lib' + ('/tools' if case['dir'] else '')
    bindir = prefix + '/bin' + ('/tools' if case['dir'] else '')
    exe = ondisk(bindir + ('/bin/prog' if "'bin/prog'" in script else '/prog'))
    elfs = [exe, ondisk(libdir + '/libpre.so')]
    if 'mid' in script:
        elfs.append(ondisk(libdir + '/libmid.so'))
    if 'own' in script:
        elfs.append(ondisk(libdir + '/sub/libown.so'))
    missing = [os.path.relpath(p, R) for p in elfs if not os.path.isfile(p)]
    if missing:
        res.violate(('prebuilt', 'not-installed', 'run-time-dependency'
                     if any('lib' in os.path.basename(m) for m in missing) else 'program'),
                    dict(w, missing=missing, install_output=out[-600:]))
        return
    # every project library an installed file needs is found through its run-time search
    # path, at the place it was installed to - and nowhere in the source or build tree
    for p in elfs:
        dyn = readelf_dyn(p, env)
        if dyn is None:
            res.violate(('prebuilt', 'not-elf'), dict(w, path=os.path.relpath(p, R)))
            continue
        rp = dyn['runpath'] if dyn['runpath'] is not None else dyn['rpath']
        rps = [posixpath.normpath(x) for x in (rp.split(':') if rp else []) if x]
        for x in rps:
            for name, f in (('srcdir', src), ('builddir', bld)) + \
                    ((('destdir', destdir),) if destdir else ()):
                if under(x, f):
                    res.violate(('rpath', name, 'prebuilt'),
                                dict(w, path=os.path.relpath(p, R), runpath=rp))
        for n in dyn['needed']:
            if SYSTEM_LIBS.match(n):
                continue
            res.ev('prebuilt:needed-checked')
            if not any(os.path.exists(ondisk(x + '/' + n)) for x in rps if x.startswith('/')):
                res.violate(('rpath', 'needed-not-found', 'prebuilt'),
                            dict(w, path=os.path.relpath(p, R), needed=n, runpath=rp))
    # ... and the installed program runs once the trees it was built from are gone
    if not destdir:
        os.rename(src, src + '.gone')
        os.rename(bld, bld + '.gone')
        try:
            rc, out = core.run([exe], cwd=R, env=core.base_env(), timeout=60)
        finally:
            os.rename(src + '.gone', src)
            os.rename(bld + '.gone', bld)
        res.ev('prebuilt:installed-program-ran')
        if rc != 0:
            res.violate(('prebuilt', 'installed-program-does-not-run'),
                        dict(w, rc=rc, output=out[-400:]))
    # uninstall removes what install created (the vendored library's copy too)
    rc, out = proj.build(bld, 'make', ['uninstall'] + (['DESTDIR=' + destdir] if destdir else []),
                         env=env)
    left = [os.path.relpath(p, R) for p in elfs if os.path.lexists(p)]
    if rc != 0 or left:
        res.violate(('prebuilt', 'uninstall-left-files' if rc == 0 else 'uninstall-failed'),
                    dict(w, left=left, output=out[-400:]))
    else:
        res.ev('prebuilt:uninstalled')
    if not os.path.isfile(os.path.join(src, pre)):
        res.violate(('prebuilt', 'source-library-removed'), dict(w))


def _wit(case, **kw):
    w = {'features': case.get('features'), 'traits': case.get('traits'),
         'backend': case.get('backend', 'make'),
         'config': case['config'],
         'configure_destdir': case['configure_destdir'],
         'build_bfg': case['files']['build.bfg']}
    w.update(kw)
    return w


def _run(case, res, R):
    src = os.path.join(R, 'src')
    bld = os.path.join(R, 'bld')
    log = os.path.join(R, 'log')
    proj.write_tree(src, case['files'])
    cfg = {k: _sub(v, R) for k, v in case['config'].items()}
    dirs = G.resolve_dirs(cfg)
    entries = case['entries']
    res.evaluations = 0

    extra = {'PATCHELF': 'vwrap-patchelf', 'DOPPEL': 'vwrap-doppel',
             'VSTUB_LOG': log, 'VSTUB_ENVKEYS': 'DESTDIR', 'CC': 'gcc'}
    cenv = core.base_env(extra)
    conf_destdir = case['configure_destdir']
    if conf_destdir is not None:
        conf_destdir = _sub(conf_destdir, R)
        cenv['DESTDIR'] = conf_destdir
    cenv['VF_ABSROOT'] = dirs['absroot']
    env = core.base_env(extra)      # make never sees DESTDIR in the environment
    args = []
    for k, v in cfg.items():
        args += ['--' + k.replace('_', '-'), v]
    backend = case.get('backend', 'make')
    res.classes.add('backend:' + backend)
    rc, out = proj.configure(src, bld, backend, args, env=cenv)
    if rc != 0:
        sig = 'error'
        m = re.search(r'^(\w*Error|error):? *(.*)$', out, re.M)
        if m:
            sig = re.sub(r"[`'\"].*?[`'\"]", 'X', m.group(2))[:60]
        t = case.get('traits') or {}
        if 'already installed to a different location' in sig and \
           t.get('pc_auto_fill') and \
           t.get('header_or_library_installed_with_directory'):
            sig = 'auto_fill-after-install-with-directory'
        elif 'already installed to a different location' in sig and \
                t.get('dependency_installed_with_directory'):
            sig = 'dependency-already-installed-with-directory'
        res.violate(('configure', 'rejected', sig),
                    _wit(case, output=out[-1500:]))
        return
    rc, out = proj.build(bld, backend, ['all'], env=env)
    if rc != 0:
        res.violate(('build', 'failed', tool_of_failure(out)),
                    _wit(case, output=out[-1500:]))
        return
    proj.clear_log(log)

    if any(' ' in v for v in cfg.values()):
        res.ev('dirs:with-space')

    for ri, rnd in enumerate(case['rounds']):
        res.evaluations += 1
        _round(case, res, R, src, bld, log, env, dirs, entries, conf_destdir,
               ri, rnd)
        # fresh install area for the next round
        for n in os.listdir(R):
            if n not in ('src', 'bld'):
                p = os.path.join(R, n)
                if os.path.isdir(p) and not os.path.islink(p):
                    core.rmtree(p)
                else:
                    os.remove(p)
        if res.violations:
            break


def _round(case, res, R, src, bld, log, env, dirs, entries, conf_destdir, ri, rnd):
    arg = rnd['arg']
    backend = case.get('backend', 'make')
    if arg is not None:
        arg = _sub(arg, R)
    destdir = arg if arg is not None else (conf_destdir or '')
    mkargs = [] if arg is None else ['DESTDIR=' + arg]

    def ondisk(abs_path):
        return os.path.normpath(destdir + abs_path) if destdir else \
            os.path.normpath(abs_path)

    def wit(**kw):
        c = dict(case, rounds=[rnd])
        return _wit(case, destdir=destdir,
                    destdir_form=('argument' if arg is not None else
                                  'configure-time' if conf_destdir else 'none'),
                    __case__=c, **kw)

    if ' ' in destdir:
        res.ev('destdir:with-space')
    if arg is None and conf_destdir:
        res.ev('destdir:configure-time')
    if not destdir:
        res.ev('destdir:empty')

    model = {}      # relpath (to R) -> entry
    for e in entries:
        p = ondisk(posixpath.join(dirs[e['root']], e['rel']))
        model[os.path.relpath(p, R)] = e
    model_dirs = set()
    for rel in model:
        d = os.path.dirname(rel)
        while d:
            model_dirs.add(d)
            d = os.path.dirname(d)

    # ---- bystanders: pre-existing files in the install directories
    by = {}
    for root in ('bindir', 'libdir', 'includedir', 'datadir', 'mandir'):
        b = os.path.relpath(ondisk(dirs[root] + '/bystander-%s.keep' % root), R)
        if b not in model:
            by[b] = 'keep %s\n' % root
    for rel, e in list(model.items()):
        if e['kind'] in ('hdrdir-member', 'shared', 'man'):
            b = os.path.join(os.path.dirname(rel), 'bystander.h')
            if b not in model:
                by[b] = 'keep\n'
    if not any(under(os.path.join(R, b), src) or under(os.path.join(R, b), bld)
               for b in by):
        proj.write_tree(R, by)
        os.makedirs(os.path.join(R, os.path.dirname(sorted(by)[0]), 'empty.dir'),
                    exist_ok=True)
    else:
        by = {}

    nontrivial = bool(destdir) or any(
        (e.get('elf') and e['elf']['needed']) or e['kind'] == 'hdrdir-member'
        for e in entries)
    res.key([core.digest([case['files'], case['config'], case['configure_destdir']]),
             rnd, backend], nontrivial)

    s0 = snap(R)
    proj.clear_log(log)
    rc, out = proj.build(bld, backend, ['install'] + mkargs, env=env)
    res.ev('install:run')
    res.ev('install:run:' + backend)
    if rc != 0:
        res.violate(('install', 'command-failed', tool_of_failure(out)),
                    wit(output=out[-2000:]))
        return
    if rnd.get('reinstall'):
        rc, out = proj.build(bld, backend, ['install'] + mkargs, env=env)
        res.ev('install:rerun-over-existing')
        if rc != 0:
            res.violate(('reinstall', 'command-failed', tool_of_failure(out)),
                        wit(output=out[-2000:]))
            return
    s1 = snap(R)

    # ---- 1. the diff of the whole scratch root
    bad = False
    unexpected = set()
    for rel in sorted(set(s0) | set(s1)):
        a, b = s0.get(rel), s1.get(rel)
        if a == b:
            continue
        ap = os.path.join(R, rel)
        where = ('build-tree' if under(ap, bld) else
                 'source-tree' if under(ap, src) else 'install-area')
        if a is not None and b is None:
            res.violate(('install', 'removed-existing', where), wit(path=rel))
            bad = True
        elif a is not None:
            res.violate(('install', 'modified-existing', where),
                        wit(path=rel, before=a, after=b))
            bad = True
        elif b[0] == 'd':
            if rel not in model_dirs:
                res.violate(('install', 'unexpected-directory', where),
                            wit(path=rel))
                bad = True
        elif rel not in model:
            # classify: is it a model file at the wrong root?
            cls = where
            if where == 'install-area' and destdir:
                for mrel, e in model.items():
                    nod = os.path.relpath(os.path.normpath(
                        posixpath.join(dirs[e['root']], e['rel'])), R)
                    if rel == nod:
                        cls = 'destdir-ignored:' + e['kind']
                        break
            res.violate(('install', 'unexpected-file', cls), wit(path=rel))
            unexpected.add(rel)
            bad = True
    for rel, e in sorted(model.items()):
        got = s1.get(rel)
        if got is None and e.get('optional'):
            continue
        if got is None or rel in s0:
            res.violate(('install', 'missing', e['kind'], e['origin']),
                        wit(path=rel, entry=_slim(e)))
            bad = True
            continue
        want_t = 'l' if e['type'] == 'link' else 'f'
        if got[0] != want_t:
            res.violate(('install', 'wrong-type', e['kind']),
                        wit(path=rel, got=got[0], entry=_slim(e)))
            bad = True
            continue
        res.ev('install:entry-placed')
        res.ev('kind:' + e['kind'])
        res.ev('origin:' + e['origin'])
        res.classes.add('kind:' + e['kind'])
    for b in by:
        if s1.get(b) == s0.get(b) and b in s1:
            res.ev('install:bystander-intact')
    if not any(under(os.path.join(R, r), src) and s0.get(r) != s1.get(r)
               for r in set(s0) | set(s1)):
        res.ev('tree:src-unchanged')
    if not any(under(os.path.join(R, r), bld) and s0.get(r) != s1.get(r)
               for r in set(s0) | set(s1)):
        res.ev('tree:bld-unchanged')

    # ---- 2. contents, links
    for rel, e in sorted(model.items()):
        if rel not in s1:
            continue
        p = os.path.join(R, rel)
        if e['type'] == 'link':
            if not os.path.islink(p):
                continue
            target = os.path.realpath(p)
            want = os.path.realpath(os.path.join(
                os.path.dirname(p), posixpath.basename(e['link_to'])))
            wrel = os.path.relpath(want, R)
            if target != want or wrel not in model or not os.path.isfile(target):
                res.violate(('install', 'link-target', e['kind']),
                            wit(path=rel, readlink=os.readlink(p),
                                expected=wrel))
            else:
                res.ev('link:resolves')
            continue
        if e.get('gz_of'):
            try:
                with gzip.open(p, 'rb') as f:
                    data = f.read()
            except OSError:
                data = None
            with open(os.path.join(src, e['gz_of']), 'rb') as f:
                ref = f.read()
            if data != ref:
                res.violate(('install', 'content', 'man-gz'), wit(path=rel))
            else:
                res.ev('content:equal')
        elif e.get('src') and not e.get('elf'):
            base = src if e['src'][0] == 'src' else bld
            with open(os.path.join(base, e['src'][1]), 'rb') as f:
                ref = f.read()
            with open(p, 'rb') as f:
                data = f.read()
            if data != ref:
                res.violate(('install', 'content', e['kind']), wit(path=rel))
            else:
                res.ev('content:equal')

    # ---- 3. ELF inspection
    forbidden = [('builddir', bld), ('srcdir', src)]
    if destdir:
        forbidden.append(('destdir', os.path.normpath(destdir)))
    for rel, e in sorted(model.items()):
        if not e.get('elf') or rel not in s1 or s1[rel][0] != 'f':
            continue
        p = os.path.join(R, rel)
        dyn = readelf_dyn(p, env)
        if dyn is None:
            res.violate(('elf', 'not-elf', e['kind']), wit(path=rel))
            continue
        res.ev('elf:inspected')
        spec = e['elf']
        needed = sorted(n for n in dyn['needed'] if not SYSTEM_LIBS.match(n))
        if needed != spec['needed']:
            res.violate(('elf', 'needed-differs', e['kind']),
                        wit(path=rel, got=needed, want=spec['needed']))
        if spec['soname'] and dyn['soname'] != spec['soname']:
            res.violate(('elf', 'soname-differs'),
                        wit(path=rel, got=dyn['soname'], want=spec['soname']))
        rp = dyn['runpath'] if dyn['runpath'] is not None else dyn['rpath']
        rps = [x for x in (rp.split(':') if rp else []) if x]
        allowed = set(posixpath.normpath(posixpath.join(dirs[r], d))
                      for r, d in spec['rpath_max'])
        rp_bad = False
        for x in rps:
            why = None
            if '$ORIGIN' in x or '${ORIGIN}' in x:
                why = 'origin'
            elif not x.startswith('/'):
                why = 'relative'
            else:
                for name, f in forbidden:
                    if under(posixpath.normpath(x), f):
                        why = name
                        break
                else:
                    if posixpath.normpath(x) not in allowed:
                        why = 'not-an-installed-libdir'
            if why:
                rp_bad = True
                res.violate(('rpath', why, e['kind']),
                            wit(path=rel, runpath=rp,
                                allowed=sorted(allowed)))
            else:
                res.ev('elf:runpath-entry-ok')
        for n in spec['needed']:
            if rp_bad:
                break       # already reported for this file
            alts = [posixpath.normpath(posixpath.join(dirs[r], d))
                    for r, d in spec['needed_at'][n]]
            found = [a for a in alts
                     if any(posixpath.normpath(x) == a for x in rps) and
                     os.path.exists(ondisk(a + '/' + n))]
            if not found:
                res.violate(('rpath', 'needed-not-found', e['kind']),
                            wit(path=rel, runpath=rp, needed=n,
                                library_dirs=alts))
            else:
                res.ev('elf:needed-resolved')

    # ---- 4. traces
    model_abs = {os.path.join(R, rel): e for rel, e in model.items()}
    dest_dirs = set(os.path.join(R, d) for d in model_dirs)
    for r in proj.read_log(log):
        if 'corrupt' in r:
            continue
        base = os.path.basename(r['name'])
        if base == 'vwrap-patchelf':
            res.ev('trace:patchelf')
            tgt = os.path.normpath(os.path.join(r['cwd'], r['argv'][-1]))
            e = model_abs.get(tgt)
            if e is None or not e.get('elf'):
                where = ('build-tree' if under(tgt, bld) else
                         'source-tree' if under(tgt, src) else 'other')
                res.violate(('patchelf', 'target-not-an-installed-copy', where),
                            wit(argv=r['argv'], target=tgt))
        elif base == 'vwrap-doppel':
            res.ev('trace:doppel')
            tgt = os.path.normpath(os.path.join(r['cwd'], r['argv'][-1]))
            if tgt not in model_abs and tgt not in dest_dirs and not bad:
                res.violate(('doppel', 'destination-not-modelled'),
                            wit(argv=r['argv'], target=tgt))

    # ---- 5. installed executables run (empty DESTDIR only)
    if not destdir and not bad:
        away = bld + '.away'
        os.rename(bld, away)
        try:
            for rel, e in sorted(model.items()):
                if e['kind'] != 'exe':
                    continue
                renv = core.base_env()
                renv.pop('LD_LIBRARY_PATH', None)
                rc, o = core.run([os.path.join(R, rel)], cwd=R, env=renv,
                                 timeout=60)
                if rc != 0 or o != e['stdout']:
                    res.violate(('run', 'installed-executable-fails'),
                                wit(path=rel, rc=rc, output=o[-500:],
                                    want=e['stdout']))
                else:
                    res.ev('exe:ran')
        finally:
            os.rename(away, bld)

    # ---- 6. uninstall
    rc, out = proj.build(bld, backend, ['uninstall'] + mkargs, env=env)
    res.ev('uninstall:run')
    if rc != 0:
        res.violate(('uninstall', 'command-failed', tool_of_failure(out)),
                    wit(output=out[-2000:]))
        return
    s2 = snap(R)
    for rel, e in sorted(model.items()):
        if rel in s2 and rel not in s0:
            res.violate(('uninstall', 'left-behind', e['kind'], e['origin']),
                        wit(path=rel, entry=_slim(e)))
        elif rel in s1:
            res.ev('uninstall:entry-gone')
    for rel in sorted(set(s1) | set(s2)):
        if rel in model or rel in unexpected:
            continue
        a, b = s1.get(rel), s2.get(rel)
        if a == b:
            continue
        ap = os.path.join(R, rel)
        where = ('build-tree' if under(ap, bld) else
                 'source-tree' if under(ap, src) else 'install-area')
        if a is not None and a[0] == 'd' and b is None and rel not in s0:
            continue      # a directory install created may go away again
        res.violate(('uninstall', 'removed-other' if b is None else
                     'created-other' if a is None else 'modified-other', where),
                    wit(path=rel, before=a, after=b))
    if not any(under(os.path.join(R, r), src) and s1.get(r) != s2.get(r)
               for r in set(s1) | set(s2)):
        res.ev('tree:src-unchanged')
    if not any(under(os.path.join(R, r), bld) and s1.get(r) != s2.get(r)
               for r in set(s1) | set(s2)):
        res.ev('tree:bld-unchanged')

    if res.sample is None:
        res.sample = {
            'build.bfg': case['files']['build.bfg'], 'config': case['config'],
            'destdir': destdir.replace(R, '@R@'),
            'installed': sorted(r.replace(R.lstrip('/'), '@R@')
                                for r in model)[:40]}
    res.classes.update('feature:' + f for f in case.get('features', []))
    res.classes.add('destdir:' + ('argument' if arg else 'configure-time'
                                  if destdir else 'empty'))


def _slim(e):
    return {k: e[k] for k in ('root', 'rel', 'type', 'kind', 'origin', 'item')
            if k in e}
