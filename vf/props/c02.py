"""C02 - Ninja backend (executed by the reference evaluator vf/ref/refninja.py): every argument reaches the spawned process unchanged."""
from ..gen import argfid

BACKEND = "ninja"
LEVEL = 'exploration'
MODE = 'thread'
RULE = ('slots = (context, string) pairs rendered into generated build.bfg scripts '
        '(~120 per script; script-level contexts 1-4 per script); contexts: '
        + ', '.join(argfid.CONTEXTS + argfid.SCRIPT_CONTEXTS) +
        '; strings: every printable ASCII char + tab + a Unicode sample in shapes '
        'c / xcx (quick) and also xc / cx / cc (thorough), a curated list of shell/make/ninja '
        'metasyntax, ordered pairs of 33 loaded characters (sample in quick, all in thorough), '
        'seeded random strings of length 0-40; the recording stubs log the argv/environ that '
        'arrive; distinct = (backend, context, string); non-trivial = string has a character '
        'outside [A-Za-z0-9_./-] or is empty')
ASSUMPTIONS = [
    'the recording stub (stubs/vstub.c) logs argv/environ exactly as execve delivered them',
    'option strings are rendered by the generator with single/double sh quoting only, a class '
    'on which POSIX sh and "parsed according to shell rules" agree',
    'compile/link steps are judged by differential against a baseline step without options',
    'command words that are sh special built-ins or reserved words (: . [ ! { }) are not '
    'generated: sh would not start a process for them whatever the quoting',
]


def floors(tier):
    f = {'ctx:' + c: 20 for c in argfid.CONTEXTS}
    f.update({'ctx:' + c: 5 for c in argfid.SCRIPT_CONTEXTS})
    f['distinct_nontrivial'] = 1500
    return f


def cases(tier, seed):
    return argfid.gen_cases(BACKEND, tier, seed)


def run_case(case):
    return argfid.run_case(case.get('backend', BACKEND), case)
