"""C09 - Saved configuration is the only input of later regenerations.

Three monitors (DESIGN.md section 2, C09):

 (a) kind 'ops':  seeded random operation sequences (<= 30 ops, 5 names) on the
     real EnvVarDict, observed by the invariant monitor vf/mon/envmon.py
     (apply(initial, changes) == current, initial untouched, after every
     mutator) and compared step by step with a plain-dict reference model.
     The same monitor is loaded inside every real bfg9000 process of (c).
 (b) kind 'roundtrip':  generated configurations are built with the real
     Environment API, saved, loaded, and compared attribute by attribute through
     a projection written here; the really-saved file is then rewritten into
     every older format version 16..4 by applying the inverse of the upgrade
     steps documented in Environment.load, and each must load to the same
     configuration modulo the defaults those steps document.
 (c) kind 'e2e':  real `bfg9000 configure` under environment E1 (stub tool
     chain, generated tool chain file mutating `environ`, install dirs, library
     mode, compdb, project-defined arguments), then `regenerate` under E1 and
     under a perturbed ambient E2 (other CC/CFLAGS/PATH/junk/HOME/cwd/relative
     build path), then the LAZY mode the generated build file itself uses:
     `regenerate --lazy` twice and twice triggered by the back end (an input
     made newer, `make Makefile` / reference `ninja build.ninja`), under E1/E2;
     then `env`, `run -- env -0`, `run -I -- env -0` under E2.
     Inside every one of those bfg9000 processes vf/mon/spawnmon.py records the
     environment handed to each child process (audit hook on subprocess.Popen);
     for every name whose ambient value differs from the saved ones the child
     must not show the ambient value.  The project has include directories, so
     the compiler's default-directory probe (a helper run with extra variables)
     is reached; 15% of the cases use the real gcc with a C_INCLUDE_PATH chosen
     at configure time so that the probe's answer decides about a -I.
     Oracles: build files byte-identical across the three generations; the
     snapshot holds what was chosen; env/run print the variables predicted by a
     plain-dict model of the tool chain file applied to E1 (-I: E1 itself).
"""
import copy
import json
import os
import platform as _platform
import re
import shlex

from .. import core
from ..core import CaseResult

LEVEL = 'exploration'
MODE = 'process'
RULE = ('ops: seeded sequences of 1-30 operations (setitem, delitem, pop, popitem, '
        'clear, update in 3 call forms, setdefault, |= in 2 forms, reset, a JSON '
        'round trip, reading .changes, rejected non-string stores) over 5 names '
        '(incl. lower-case, non-ASCII, punctuated) and 8 values, started from the '
        'constructor or from from_json; distinct = the sequence, non-trivial = >= 3 '
        'ops.  roundtrip: configurations drawn from {install dirs from the command '
        'line / from a tool chain / absent, incl. spaces and non-ASCII} x library '
        'modes x compdb x extra_args x tool chain path x target platform/arch x '
        'backend and (un)detected backend version x mopack files x variables '
        '(arbitrary names/values) mutated by an ops sequence; each loaded at format '
        'versions 17..4; distinct = the configuration.  e2e: one real configure, 2 '
        'plain regenerates, 2 `regenerate --lazy`, 2 regenerations triggered by the back '
        'end itself (an input made newer, then `make Makefile` / reference `ninja '
        'build.ninja`), each under E1 or E2, then env + 2 runs per case over {4 configure call forms} x {tool '
        'chain file of 0-12 environ operations/builtins, 80% ending in a value derived '
        'from the previous value (append/prepend/conditional/toggle) of a variable the '
        'build files show} x install dirs x library '
        'mode x compdb x project arguments x E1 variables x E2 perturbation (CC, '
        'flags, PATH order/decoys/minimal, junk, unset, HOME, locale, MAKE) x cwd x '
        'relative/absolute build path; distinct = the case, non-trivial = E2 differs '
        'from E1 in a variable the build files depend on')
ASSUMPTIONS = [
    'CPython dict semantics are the reference for what each EnvVarDict mutator does to '
    'the current variables; "changes applied to initial" = set, or remove when None',
    'the environment passed to execve() is exactly what the configure process sees '
    '(E1 keeps LC_ALL=C.UTF-8 so CPython adds nothing)',
    'the inverse of the upgrade chain is written from the comments in Environment.load '
    'and calibrated against the repository fixture test/data/environment/v4',
    'the directory flag of an install directory is not part of configuration equality '
    '(bfg9000 Path equality ignores it; an install dir is a directory by meaning)',
    'variable values contain no newline or NUL; names are valid environment names',
    'cross-compilation (target arch != host) is only exercised in (b): the stub '
    'compiler cannot answer -dumpmachine',
]
EXTRA_COVERAGE = {'exhaustive': False}

KEYS5 = ['A', 'CFLAGS', 'lower_x', 'ÜNI', 'X.Y-Z']
VALS = ['', '1', 'a b', 'é中', '-O2 -g', '$x #y', "q'uo\"te", 'v' * 40]
FILES = ('Makefile', 'build.ninja', 'compile_commands.json')


def floors(tier):
    q = tier == 'quick'
    return {
        'ops:sequences': 800 if q else 15000,
        'ops:mutator-calls': 8000 if q else 150000,
        'inv:__setitem__': 2000, 'inv:__delitem__': 300, 'inv:pop': 300,
        'inv:popitem': 200, 'inv:clear': 200, 'inv:update': 500,
        'inv:setdefault': 300, 'inv:__ior__': 300, 'inv:reset': 200,
        'inv:from_json': 300, 'inv:__init__': 300,
        'rt:roundtrips': 100 if q else 2000,
        'rt:old-version-loads': 500 if q else 10000,
        'rt:calibration-v4-shape': 1,
        'rt:cross-family-old-version-loads': 60 if q else 1200,
        'e2e:configure': 40 if q else 400,
        'e2e:program-lookup-in-buildfile': 40 if q else 400,
        'e2e:regenerate-plain': 80 if q else 800,
        'e2e:regenerate-lazy-cli': 70 if q else 700,
        'e2e:regenerate-old-format': 20 if q else 200,
        'e2e:symlinked-layout': 8 if q else 120,
        'e2e:builddir-named-by-another-spelling': 4 if q else 60,
        'e2e:regenerate-lazy-backend': 50 if q else 500,
        'e2e:backend-triggered-regeneration': 50 if q else 500,
        'e2e:regenerate-E2': 100 if q else 1000,
        'e2e:toolchain-derived-ops': 25 if q else 250,
        'e2e:files-compared': 500 if q else 5000,
        'e2e:env': 30 if q else 300,
        'e2e:run': 30 if q else 300,
        'e2e:run-initial': 30 if q else 300,
        'spawn:process-reports': 200 if q else 2000,
        'spawn:judged': 600 if q else 6000,
        'spawn:extra-env-probe-judged': 100 if q else 1000,
        'spawn:marker-comparisons': 5000 if q else 50000,
        'mon:subject-reports': 200 if q else 2000,
        'mon:subject-evals': 600 if q else 6000,
        'mon:toolchain-mutations': 300 if q else 3000,
        'distinct_nontrivial': 700 if q else 12000,
    }


# ==========================================================================
# (a) operation sequences

def gen_mapping(rng, lo=0, hi=3, keys=KEYS5, vals=VALS):
    n = rng.randint(lo, hi)
    return {rng.choice(keys): rng.choice(vals) for _ in range(n)}


def gen_op(rng, keys=KEYS5, vals=VALS):
    k = rng.choice(keys)
    v = rng.choice(vals)
    r = rng.random()
    if r < 0.20:
        return ['set', k, v]
    if r < 0.28:
        return ['del', k]
    if r < 0.34:
        return ['pop', k]
    if r < 0.39:
        return ['pop_default', k, rng.choice([None, 'dflt'])]
    if r < 0.44:
        return ['popitem']
    if r < 0.48:
        return ['clear']
    if r < 0.54:
        return ['update_dict', gen_mapping(rng, 0, 3, keys, vals)]
    if r < 0.58:
        return ['update_pairs', [[a, b] for a, b in
                                 gen_mapping(rng, 0, 3, keys, vals).items()]]
    if r < 0.62:
        return ['update_kw', gen_mapping(rng, 1, 2, keys, vals)]
    if r < 0.64:
        bad = [[a, b] for a, b in gen_mapping(rng, 1, 3, keys, vals).items()]
        bad.insert(rng.randint(0, len(bad)), [rng.choice(keys), 5])
        return ['update_pairs', bad]
    if r < 0.71:
        return ['setdefault', k, v]
    if r < 0.78:
        return ['ior_dict', gen_mapping(rng, 0, 3, keys, vals)]
    if r < 0.81:
        return ['ior_pairs', [[a, b] for a, b in
                              gen_mapping(rng, 1, 3, keys, vals).items()]]
    if r < 0.86:
        return ['reset']
    if r < 0.91:
        return ['json']
    if r < 0.96:
        return ['read_changes']
    if r < 0.98:
        return ['set', k, rng.choice([7, None])]
    return ['set', 3, v]


def gen_seq(rng, maxops=30):
    initial = {k: rng.choice(VALS) for k in KEYS5 if rng.random() < 0.6}
    seq = {'initial': initial, 'start': rng.choice(['ctor', 'ctor', 'json']),
           'ops': [gen_op(rng) for _ in range(rng.randint(1, maxops))]}
    if rng.random() < 0.5:
        # every other sequence is free of |= : a sequence stops at its first
        # violation, and the other mutators deserve complete sequences too
        seq['ops'] = [['update_' + o[0][4:], o[1]] if o[0].startswith('ior_')
                      else o for o in seq['ops']]
    if seq['start'] == 'json':
        cur = dict(initial)
        for _ in range(rng.randint(0, 3)):
            k = rng.choice(KEYS5)
            if rng.random() < 0.4:
                cur.pop(k, None)
            else:
                cur[k] = rng.choice(VALS)
        seq['current'] = cur
    return seq


def _is_str(x):
    return isinstance(x, str)


def model_op(cur, init, op):
    """Plain-dict reference.  -> (return value, exception name | None).
    Mutates `cur` (the model of the current variables) in place."""
    name = op[0]
    if name == 'set':
        if not _is_str(op[1]) or not _is_str(op[2]):
            return None, 'TypeError'
        cur[op[1]] = op[2]
        return None, None
    if name == 'del':
        if op[1] not in cur:
            return None, 'KeyError'
        del cur[op[1]]
        return None, None
    if name == 'pop':
        if op[1] not in cur:
            return None, 'KeyError'
        return cur.pop(op[1]), None
    if name == 'pop_default':
        return cur.pop(op[1], op[2]), None
    if name == 'popitem':
        if not cur:
            return None, 'KeyError'
        return list(cur.popitem()), None
    if name == 'clear':
        cur.clear()
        return None, None
    if name in ('update_dict', 'update_kw', 'update_pairs'):
        items = op[1].items() if isinstance(op[1], dict) else op[1]
        # dict(*args) collapses duplicates first (last value wins, first position)
        for k, v in dict((a, b) for a, b in items).items():
            if not _is_str(k) or not _is_str(v):
                return None, 'TypeError'
            cur[k] = v
        return None, None
    if name == 'setdefault':
        if op[1] in cur:
            return cur[op[1]], None
        if not _is_str(op[2]):
            return None, 'TypeError'
        cur[op[1]] = op[2]
        return op[2], None
    if name in ('ior_dict', 'ior_pairs'):
        items = op[1].items() if isinstance(op[1], dict) else op[1]
        for k, v in items:
            cur[k] = v
        return None, None
    if name == 'reset':
        cur.clear()
        cur.update(init)
        return None, None
    if name in ('json', 'read_changes'):
        return None, None
    raise ValueError(name)


def real_op(obj, op):
    """-> (object (replaced by 'json'), return value, exception name | None)"""
    from bfg9000.environment import EnvVarDict
    name = op[0]
    ret = None
    try:
        if name == 'set':
            obj[op[1]] = op[2]
        elif name == 'del':
            del obj[op[1]]
        elif name == 'pop':
            ret = obj.pop(op[1])
        elif name == 'pop_default':
            ret = obj.pop(op[1], op[2])
        elif name == 'popitem':
            ret = list(obj.popitem())
        elif name == 'clear':
            obj.clear()
        elif name == 'update_dict':
            obj.update(dict(op[1]))
        elif name == 'update_pairs':
            obj.update([tuple(p) for p in op[1]])
        elif name == 'update_kw':
            obj.update(**op[1])
        elif name == 'setdefault':
            ret = obj.setdefault(op[1], op[2])
        elif name == 'ior_dict':
            same = obj
            obj |= dict(op[1])
            if obj is not same:
                return obj, 'NOT-IN-PLACE', None
        elif name == 'ior_pairs':
            obj |= [tuple(p) for p in op[1]]
        elif name == 'reset':
            obj.reset()
        elif name == 'json':
            obj = EnvVarDict.from_json(json.loads(json.dumps(obj.to_json())))
        elif name == 'read_changes':
            obj.changes
        else:
            raise ValueError(name)
    except (KeyError, TypeError) as e:
        return obj, None, type(e).__name__
    return obj, ret, None


MUTATOR_OF = {'set': '__setitem__', 'del': '__delitem__', 'pop': 'pop',
              'pop_default': 'pop', 'popitem': 'popitem', 'clear': 'clear',
              'update_dict': 'update', 'update_pairs': 'update',
              'update_kw': 'update', 'setdefault': 'setdefault',
              'ior_dict': '__ior__', 'ior_pairs': '__ior__', 'reset': 'reset',
              'json': 'from_json', 'read_changes': 'changes'}


def run_seq(seq, res=None):
    """Run one sequence.  -> None | (mechanism, detail)."""
    from bfg9000.environment import EnvVarDict
    from ..mon import envmon
    envmon.drain()
    init = dict(seq['initial'])
    if seq['start'] == 'json':
        cur = dict(seq['current'])
        obj = EnvVarDict.from_json(json.loads(json.dumps(
            {'initial': init, 'current': cur})))
    else:
        cur = dict(init)
        obj = EnvVarDict(dict(init))
    born = 'from_json' if seq['start'] == 'json' else '__init__'
    broken = envmon.drain()
    if broken:
        return (('envvardict', broken[0][0], born),
                dict(broken[0][1], step=-1, context='in-process'))
    if dict(dict.items(obj)) != cur or obj.initial != init:
        return (('envvardict', 'construction-differs-from-dict-model', born),
                {'step': -1, 'want_current': cur, 'want_initial': init,
                 'got_current': dict(dict.items(obj)),
                 'got_initial': dict(obj.initial), 'context': 'in-process'})
    for i, op in enumerate(seq['ops']):
        want_ret, want_exc = model_op(cur, init, op)
        obj, got_ret, got_exc = real_op(obj, op)
        if res is not None:
            res.ev('ops:mutator-calls')
        mut = MUTATOR_OF[op[0]]
        broken = envmon.drain()
        if broken:
            law, detail = broken[0]
            return (('envvardict', law, detail.get('op', mut)),
                    dict(detail, step=i, operation=op, context='in-process'))
        if got_exc != want_exc:
            return (('envvardict', 'exception-differs-from-dict-model', mut),
                    {'step': i, 'operation': op, 'want': want_exc,
                     'got': got_exc, 'context': 'in-process'})
        if got_ret != want_ret:
            return (('envvardict', 'return-differs-from-dict-model', mut),
                    {'step': i, 'operation': op, 'want': want_ret,
                     'got': got_ret, 'context': 'in-process'})
        if dict(dict.items(obj)) != cur or list(dict.keys(obj)) != list(cur):
            return (('envvardict', 'current-differs-from-dict-model', mut),
                    {'step': i, 'operation': op, 'want': cur,
                     'got': dict(dict.items(obj)), 'context': 'in-process'})
        if obj.initial != init:
            return (('envvardict', 'initial-modified', mut),
                    {'step': i, 'operation': op, 'want': init,
                     'got': dict(obj.initial), 'context': 'in-process'})
        if op[0] == 'read_changes':
            # our own look, through the public property, eagerly materialised
            if envmon.apply_changes(init, dict(obj.changes)) != cur:
                return (('envvardict', 'changes-stale', 'changes'),
                        {'step': i, 'operation': op, 'changes': dict(obj.changes),
                         'current': cur, 'context': 'in-process'})
    return None


def shrink_seq(seq, mech):
    """Greedy one-at-a-time removal keeping the same mechanism."""
    best = copy.deepcopy(seq)
    changed = True
    while changed:
        changed = False
        for i in range(len(best['ops']) - 1, -1, -1):
            trial = copy.deepcopy(best)
            del trial['ops'][i]
            out = run_seq(trial)
            if out is not None and out[0] == mech:
                best = trial
                changed = True
    for k in list(best['initial']):
        trial = copy.deepcopy(best)
        del trial['initial'][k]
        out = run_seq(trial)
        if out is not None and out[0] == mech:
            best = trial
    return best


def run_ops(case, res):
    from ..mon import envmon
    envmon.install()
    before = envmon.snapshot_evals()
    for seq in case['seqs']:
        res.evaluations += 1
        res.ev('ops:sequences')
        res.key(['ops', seq], len(seq['ops']) >= 3)
        res.classes.add('ops:start=' + seq['start'])
        for op in seq['ops']:
            res.classes.add('op:' + op[0])
        out = run_seq(seq, res)
        if out is not None:
            mech, detail = out
            small = shrink_seq(seq, mech)
            out2 = run_seq(small) or out
            res.violate(mech, dict(out2[1], sequence=small,
                                   __case__={'kind': 'ops', 'seqs': [small]}))
    for op, n in envmon.snapshot_evals().items():
        d = n - before.get(op, 0)
        if d:
            res.ev('inv:' + op, d)
    if case['seqs']:
        res.sample = {'kind': 'ops', 'sequence': case['seqs'][0]}


# ==========================================================================
# (b) round trip and older snapshots

RT_DIRS = ['/opt/pre fix', '/usr', '/opt/über/x', '/a/b c/d', '/opt/x/',
           '/srv/wörk dir']
RT_VARNAMES = ['PATH', 'CC', 'CFLAGS', 'HOME', 'lower', 'ÜNI_é', 'X.Y-Z',
               'WITH SPACE', '_', 'a1', 'LONG_' + 'N' * 30]
RT_VALUES = VALS + ['/usr/bin:/bin', 'vcc', 'tab\there', ' nbsp', '=eq=',
                    '\U0001f600']
DEFAULT_DIRS = {'prefix': ['/usr/local', 'absolute'],
                'exec_prefix': ['', 'prefix'],
                'bindir': ['bin', 'exec_prefix'], 'libdir': ['lib', 'exec_prefix'],
                'includedir': ['include', 'prefix'], 'datadir': ['share', 'prefix'],
                'mandir': ['man', 'datadir']}


# documented defaults per target family (reference/ "installation arguments")
FAMILY_DIRS = {
    'posix': DEFAULT_DIRS,
    'windows': {'prefix': None, 'exec_prefix': ['', 'prefix'],
                'bindir': ['', 'exec_prefix'], 'libdir': ['', 'exec_prefix'],
                'includedir': ['', 'prefix'], 'datadir': ['', 'prefix'],
                'mandir': ['man', 'datadir']},
}


def family_of(platdesc_):
    return 'windows' if platdesc_[1] == 'winnt' else 'posix'


def gen_config(rng):
    initial = {rng.choice(RT_VARNAMES): rng.choice(RT_VALUES)
               for _ in range(rng.randint(0, 8))}
    ops = [gen_op(rng, RT_VARNAMES, RT_VALUES) for _ in range(rng.randint(0, 8))]
    ops = [o for o in ops if o[0] not in ('json',)]
    src = rng.choice(['/s r c/proj', '/home/u/p', '/w/üñï/src', '/p'])
    bld = rng.choice(['/b/uild dir', src + '/build', '/tmp/b-é', '/b'])
    cfg = {
        'srcdir': src, 'builddir': bld,
        'bfgdir': rng.choice(['/venv/bin', '/usr/local/bin', '/opt/py 3/bin']),
        'backend': rng.choice(['make', 'make', 'ninja', 'msbuild']),
        'backend_version': rng.choice(['4.3', '4.3', '1.11.1', '3.81', '17.0',
                                       None]),
        'initial': initial, 'ops': ops,
        'toolchain': rng.choice([None, None, '/tc/gcc.bfg', src + '/tool chain.bfg',
                                 '/tc/ü.bfg']),
        'tc_install_dirs': {}, 'cmd_install_dirs': {},
        # incl. other families than the host's: the upgrade steps must take
        # their defaults from the SAVED target platform
        'target': rng.choice([None, None, ['linux', None], ['linux', 'armv7l'],
                              ['winnt', 'x86_64'], ['winnt', None],
                              ['winnt', 'i686'], ['cygwin', None],
                              ['macos', 'arm64'], ['android', 'aarch64']]),
        'library_mode': rng.choice([[True, False], [False, True], [True, True]]),
        'compdb': rng.random() < 0.5,
        'extra_args': rng.choice([[], [], ['--name=zed'], ['--x-name', 'a b'],
                                  ['--enable-fast', '--tag=é'],
                                  ['--name=', '-x', '--', 'pos']]),
        'mopack': rng.choice([[], [], ['/p/mopack.yml'],
                              ['/p/mopack.yml', '/b/mopack/my pkg/mopack.yml']]),
    }
    names = list(DEFAULT_DIRS)
    if cfg['toolchain']:
        for n in rng.sample(names, rng.choice([0, 0, 1, 2])):
            cfg['tc_install_dirs'][n] = rng.choice(RT_DIRS)
    for n in rng.sample(names, rng.choice([0, 0, 1, 2, 3])):
        cfg['cmd_install_dirs'][n] = rng.choice(RT_DIRS)
    return cfg


def pdesc(p, with_dir=True):
    if p is None:
        return None
    d = [p.suffix, p.root.name, bool(p.destdir)]
    if with_dir:
        d.append(bool(p.directory))
    return d


def platdesc(p):
    return [type(p).__name__, p.genus, p.species, p.arch]


def describe(env):
    """Attribute-wise projection of an Environment, written without to_json."""
    from ..mon import envmon
    v = env.variables
    had = '_changes' in v.__dict__
    changes = dict(v.changes)
    if not had:
        v.__dict__.pop('_changes', None)
    bv = env.backend_version
    return {
        'bfgdir': pdesc(env.bfgdir), 'backend': env.backend,
        'backend_version': None if bv is None else str(bv),
        'backend_version_type': type(bv).__name__,
        'host_platform': platdesc(env.host_platform),
        'target_platform': platdesc(env.target_platform),
        'srcdir': pdesc(env.srcdir), 'builddir': pdesc(env.builddir),
        'install_dirs': {k.name: pdesc(p, with_dir=False)
                         for k, p in env.install_dirs.items()},
        'toolchain': pdesc(env.toolchain.path),
        'mopack': [pdesc(p) for p in env.mopack],
        'library_mode': [type(env.library_mode).__name__] + list(env.library_mode),
        'compdb': env.compdb,
        'extra_args': env.extra_args,
        'variables_type': type(v).__name__,
        'current': dict(dict.items(v)),
        'initial': dict(v.initial),
        'changes_applied': envmon.apply_changes(v.initial, changes),
    }


def install_flavours(env):
    """Path class of every install directory (a windows-target default joins
    with a backslash, a posix one with a slash: the build files show it)."""
    return {k.name: type(p).__name__ for k, p in env.install_dirs.items()
            if p is not None}


def build_env(cfg):
    """The way the driver and a tool chain file build a configuration."""
    from bfg9000.environment import Environment, EnvVarDict
    from bfg9000.path import Path, Root, InstallRoot
    from bfg9000.versioning import Version
    from bfg9000 import platforms
    bv = cfg['backend_version']
    env = Environment(bfgdir=Path(cfg['bfgdir'], Root.absolute),
                      backend=cfg['backend'],
                      backend_version=None if bv is None else Version(bv),
                      srcdir=Path(cfg['srcdir'], Root.absolute),
                      builddir=Path(cfg['builddir'], Root.absolute))
    env.variables = EnvVarDict(dict(cfg['initial']))
    if cfg['toolchain']:
        env.toolchain.path = Path(cfg['toolchain'], Root.absolute)
        if cfg['target']:
            env.target_platform = platforms.target.platform_info(*cfg['target'])
        for op in cfg['ops']:
            real_op(env.variables, op)
        for k, v in cfg['tc_install_dirs'].items():
            env.install_dirs[InstallRoot[k]] = Path.ensure(v, Root.absolute)
    cmd = {i: None for i in InstallRoot}
    for k, v in cfg['cmd_install_dirs'].items():
        cmd[InstallRoot[k]] = Path(v, Root.absolute, directory=True)
    env.finalize(cmd, tuple(cfg['library_mode']), cfg['compdb'],
                 list(cfg['extra_args']))
    env.mopack = [Path(i, Root.absolute) for i in cfg['mopack']]
    return env


class NotExpressible(Exception):
    pass


def _strip_slash(s):
    if s in ('./', '.'):
        return ''
    return s[:-1] if s.endswith('/') and s != '/' else s


def downgrade_step(d, frm, modulo):
    """Rewrite snapshot data of format version `frm` into version frm-1: the
    inverse of the step "v<frm> ..." documented in Environment.load.  `modulo`
    collects {projection field: documented default}."""
    if frm == 17:          # v17 adds datadir and mandir to install_dirs
        for i in ('datadir', 'mandir'):
            d['install_dirs'].pop(i, None)
            modulo['install_dirs.' + i] = 'platform-default'
    elif frm == 16:        # v16 adds compdb
        del d['compdb']
        modulo['compdb'] = True
    elif frm == 15:        # v15 adds mopack, nests variables
        del d['mopack']
        modulo['mopack'] = []
        v = d.pop('variables')
        d['initial_variables'] = v['initial']
        d['variables'] = v['current']
    elif frm == 14:        # v14 adds architecture to platform objects
        for i in ('host_platform', 'target_platform'):
            d[i] = d[i]['species']
            modulo[i + '.arch'] = _platform.machine()
    elif frm == 13:        # v13 adds initial_variables and toolchain
        del d['initial_variables']
        del d['toolchain']
        modulo['initial'] = 'current'
        modulo['toolchain'] = None
    elif frm == 12:        # v12 splits platform into host and target
        if d['host_platform'] != d['target_platform']:
            raise NotExpressible('v11: one platform only')
        d['platform'] = d.pop('host_platform')
        del d['target_platform']
    elif frm == 11:        # v11 adds the destdir flag to paths
        for i in ('bfgdir', 'srcdir', 'builddir'):
            if d[i][2]:
                raise NotExpressible('v10: destdir path')
            d[i] = d[i][:2]
        for k, v in d['install_dirs'].items():
            if v is None:
                raise NotExpressible('v10: unset install dir')
            if v[2]:
                raise NotExpressible('v10: destdir path')
            d['install_dirs'][k] = v[:2]
    elif frm == 10:        # v10 adds exec_prefix
        ep = d['install_dirs'].pop('exec_prefix')
        if [_strip_slash(ep[0]), ep[1]] != ['', 'prefix']:
            raise NotExpressible('v9: exec_prefix differs from prefix')
        for i in ('bindir', 'libdir'):
            if d['install_dirs'][i][1] == 'exec_prefix':
                d['install_dirs'][i][1] = 'prefix'
    elif frm == 9:         # v9 adds library_mode
        del d['library_mode']
        modulo['library_mode'] = ['LibraryMode', True, False]
    elif frm == 8:         # v8 adds extra_args
        del d['extra_args']
        modulo['extra_args'] = []
    elif frm == 7:         # v7 replaces bfgpath with bfgdir
        suffix, root = d.pop('bfgdir')
        d['bfgpath'] = [suffix.rstrip('/') + '/bfg9000', root]
    elif frm == 6:         # v6 adds backend_version, bfgpath becomes a Path
        del d['backend_version']
        modulo['backend_version'] = 'detected'
        if d['bfgpath'][1] != 'absolute':
            raise NotExpressible('v5: bfgpath not absolute')
        d['bfgpath'] = d['bfgpath'][0]
    elif frm == 5:         # v5 srcdir/builddir become Paths
        for i in ('srcdir', 'builddir'):
            if d[i][1] != 'absolute':
                raise NotExpressible('v4: not absolute')
            d[i] = _strip_slash(d[i][0])
    else:
        raise ValueError(frm)


def shape(x):
    if isinstance(x, dict):
        return {k: shape(v) for k, v in x.items()}
    if isinstance(x, list):
        return [type(i).__name__ for i in x]
    return type(x).__name__


def v4_calibration(v4data):
    """Our synthesised v4 data must have the layout of the repository's
    hand-written v4 fixture (variables aside)."""
    path = os.path.join(core.REPO, 'test', 'data', 'environment', 'v4',
                        '.bfg_environ')
    try:
        with open(path) as f:
            fx = json.load(f)
    except OSError:
        return None
    if fx.get('version') != 4:
        return None
    a, b = shape(fx['data']), shape(v4data)
    a.pop('variables', None)
    b.pop('variables', None)
    # the fixture has no datadir/mandir/exec_prefix either
    return a == b


def expected_after_upgrade(orig, modulo, overridden=()):
    """Projection the older snapshot must load to.  An install directory the
    older format did not store comes back as the default of the SAVED target
    platform: if the configuration never overrode it, that is exactly what the
    original held (load(older X) == X); if it did, the family default."""
    exp = copy.deepcopy(orig)
    checks = {}
    for field, dflt in modulo.items():
        if field.startswith('install_dirs.'):
            name = field.split('.', 1)[1]
            if name in overridden:
                exp['install_dirs'].pop(name, None)
                fam = FAMILY_DIRS[family_of(orig['target_platform'])]
                checks[field] = fam[name] + [False]
        elif field.endswith('.arch'):
            exp[field.split('.')[0]][3] = dflt
        elif field == 'initial':
            exp['initial'] = dict(exp['current'])
            exp['changes_applied'] = dict(exp['current'])
        elif field == 'backend_version':
            exp.pop('backend_version')
            exp.pop('backend_version_type')
        else:
            exp[field] = dflt
    return exp, checks


def diff_fields(a, b):
    out = []
    for k in sorted(set(a) | set(b)):
        if k not in a or k not in b:
            out.append(k)
        elif a[k] != b[k]:
            if isinstance(a[k], dict) and isinstance(b[k], dict) and \
               k == 'install_dirs':
                for kk in sorted(set(a[k]) | set(b[k])):
                    if a[k].get(kk, 'ABSENT') != b[k].get(kk, 'ABSENT'):
                        out.append(k + '.' + kk)
            else:
                out.append(k)
    return out


def field_mechanism(field, before):
    """Classify a field that did not survive save/load."""
    if field in ('backend_version', 'backend_version_type') and \
       before.get('backend_version') is None:
        return ('snapshot', 'backend_version', 'None-not-preserved')
    if field in ('current', 'initial', 'changes_applied', 'variables_type'):
        return ('snapshot', 'variables', field)
    return ('snapshot', field.split('.')[0], 'differs-after-reload')


def _locale_open(enc):
    """open() as it behaves in a process whose locale encoding is `enc` (text mode, no explicit
    encoding -> the locale's); everything else untouched."""
    import builtins

    def opener(file, mode='r', buffering=-1, encoding=None, errors=None, newline=None,
               closefd=True, opener=None):
        if 'b' not in mode and encoding is None:
            encoding = enc
        return builtins.open(file, mode, buffering, encoding, errors, newline, closefd, opener)
    return opener


def run_roundtrip(case, res):
    from bfg9000.environment import Environment
    from ..mon import envmon
    envmon.install()
    envmon.drain()
    for cfg in case['configs']:
        res.evaluations += 1
        sub = {'kind': 'roundtrip', 'configs': [cfg]}
        nontriv = bool(cfg['toolchain'] or cfg['cmd_install_dirs'] or
                       cfg['extra_args'] or cfg['ops'])
        res.key(['rt', cfg], nontriv)
        d = core.mkscratch('c09rt')
        try:
            try:
                env = build_env(cfg)
            except Exception as e:
                res.exclude('generator: configuration rejected by the API (%s)'
                            % type(e).__name__)
                continue
            before = describe(env)
            flav_before = install_flavours(env)
            overridden = set(cfg['cmd_install_dirs'])
            if cfg['toolchain']:
                overridden |= set(cfg['tc_install_dirs'])
            env.save(d)
            with open(os.path.join(d, '.bfg_environ')) as f:
                saved = json.load(f)
            try:
                loaded = Environment.load(d)
                after = describe(loaded)
                flav_after = install_flavours(loaded)
            except Exception as e:
                res.violate(('snapshot', 'load-raised', type(e).__name__),
                            {'config': cfg, 'error': repr(e), 'version': 17,
                             '__case__': sub})
                continue
            res.ev('rt:roundtrips')
            res.classes.update(['rt:backend=' + cfg['backend'],
                                'rt:target=' + str(cfg['target'] and
                                                   cfg['target'][0]),
                                'rt:mode=%s' % cfg['library_mode'],
                                'rt:toolchain=%s' % bool(cfg['toolchain']),
                                'rt:backend_version=%s' %
                                ('none' if cfg['backend_version'] is None
                                 else 'some')])
            if flav_before != flav_after:
                names = sorted(k for k in flav_before
                               if flav_before[k] != flav_after.get(k))
                res.violate(('snapshot', 'install_dirs', 'path-flavour-not-preserved'),
                            {'field': 'install_dirs', 'version': 17, 'names': names,
                             'before': {k: flav_before[k] for k in names},
                             'after': {k: flav_after.get(k) for k in names},
                             'target': before['target_platform'],
                             'config': cfg, '__case__': sub})
            seen = set()
            if after['changes_applied'] != after['current']:
                seen.add(('snapshot', 'variables', 'changes-stale-after-load'))
                res.violate(('snapshot', 'variables', 'changes-stale-after-load'),
                            {'field': 'changes', 'version': 17,
                             'current': after['current'],
                             'applied': after['changes_applied'],
                             'config': cfg, '__case__': sub})
            # whether the changes recorded *before* saving were right is monitor
            # (a)'s business (a sequence with |= arrives here already stale)
            if before['changes_applied'] != before['current']:
                res.ev('rt:invariant-already-broken-by-ops')
            before['changes_applied'] = before['current']
            for field in diff_fields(before, after):
                mech = field_mechanism(field, before)
                if mech in seen:
                    continue
                seen.add(mech)
                res.violate(mech, {
                    'field': field, 'version': 17,
                    'before': before.get(field.split('.')[0]),
                    'after': after.get(field.split('.')[0]),
                    'config': cfg, '__case__': sub})
            if seen:
                continue
            envmon.drain()

            # ---- the same snapshot under another locale: every text file opened WITHOUT an
            # explicit encoding is read / written in the invocation's locale encoding, which
            # belongs to the ambient environment.  Written under UTF-8 and read back under an
            # 8-bit code page, and the other way round, the configuration is the same.
            import bfg9000.environment as _benv
            for wenc, renc in (('utf-8', 'latin-1'), ('latin-1', 'utf-8'), ('cp1252', 'ascii')):
                d2 = core.mkscratch('c09loc')
                try:
                    stage = 'save'
                    try:
                        _benv.open = _locale_open(wenc)
                        env.save(d2)
                        stage = 'load'
                        _benv.open = _locale_open(renc)
                        other = describe(Environment.load(d2))
                    except Exception as e:
                        other = {'raised': '%s under %s: %r' % (stage, wenc if stage == 'save'
                                                                else renc, e)}
                    finally:
                        del _benv.open
                    res.ev('rt:other-locale-roundtrips')
                    if other != after:
                        fields = ['raised'] if 'raised' in other else diff_fields(after, other)
                        res.violate(('snapshot', 'locale-encoding-dependent', fields[0].split('.')[0]),
                                    {'written_under': wenc, 'read_under': renc, 'fields': fields[:6],
                                     'other': other.get('raised') or
                                     {f.split('.')[0]: other.get(f.split('.')[0]) for f in fields[:3]},
                                     'same_locale': {f.split('.')[0]: after.get(f.split('.')[0])
                                                     for f in fields[:3] if f != 'raised'},
                                     'config': cfg, '__case__': sub})
                        break
                finally:
                    core.rmtree(d2)
            envmon.drain()

            # ---- older snapshots
            if saved.get('version') != 17:
                res.exclude('snapshot format is not v17: inverse chain unknown')
                continue
            data = copy.deepcopy(saved['data'])
            modulo = {}
            for frm in range(17, 4, -1):
                try:
                    downgrade_step(data, frm, modulo)
                except NotExpressible as e:
                    res.exclude('not expressible in older format: %s' % e)
                    break
                ver = frm - 1
                if ver == 4:
                    ok = v4_calibration(data)
                    if ok is None:
                        res.exclude('v4 fixture unavailable')
                    elif ok:
                        res.ev('rt:calibration-v4-shape')
                    else:
                        res.exclude('synthesised v4 layout differs from the '
                                    'fixture: not judged')
                        break
                with open(os.path.join(d, '.bfg_environ'), 'w') as f:
                    json.dump({'version': ver, 'data': data}, f)
                res.ev('rt:old-version-loads')
                res.ev('rt:v%d' % ver)
                exp, checks = expected_after_upgrade(before, modulo, overridden)
                if family_of(before['target_platform']) != \
                   family_of(before['host_platform']):
                    res.ev('rt:cross-family-old-version-loads')
                try:
                    got = describe(Environment.load(d))
                except Exception as e:
                    res.violate(('snapshot', 'upgrade-raised', type(e).__name__),
                                {'config': cfg, 'error': repr(e), 'version': ver,
                                 '__case__': sub})
                    break
                got_cmp = copy.deepcopy(got)
                bad = []
                for field, want in checks.items():
                    name = field.split('.', 1)[1]
                    have = got_cmp['install_dirs'].pop(name, 'ABSENT')
                    if have == 'ABSENT' or have is None or \
                       [_strip_slash(have[0]), have[1], have[2]] != want:
                        bad.append(field)
                if 'backend_version' in modulo:
                    got_cmp.pop('backend_version')
                    got_cmp.pop('backend_version_type')
                bad += diff_fields(exp, got_cmp)
                if bad:
                    field = bad[0]
                    mech = field_mechanism(field, before)
                    if mech[2] == 'differs-after-reload':
                        mech = ('snapshot', mech[1], 'differs-after-upgrade')
                    res.violate(mech, {
                        'field': field, 'version': ver, 'all_fields': bad,
                        'expected': exp.get(field.split('.')[0]),
                        'loaded': got.get(field.split('.')[0]),
                        'config': cfg, '__case__': sub})
                    break
            envmon.drain()
        finally:
            core.rmtree(d)
    if case['configs']:
        res.sample = {'kind': 'roundtrip', 'config': case['configs'][0]}


# ==========================================================================
# (c) end to end

PROJECT = {
    'build.bfg': (
        "project('p', '1.0')\n"
        "lib = library('foo', files=['foo.c'])\n"
        "incs = ['include']\n"
        "if env.getvar('C09_SDK'):\n"
        "    incs.append(header_directory(env.getvar('C09_SDK')))\n"
        "exe = executable('prog', files=['main.c'], includes=incs, libs=[lib])\n"
        "install(exe, lib)\n"
        "# a program looked up at script time: its absolute path lands in recipes\n"
        "tool = system_executable('mytool')\n"
        "command('usetool', cmd=[tool, 'arg'])\n"
        "build_step('tool.out', cmd=[tool, '--touch', 'tool.out', '--end'])\n"
        "command('showvar', cmd=['vrec', env.getvar('MYVAR', '<unset>'),\n"
        "        env.getvar('lower.var-é', '<unset>'), argv.name, str(argv.fast),\n"
        "        argv.tag])\n"),
    'options.bfg': (
        "argument('name', default='dflt', help='a name')\n"
        "argument('fast', action='enable', help='go fast')\n"
        "argument('tag', default='', help='a tag')\n"),
    'main.c': 'int foo(void);\nint main(void) { return foo(); }\n',
    'foo.c': 'int foo(void) { return 0; }\n',
    'include/foo.h': 'int foo(void);\n',
}
# for a foreign target platform: nothing to compile (the stub compiler cannot
# answer -dumpmachine), but install rules so that every install directory
# variable (datadir, mandir, ...) is written into the build file
PROJECT_CROSS = {
    'build.bfg': (
        "project('p', '1.0')\n"
        "install(man_page('p.1', level=1))\n"
        "tool = system_executable('mytool')\n"
        "command('usetool', cmd=[tool, 'arg'])\n"
        "command('showvar', cmd=['vrec', env.getvar('MYVAR', '<unset>'),\n"
        "        env.getvar('lower.var-é', '<unset>'), argv.name, str(argv.fast),\n"
        "        argv.tag])\n"),
    'options.bfg': PROJECT['options.bfg'],
    'p.1': '.TH p 1\n',
}
E_VARNAMES = ['MYVAR', 'lower.var-é', 'JUNK_1', 'ÜNI', 'X.Y-Z', '_u', 'EMPTY',
              'CPPFLAGS', 'LDFLAGS', 'LDLIBS', 'CFLAGS']
E_VALUES = ['1', 'a b', 'é中', '-O2 -g', '$x #y', "q'uo\"te", '', 'x=y',
            '-DFOO=1', '-Wl,-z,now', '-lm', 'w' * 50]
FLAGVALS = {'CFLAGS': ['-O1', '-O2 -g', '-DX=1 -Wall', ''],
            'CPPFLAGS': ['-DCPP=1', '-I/opt/inc'],
            'LDFLAGS': ['-Wl,-z,now', '-L/opt/l i b'],
            'LDLIBS': ['-lm', '-lm -ldl']}
SIMPLE_OPTS = ['-O2', '-g', '-Wall', '-DX=1', '-fno-common', '-O0']
PATH_TOKENS = {'BIN': core.BIN, 'VENV': core.VENV_BIN}


FLAGVARS = ('CFLAGS', 'CPPFLAGS', 'LDFLAGS', 'LDLIBS')


def val_for(rng, k):
    """A value for variable k; flag variables get well-formed shell words (a
    malformed CFLAGS makes configure fail, which is the documented behaviour)."""
    while True:
        v = rng.choice(E_VALUES)
        if k not in FLAGVARS:
            return v
        try:
            shlex.split(v)
            return v
        except ValueError:
            continue


def gen_tc_ops(rng, sensitive):
    ops = []
    names = ['MYVAR', 'lower.var-é', 'TC_1', 'ÜNI', 'CFLAGS', 'CPPFLAGS',
             'LDFLAGS', 'X.Y-Z']
    for _ in range(rng.randint(1, 10)):
        k = rng.choice(names)
        v = val_for(rng, k)
        r = rng.random()
        if r < 0.16:
            ops.append(['set', k, v])
        elif r < 0.22:
            ops.append(['del', k])
        elif r < 0.27:
            ops.append(['pop', k])
        elif r < 0.35:
            k2 = rng.choice(names)
            ops.append(['update', {k2: val_for(rng, k2), k: v}])
        elif r < 0.41:
            ops.append(['setdefault', k, v])
        elif r < 0.49:
            ops.append(['ior', {k: v}])
        elif r < 0.59:
            ops.append(['append', rng.choice(['CFLAGS', 'LDFLAGS', 'MYVAR', 'TC_1']),
                        rng.choice([' -g', ' -DAPP=1', ' x'])])
        elif r < 0.66:
            ops.append(['toggle', rng.choice(['TC_T', 'MYVAR', 'JUNK_1'])])
        elif r < 0.70:
            ops.append(['clear_keep', sorted(set(
                ['PATH'] + rng.sample(['HOME', 'LANG', 'LC_ALL', 'CC', 'CXX', 'AR',
                                       'CFLAGS', 'MYVAR', 'PYTHONPATH'],
                                      rng.randint(2, 6))))])
        elif r < 0.74:
            ops.append(['popitem_restore'])
        elif r < 0.80:
            ops.append(['copyvar', rng.choice(['TC_C', 'MYVAR']),
                        rng.choice(['CFLAGS', 'CC', 'JUNK_1', 'HOME', 'PATH'])])
        elif r < 0.86:
            ops.append(['compile_options_list',
                        rng.sample(SIMPLE_OPTS, rng.randint(1, 3)), 'c'])
        elif r < 0.89:
            ops.append(['compile_options_str', rng.choice(
                ['-O2 "-DX=a b"', "-DQ='x'", '-g']), 'c'])
        elif r < 0.92:
            ops.append(['link_options_list', rng.sample(
                ['-Wl,-z,now', '-Wl,--as-needed', '-s'], rng.randint(1, 2))])
        elif r < 0.94:
            ops.append(['lib_options_list', rng.sample(['-lm', '-ldl'],
                                                       rng.randint(1, 2))])
        elif r < 0.97:
            ops.append(['target_platform', 'linux'])
        else:
            ops.append(['which_plain', rng.choice(['TC_W', 'MYVAR']), 'vcc'])
    # the compiler comes last-ish so that clear_keep does not lose it
    r = rng.random()
    if r < 0.6:
        ops.append(['compiler', ['vcc'], 'c'])
    if sensitive:
        kind = rng.choice(['compiler_multi', 'which_resolve', 'which_strict'])
        if kind == 'compiler_multi':
            ops.append(['compiler', ['no-such-cc-' + str(rng.randint(1, 9)), 'vcc'],
                        'c'])
        elif kind == 'which_resolve':
            ops.append(['which_resolve', rng.choice(['MYVAR', 'TC_W']), 'mytool'])
        else:
            ops.append(['which_strict', rng.choice(['MYVAR', 'TC_W']), 'vcc'])
    if rng.random() < 0.8:
        # at least one value derived from the previous value of a variable the
        # build files show (GLOBAL_CFLAGS / GLOBAL_LDFLAGS / the `showvar`
        # command line), placed last so that nothing overwrites it: replaying
        # the file on anything but the initial variables is then visible
        for _ in range(rng.choice([1, 1, 2])):
            ops.append(gen_derived_op(rng))
    if rng.random() < 0.4:
        dirs = {}
        for n in rng.sample(['prefix', 'bindir', 'libdir', 'includedir', 'datadir'],
                            rng.randint(1, 2)):
            dirs[n] = '<S>/inst/tc ' + n
        ops.append(['install_dirs', dirs])
    return ops


DERIVED = ('append', 'prepend', 'cond_append', 'toggle')


def gen_derived_op(rng):
    k = rng.choice(['CFLAGS', 'CFLAGS', 'LDFLAGS', 'MYVAR', 'lower.var-é'])
    flag = k in FLAGVARS
    r = rng.random()
    if r < 0.4:
        return ['append', k, rng.choice([' -DAPP=1', ' -g'] if flag else
                                        [' x', ':/opt/app'])]
    if r < 0.7:
        return ['prepend', k, rng.choice(['-DPRE=1 ', '-Wall '] if flag else
                                         ['/opt/pre:', 'p '])]
    if r < 0.9:
        return ['cond_append', k, rng.choice(['-DFIRST'] if flag else ['first']),
                rng.choice([' -DAGAIN'] if flag else [' again'])]
    return ['toggle', rng.choice(['MYVAR', 'lower.var-é'])]


def render_tc(ops):
    """Tool chain file source for an op list."""
    L = []
    r = repr
    for op in ops:
        n = op[0]
        if n == 'set':
            L.append('environ[%s] = %s' % (r(op[1]), r(op[2])))
        elif n == 'del':
            L.append('if %s in environ:\n    del environ[%s]' % (r(op[1]), r(op[1])))
        elif n == 'pop':
            L.append('environ.pop(%s, None)' % r(op[1]))
        elif n == 'update':
            L.append('environ.update(%s)' % r(op[1]))
        elif n == 'setdefault':
            L.append('environ.setdefault(%s, %s)' % (r(op[1]), r(op[2])))
        elif n == 'ior':
            L.append('environ |= %s' % r(op[1]))
        elif n == 'append':
            L.append('environ[%s] = environ.get(%s, "") + %s' %
                     (r(op[1]), r(op[1]), r(op[2])))
        elif n == 'prepend':
            L.append('environ[%s] = %s + environ.get(%s, "")' %
                     (r(op[1]), r(op[2]), r(op[1])))
        elif n == 'cond_append':
            L.append('if %s not in environ:\n    environ[%s] = %s\nelse:\n'
                     '    environ[%s] = environ[%s] + %s' %
                     (r(op[1]), r(op[1]), r(op[2]), r(op[1]), r(op[1]), r(op[3])))
        elif n == 'toggle':
            L.append('if %s in environ:\n    del environ[%s]\nelse:\n'
                     '    environ[%s] = "on"' % (r(op[1]), r(op[1]), r(op[1])))
        elif n == 'clear_keep':
            L.append('keep = {k: environ[k] for k in %s if k in environ}\n'
                     'environ.clear()\nenviron.update(keep)' % r(op[1]))
        elif n == 'popitem_restore':
            L.append('if len(environ):\n    k_, v_ = environ.popitem()\n'
                     '    environ[k_] = v_')
        elif n == 'copyvar':
            L.append('environ[%s] = environ.get(%s, "<none>")' % (r(op[1]), r(op[2])))
        elif n == 'compile_options_list':
            L.append('compile_options(%s, %s)' % (r(op[1]), r(op[2])))
        elif n == 'compile_options_str':
            L.append('compile_options(%s, %s)' % (r(op[1]), r(op[2])))
        elif n == 'link_options_list':
            L.append('link_options(%s)' % r(op[1]))
        elif n == 'lib_options_list':
            L.append('lib_options(%s)' % r(op[1]))
        elif n == 'target_platform':
            L.append('target_platform(%s)' % ', '.join(r(a) for a in op[1:]))
        elif n == 'which_plain':
            L.append('environ[%s] = which(%s, strict=False)' % (r(op[1]), r(op[2])))
        elif n == 'which_strict':
            L.append('environ[%s] = which(%s)' % (r(op[1]), r(op[2])))
        elif n == 'which_resolve':
            L.append('environ[%s] = which(%s, resolve=True)' % (r(op[1]), r(op[2])))
        elif n == 'compiler':
            L.append('compiler(%s, %s)' % (r(op[1] if len(op[1]) > 1 else op[1][0]),
                                           r(op[2])))
        elif n == 'install_dirs':
            L.append('install_dirs(%s)' % ', '.join(
                '%s=%s' % (k, r(v)) for k, v in op[1].items()))
        else:
            raise ValueError(n)
    return '# generated tool chain file\n' + '\n'.join(L) + '\n'


def model_which(name, pathdirs):
    for d in pathdirs:
        if d and os.path.exists(os.path.join(d, name)):
            return os.path.normpath(os.path.join(d, name))
    return None


def model_tc(ops, start, pathdirs):
    """Plain-dict model of the tool chain file.  -> (variables, which-outputs)
    `pathdirs`: the directories a PATH search is to use."""
    v = dict(start)
    which_keys = set()
    for op in ops:
        n = op[0]
        if n == 'set':
            v[op[1]] = op[2]
        elif n == 'del' or n == 'pop':
            v.pop(op[1], None)
        elif n == 'update' or n == 'ior':
            v.update(op[1])
        elif n == 'setdefault':
            v.setdefault(op[1], op[2])
        elif n == 'append':
            v[op[1]] = v.get(op[1], '') + op[2]
        elif n == 'prepend':
            v[op[1]] = op[2] + v.get(op[1], '')
        elif n == 'cond_append':
            v[op[1]] = op[2] if op[1] not in v else v[op[1]] + op[3]
        elif n == 'toggle':
            if op[1] in v:
                del v[op[1]]
            else:
                v[op[1]] = 'on'
        elif n == 'clear_keep':
            v = {k: v[k] for k in op[1] if k in v}
        elif n == 'popitem_restore':
            if v:
                k, val = v.popitem()
                v[k] = val
        elif n == 'copyvar':
            v[op[1]] = v.get(op[2], '<none>')
        elif n == 'compile_options_list':
            v['CFLAGS'] = ' '.join(op[1])
        elif n == 'compile_options_str':
            v['CFLAGS'] = op[1]
        elif n == 'link_options_list':
            v['LDFLAGS'] = ' '.join(op[1])
        elif n == 'lib_options_list':
            v['LDLIBS'] = ' '.join(op[1])
        elif n == 'which_plain':
            v[op[1]] = op[2]
        elif n == 'which_strict':
            which_keys.add(op[1])
            v[op[1]] = op[2] if model_which(op[2], pathdirs) else '<FileNotFoundError>'
        elif n == 'which_resolve':
            which_keys.add(op[1])
            v[op[1]] = model_which(op[2], pathdirs) or '<FileNotFoundError>'
        elif n == 'compiler':
            if len(op[1]) > 1:
                which_keys.add('CC')
            found = [i for i in op[1] if model_which(i, pathdirs)]
            v['CC'] = found[0] if found else op[1][0]
        elif n in ('target_platform', 'install_dirs'):
            pass
        else:
            raise ValueError(n)
    return v, which_keys


def gen_e2e(rng, idx):
    sensitive = rng.random() < 0.2
    has_tc = sensitive or rng.random() < 0.85
    e1 = {'CC': rng.choice(['vcc', 'vcc', 'vcc', 'vclang']), 'CXX': 'vc++',
          'AR': 'var'}
    for k, vals in FLAGVALS.items():
        if rng.random() < 0.6:
            e1[k] = rng.choice(vals)
    for _ in range(rng.randint(1, 5)):
        e1[rng.choice(E_VARNAMES[:7])] = rng.choice(E_VALUES)
    backend = rng.choice(['make', 'make', 'make', 'ninja'])
    if backend == 'make' and rng.random() < 0.12:
        e1['MAKE'] = 'vrec'          # a make whose version cannot be detected
    path1 = ['P1', 'P2', 'BIN', 'VENV', '/usr/local/bin', '/usr/bin', '/bin']
    if rng.random() < 0.3:
        path1 = ['BIN', 'P1', 'VENV', '/usr/bin', 'P2', '/bin']

    conf = {'dirs': {}, 'shared': rng.choice([None, None, True, False]),
            'compdb': rng.choice([None, True, False]),
            'extra': rng.choice([[], ['--name=zed'], ['--x-name', 'a b'],
                                 ['--enable-fast', '--tag=é t'],
                                 ['--x-enable-fast', '--name=n#1'],
                                 ['--tag=$(x)', '--disable-fast']])}
    conf['static'] = True if conf['shared'] is False else rng.choice([None, True,
                                                                      False])
    for n in rng.sample(['prefix', 'exec_prefix', 'bindir', 'libdir', 'includedir',
                         'datadir', 'mandir'], rng.choice([0, 1, 1, 2, 3])):
        conf['dirs'][n] = '<S>/inst/c ' + n if rng.random() < 0.7 else \
            '<S>/inst/ü/' + n

    # ---- E2
    e2 = {'set': {}, 'unset': []}
    e2['set']['CC'] = rng.choice(['vclang', 'vclang', 'false', 'vwrap-clang', 'gcc'])
    e2['set']['CFLAGS'] = rng.choice(['-O3', '-O3 -DAMBIENT=2', '-march=native'])
    for k in ('CPPFLAGS', 'LDFLAGS', 'LDLIBS', 'MYVAR', 'lower.var-é', 'JUNK_1',
              'CXX', 'AR'):
        r = rng.random()
        if r < 0.35:
            e2['set'][k] = rng.choice(['-DAMBIENT', 'ambient', '-lambient', 'x y'])
        elif r < 0.6:
            e2['unset'].append(k)
    for i in range(rng.randint(1, 4)):
        e2['set']['AMBIENT_JUNK_%d' % i] = rng.choice(E_VALUES)
    if rng.random() < 0.5:
        e2['set']['HOME'] = '<S>/home2'
    if rng.random() < 0.3:
        e2['set']['LC_ALL'] = rng.choice(['C', 'POSIX'])
        if rng.random() < 0.5:
            e2['unset'].append('LANG')
    if rng.random() < 0.3:
        e2['set'][rng.choice(['MAKE', 'NINJA'])] = 'false'
    e2['path'] = rng.choice([
        ['P2', 'P1', 'BIN', 'VENV', '/usr/local/bin', '/usr/bin', '/bin'],
        ['/usr/bin', '/bin'],
        ['DECOY', 'P2', '/usr/bin', '/bin', 'BIN', 'P1'],
        ['P2', '/bin', '/usr/bin', 'VENV'],
        ['DECOY', 'BIN', 'VENV', '/usr/bin', '/bin'],
    ])
    for k in ('C_INCLUDE_PATH', 'CPATH', 'LIBRARY_PATH', 'PKG_CONFIG_PATH'):
        # compiler/pkg-config relevant poison: must never reach a helper command
        if rng.random() < 0.5:
            e2['set'][k] = '<S>/poison/' + k.lower()
    tc_ops = gen_tc_ops(rng, sensitive) if has_tc else None
    cross = rng.choice(['winnt', 'winnt', 'winnt', 'cygwin', 'macos']) \
        if rng.random() < 0.2 else None
    old_version = rng.choice([16, 16, 15, 14, 13])
    if cross:
        # a tool chain file choosing a target platform of another family; the
        # same architecture as the host's, so that no format version loses it
        tc_ops = [['target_platform', cross, _platform.machine()]] + \
            [o for o in (tc_ops or []) if o[0] not in ('compiler',
                                                       'target_platform')]
        conf['dirs'].setdefault('prefix', '<S>/inst/c prefix')
    realcc = (not cross) and rng.random() < 0.15
    if realcc:
        # the real gcc, with a compiler-default include directory chosen through
        # C_INCLUDE_PATH at configure time and named again by the project: the
        # default-directory probe (run with extra variables) decides about a -I
        e1.update({'CC': 'gcc', 'C_INCLUDE_PATH': '<S>/sdk/include',
                   'C09_SDK': '<S>/sdk/include'})
        if tc_ops is not None:
            tc_ops = [o for o in tc_ops if o[0] != 'compiler']
    return {
        'kind': 'e2e', 'idx': idx, 'backend': backend, 'realcc': realcc,
        'cross': cross, 'old_version': old_version,
        # a space in srcdir breaks the Make back end's own regeneration rule
        # (C04's business), so it is the rarer choice
        'srcname': rng.choice(['src', 'pröj', 'src', 'pröj', 's r c']),
        'buildname': rng.choice(['build', 'b d', 'b-é', 'src/../bld']),
        'tcname': rng.choice(['tc.bfg', 'tool chain.bfg', 'sub/tü.bfg']),
        'tc_arg': rng.choice(['abs', 'rel']),
        'tc_ops': tc_ops,
        'form': rng.choice(['rel', 'abs', 'into', 'frombuild']),
        'e1': e1, 'path1': path1, 'conf': conf, 'e2': e2,
        'cwd2': rng.choice(['root', 'scratch', 'builddir', 'srcdir', 'home2']),
        'bdarg2': rng.choice(['abs', 'rel', 'phys', 'rel-logical', 'omit']),
        'trailing_slash': rng.random() < 0.3,
        # source and build directories reached through a symlinked spelling
        'link': rng.random() < 0.5,
        'regen_alias': rng.random() < 0.15,
        'lazy_order': rng.choice([['E1', 'E2'], ['E2', 'E1'], ['E2', 'E2']]),
        'backend_order': rng.choice([['E1', 'E2'], ['E2', 'E1'], ['E2', 'E2']]),
        'touch': rng.choice(['build.bfg', 'build.bfg', 'options.bfg']),
        'backend_first': rng.random() < 0.5,
    }


def _sub(x, S):
    if isinstance(x, str):
        return x.replace('<S>', S)
    if isinstance(x, list):
        return [_sub(i, S) for i in x]
    if isinstance(x, dict):
        return {_sub(k, S): _sub(v, S) for k, v in x.items()}
    return x


def _pathdirs(tokens, S):
    out = []
    for t in tokens:
        if t in PATH_TOKENS:
            out.append(PATH_TOKENS[t])
        elif t in ('P1', 'P2', 'DECOY'):
            out.append(os.path.join(S, t.lower()))
        else:
            out.append(t)
    return out


def _script(path, text):
    with open(path, 'w') as f:
        f.write(text)
    os.chmod(path, 0o755)


def read_files(bd):
    out = {}
    for n in FILES:
        p = os.path.join(bd, n)
        if os.path.exists(p):
            with open(p, 'rb') as f:
                out[n] = f.read()
    return out


def read_snapshot(bd):
    with open(os.path.join(bd, '.bfg_environ'), 'rb') as f:
        raw = f.read()
    return raw, json.loads(raw.decode('utf-8'))


def norm_snapshot(js):
    """Semantic view of a snapshot: install-dir suffixes without the trailing
    separator that only encodes the directory flag."""
    d = copy.deepcopy(js)
    for k, v in d['data'].get('install_dirs', {}).items():
        if v:
            v[0] = _strip_slash(v[0])
    return d


def first_diff(a, b):
    la, lb = a.decode('utf-8', 'replace').split('\n'), \
        b.decode('utf-8', 'replace').split('\n')
    for i in range(max(len(la), len(lb))):
        x = la[i] if i < len(la) else '<EOF>'
        y = lb[i] if i < len(lb) else '<EOF>'
        if x != y:
            return {'line': i + 1, 'first': x[:300], 'second': y[:300]}
    return None


def read_monlog(path):
    reps = []
    if os.path.exists(path):
        with open(path) as f:
            for line in f:
                line = line.strip()
                if line:
                    try:
                        reps.append(json.loads(line))
                    except ValueError:
                        pass
    return reps


def parse_env0(out):
    d = {}
    for item in out.split('\0'):
        if not item:
            continue
        k, _, v = item.partition('=')
        d[k] = v
    return d


def _unsub(x, S):
    """Scratch paths back to the <S> placeholder (stable witnesses)."""
    if isinstance(x, str):
        return x.replace(S, '<S>').replace(S.lstrip('/'), '<S-relative>')
    if isinstance(x, (list, tuple)):
        return [_unsub(i, S) for i in x]
    if isinstance(x, dict):
        return {_unsub(k, S): _unsub(v, S) for k, v in x.items()}
    return x


def run_e2e(case, res):
    res.evaluations += 1
    S = core.mkscratch('c09e2e')
    n0 = len(res.violations)
    try:
        _run_e2e(case, res, S)
    finally:
        res.violations[n0:] = [(m, _unsub(w, S)) for m, w in res.violations[n0:]]
        if res.sample is not None:
            res.sample = _unsub(res.sample, S)
        core.rmtree(S)


def _run_e2e(case, res, S):
    from .. import proj
    bfg = os.path.join(core.VENV_BIN, 'bfg9000')
    backend = case['backend']
    if backend == 'ninja' and not os.access(os.path.join(core.BIN, 'ninja'),
                                            os.X_OK):
        res.exclude('no ninja executable for configure-time detection')
        return
    # logical spellings (through the symlink <S>/lnk -> <S>/real when the case
    # asks for it); the physical ones are what getcwd() reports inside them
    base = S
    if case.get('link'):
        os.makedirs(os.path.join(S, 'real'))
        os.symlink('real', os.path.join(S, 'lnk'))
        base = os.path.join(S, 'lnk')
    src = os.path.join(base, case['srcname'])
    bd = os.path.normpath(os.path.join(base, case['buildname']))

    def spelled(cwd_, arg):
        """The absolute spelling bfg9000 derives from a path argument: the
        process's working directory as the kernel reports it, joined lexically
        with the argument (no symlink resolution)."""
        if arg is None:
            return os.path.realpath(cwd_)
        if os.path.isabs(arg):
            return os.path.normpath(arg)
        return os.path.normpath(os.path.join(os.path.realpath(cwd_), arg))
    files = dict(PROJECT_CROSS if case.get('cross') else PROJECT)
    proj.write_tree(src, files)
    for d in ('p1', 'p2', 'decoy', 'home2', 'inst', 'sdk/include', 'poison'):
        os.makedirs(os.path.join(S, d), exist_ok=True)
    for d in ('p1', 'p2'):
        _script(os.path.join(S, d, 'mytool'), '#!/bin/sh\necho %s\n' % d)
    for n in ('vcc', 'vc++', 'cc', 'gcc', 'mytool'):
        _script(os.path.join(S, 'decoy', n),
                '#!/bin/sh\nexec %s/vclang "$@"\n' % core.BIN)
    tc_path = None
    if case['tc_ops'] is not None:
        tc_path = os.path.join(src, case['tcname'])
        os.makedirs(os.path.dirname(tc_path), exist_ok=True)
        with open(tc_path, 'w', encoding='utf-8') as f:
            f.write(render_tc(_sub(case['tc_ops'], S)))

    mon1, mon2 = os.path.join(S, 'mon1.log'), os.path.join(S, 'mon2.log')
    path1 = _pathdirs(case['path1'], S)
    e1 = core.base_env(inject=True, monitors='envmon,spawnmon')
    e1.update(_sub(case['e1'], S))
    e1['PATH'] = os.pathsep.join(path1)
    e1['BFG9000_VERIF_MONLOG'] = mon1
    path2 = _pathdirs(case['e2']['path'], S)
    e2 = core.base_env(inject=True, monitors='envmon,spawnmon')
    e2.update(_sub(case['e2']['set'], S))
    for k in case['e2']['unset']:
        e2.pop(k, None)
    e2['PATH'] = os.pathsep.join(path2)
    e2['BFG9000_VERIF_MONLOG'] = mon2

    # ---- the model: what the configuration is
    tc_ops = _sub(case['tc_ops'], S) if case['tc_ops'] is not None else []
    want_cur, which_keys = model_tc(tc_ops, e1, path1)
    alt_cur, _ = model_tc(tc_ops, e1, path2)       # classification only
    sensitive = alt_cur != want_cur
    want_init = dict(e1)

    # ---- configure under E1
    conf = case['conf']
    args = []
    if tc_path:
        args += ['--toolchain', tc_path if case['tc_arg'] == 'abs' else None]
    for k, v in conf['dirs'].items():
        args.append('--%s=%s' % (k.replace('_', '-'), _sub(v, S)))
    for flag in ('shared', 'static', 'compdb'):
        if conf[flag] is not None:
            args.append('--%s-%s' % ('enable' if conf[flag] else 'disable', flag))
    args += conf['extra']
    form = case['form']
    if form == 'frombuild':
        os.makedirs(bd, exist_ok=True)
        cwd, dirargs, sub = bd, [src], 'configure'
        exp_src, exp_bd = spelled(cwd, src), spelled(cwd, None)
    elif form == 'into':
        cwd, dirargs, sub = S, [os.path.relpath(src, S), os.path.relpath(bd, S)], \
            'configure-into'
        exp_src, exp_bd = spelled(cwd, dirargs[0]), spelled(cwd, dirargs[1])
    elif form == 'abs':
        cwd, dirargs, sub = src, [bd], 'configure'
        exp_src, exp_bd = spelled(cwd, None), spelled(cwd, bd)
    else:
        cwd, dirargs, sub = src, [os.path.relpath(bd, src)], 'configure'
        exp_src, exp_bd = spelled(cwd, None), spelled(cwd, dirargs[0])
    args = [os.path.relpath(tc_path, cwd) if a is None else a for a in args]
    exp_tc = None
    if tc_path:
        exp_tc = spelled(cwd, args[args.index('--toolchain') + 1])
    argv = [bfg, sub] + dirargs + ['--backend', backend,
                                   '--no-resolve-packages'] + args
    rc, out = core.run(argv, cwd=cwd, env=e1, timeout=120)
    wit = {'context': 'e2e', 'backend': backend, 'configure_argv': argv[1:],
           'toolchain': render_tc(tc_ops) if case['tc_ops'] is not None else None,
           'which_sensitive': sensitive}
    if rc != 0 or not os.path.exists(os.path.join(bd, '.bfg_environ')):
        res.inconclusive = 'configure failed (rc=%d): %s' % (rc, out[-600:])
        return
    res.ev('e2e:configure')
    F0 = read_files(bd)
    raw0, S0 = read_snapshot(bd)
    bf = proj.buildfile(backend)
    if bf not in F0:
        res.inconclusive = 'configure wrote no %s: %s' % (bf, out[-300:])
        return

    # the script-time program lookup is visible in the build file (else the
    # PATH perturbation could not show in it)
    tool1 = model_which('mytool', _pathdirs(case['path1'], S))
    if tool1 and tool1.encode() in F0[bf]:
        res.ev('e2e:program-lookup-in-buildfile')

    # ---- the snapshot holds what was chosen
    data = S0['data']
    res.ev('e2e:snapshot-fields-checked')
    exp_mode = [True if conf['shared'] is None else conf['shared'],
                False if conf['static'] is None else conf['static']]
    exp_dirs = {}
    for op in tc_ops:
        if op[0] == 'install_dirs':
            exp_dirs.update(op[1])
    exp_dirs.update(_sub(conf['dirs'], S))
    checks = [
        ('variables.initial', data['variables']['initial'], want_init),
        ('variables.current', data['variables']['current'], want_cur),
        ('library_mode', data['library_mode'], exp_mode),
        ('compdb', data['compdb'], True if conf['compdb'] is None else conf['compdb']),
        ('extra_args', data['extra_args'], conf['extra']),
        ('backend', data['backend'], backend),
        ('toolchain', data['toolchain']['path'] and data['toolchain']['path'][0],
         exp_tc),
        ('srcdir', _strip_slash(data['srcdir'][0]), exp_src),
        ('builddir', _strip_slash(data['builddir'][0]), exp_bd),
        ('install_dirs', {k: data['install_dirs'].get(k) and
                          [_strip_slash(data['install_dirs'][k][0]),
                           data['install_dirs'][k][1]] for k in exp_dirs},
         {k: [_strip_slash(v), 'absolute'] for k, v in exp_dirs.items()}),
    ]
    for field, have, want in checks:
        if have != want:
            detail = {'field': field, 'saved': have, 'chosen': want}
            if field.startswith('variables.'):
                keys = sorted(k for k in set(have) | set(want)
                              if have.get(k) != want.get(k))
                detail = {'field': field, 'keys': keys,
                          'saved': {k: have.get(k) for k in keys[:6]},
                          'chosen': {k: want.get(k) for k in keys[:6]}}
            res.violate(('e2e', 'configure-choice-not-saved', field.split('.')[0]),
                        dict(wit, **detail))
            return
    if ('compile_commands.json' in F0) != data['compdb']:
        res.violate(('e2e', 'configure-choice-not-saved', 'compdb-file'),
                    dict(wit, compdb=data['compdb']))
        return

    # ---- regenerate under E1, then under E2
    cwds = {'root': '/', 'scratch': S, 'builddir': bd, 'srcdir': src,
            'home2': os.path.join(S, 'home2')}
    cwd2 = cwds[case['cwd2']]
    kind2 = case['bdarg2']
    if kind2 == 'omit' and case['cwd2'] != 'builddir':
        kind2 = 'abs'
    if kind2 == 'rel-logical' and case['cwd2'] not in ('root', 'scratch'):
        kind2 = 'rel'
    if kind2 == 'abs':
        bdarg2 = bd                                        # logical spelling
    elif kind2 == 'phys':
        bdarg2 = os.path.realpath(bd)                      # physical spelling
    elif kind2 == 'rel-logical':
        bdarg2 = os.path.relpath(bd, cwd2)                 # through the link
    elif kind2 == 'omit':
        bdarg2 = None                                      # default: '.'
    else:
        bdarg2 = os.path.relpath(os.path.realpath(bd), os.path.realpath(cwd2))
    if bdarg2 is not None and case.get('trailing_slash'):
        bdarg2 = bdarg2.rstrip('/') + '/'
    bd_args = [] if bdarg2 is None else [bdarg2]
    if case.get('link'):
        res.ev('e2e:symlinked-layout')
    if spelled(cwd2, bdarg2) != exp_bd or spelled(bd, None) != exp_bd:
        # a later invocation (CLI argument, or the back end's own `regenerate
        # --lazy` from inside the directory) names the build directory by
        # another spelling than the one saved at configure time
        res.ev('e2e:builddir-named-by-another-spelling')
    run_args = [] if bdarg2 is None else ['-B', bdarg2]
    regen = 'refresh' if case['regen_alias'] else 'regenerate'
    wit.update(e2_set=_sub(case['e2']['set'], S), e2_unset=case['e2']['unset'],
               e2_path=path2, e1_path=path1, cwd2=cwd2, builddir_arg=bdarg2)
    # plain regenerations, then LAZY ones (the mode the generated build file
    # itself uses): twice through the CLI, twice triggered by the back end
    # after an input became newer.  Drift accumulates, so every stage is
    # compared with the one before, which transitively is the configure's.
    envs = {'E1': (e1, src, [bd]), 'E2': (e2, cwd2, bd_args)}
    # the later invocations under E2 start bfg9000 through ANOTHER PATH than configure did (a
    # directory holding nothing but a symbolic link to the console script): how the program
    # was called is part of "the command line of that later invocation"
    bfg2 = bfg
    if case.get('index', 0) % 2 == 0:
        alias_dir = os.path.join(os.path.dirname(bd.rstrip('/')) or '/', 'alias-bin')
        try:
            os.makedirs(alias_dir, exist_ok=True)
            if not os.path.lexists(os.path.join(alias_dir, 'bfg9000')):
                os.symlink(bfg, os.path.join(alias_dir, 'bfg9000'))
            bfg2 = os.path.join(alias_dir, 'bfg9000')
            res.ev('e2e:later-invocations-through-an-alias-path')
        except OSError:
            bfg2 = bfg
    stages = [{'name': 'E1', 'mode': 'plain', 'argv': [bfg, 'regenerate', bd]},
              {'name': 'E2', 'mode': 'plain', 'argv': [bfg2, regen] + bd_args}]
    lazy_cli, lazy_backend = [], []
    for name in case.get('lazy_order', ['E1', 'E2']):
        lazy_cli.append({'name': name, 'mode': 'lazy-cli',
                         'argv': [bfg2 if name == 'E2' else bfg, 'regenerate', '--lazy'] +
                         envs[name][2]})
    for name in case.get('backend_order', ['E2', 'E1']):
        if backend == 'make':
            argv_b = ['/usr/bin/make', '--no-print-directory', 'Makefile']
        else:
            argv_b = [os.path.join(core.BIN, 'ninja'), 'build.ninja']
        lazy_backend.append({'name': name, 'mode': 'lazy-backend', 'argv': argv_b,
                             'touch': case.get('touch', 'build.bfg')})
    stages += (lazy_backend + lazy_cli if case.get('backend_first')
               else lazy_cli + lazy_backend)
    if case.get('old_version'):
        # the snapshot rewritten the way an older release stored it, then a plain
        # regenerate under E2: same build files, same (re-saved) configuration
        stages.append({'name': 'E2', 'mode': 'old-format',
                       'argv': [bfg, 'regenerate'] + bd_args,
                       'version': case['old_version']})
    prev_files, prev_snap, prev_name, prev_raw = F0, S0, 'configure', raw0
    environ_file = os.path.join(bd, '.bfg_environ')
    for st in stages:
        name, mode = st['name'], st['mode']
        env_, cwd_ = envs[name][0], envs[name][1]
        if mode == 'old-format':
            ver = rewrite_older(environ_file, st['version'], conf, tc_ops)
            if ver is None:
                res.exclude('configuration not expressible exactly in an older '
                            'snapshot format')
                continue
            res.ev('e2e:old-format-v%d' % ver)
            st['written_version'] = ver
        if mode == 'lazy-backend':
            # the back end decides by itself: make an input newer than every
            # output, then ask it for the build file only (nothing is compiled)
            cwd_ = bd
            proj.bump(os.path.join(src, st['touch']), bd)
            # (witness that bfg9000 ran: the build file is rewritten - or, by a lazy
            # regeneration that has nothing to do, touched; .bfg_environ itself is only
            # rewritten when the configuration changed)
            primary_file = os.path.join(bd, 'Makefile' if backend == 'make' else 'build.ninja')
            before_ns = os.stat(primary_file).st_mtime_ns
            proj.settle()
        rc, out = core.run(st['argv'], cwd=cwd_, env=env_, timeout=120)
        if mode == 'lazy-backend':
            ran = os.stat(primary_file).st_mtime_ns != before_ns
            if rc != 0 and 'unable to reload environment' not in out:
                # how the back end reads its own rule (spaces in srcdir, ...)
                # is the business of C04/C08
                res.exclude('back end could not run its regeneration rule')
                res.ev('e2e:note:backend-rule-failed')
                continue
            if rc == 0 and not ran:
                res.exclude('back end saw no reason to regenerate')
                res.ev('e2e:note:backend-not-triggered')
                continue
            res.ev('e2e:backend-triggered-regeneration')
        res.ev('e2e:regenerate-' + name)
        res.ev('e2e:regenerate-%s-%s' % (mode, name))
        res.ev('e2e:regenerate-' + mode)
        Fn = read_files(bd)
        rawn, Sn = read_snapshot(bd)
        problem = None
        if rc != 0:
            problem = ('exit-status', {'rc': rc, 'output': out[-800:]})
        else:
            for fn in sorted(set(prev_files) | set(Fn)):
                res.ev('e2e:files-compared')
                if prev_files.get(fn) != Fn.get(fn):
                    d = first_diff(prev_files.get(fn, b'<absent>'),
                                   Fn.get(fn, b'<absent>'))
                    problem = ('buildfile-differs', dict(d or {}, file=fn))
                    break
            res.ev('e2e:files-compared')
            if problem is None and norm_snapshot(Sn) != norm_snapshot(prev_snap):
                a, b = norm_snapshot(prev_snap)['data'], norm_snapshot(Sn)['data']
                fields = [k for k in sorted(set(a) | set(b)) if a.get(k) != b.get(k)]
                problem = ('snapshot-differs', {'fields': fields})
            if rawn != prev_raw:
                res.ev('e2e:note:snapshot-bytes-differ-semantically-equal'
                       if problem is None else 'e2e:note:snapshot-bytes-differ')
        if problem is not None:
            mech = classify_regen(problem, name, case, Sn, S0, want_cur, alt_cur,
                                  which_keys, e2, sensitive, mode)
            res.violate(mech, dict(wit, stage='regenerate-under-' + name,
                                   mode=mode, command=st['argv'][1:],
                                   snapshot_version=st.get('written_version', 17),
                                   compared_with=prev_name, **problem[1],
                                   variables_after={
                                       k: v for k, v in
                                       Sn['data']['variables']['current'].items()
                                       if want_cur.get(k) != v},
                                   variables_chosen={
                                       k: v for k, v in want_cur.items() if
                                       Sn['data']['variables']['current'].get(k)
                                       != v}))
            if mech != FLAVOUR_MECH:
                collect_monitors(res, [mon1, mon2], wit, case, want_cur, want_init)
                return
            # the first reload turns target-flavoured install dirs into host
            # ones; later stages are compared with that reloaded form
        prev_files, prev_snap, prev_raw = Fn, Sn, rawn
        prev_name = '%s-regenerate-%s' % (mode, name)

    # ---- env / run under E2
    env_bin = '/usr/bin/env'
    rc, out = core.run([bfg, 'env'] + bd_args, cwd=cwd2, env=e2, timeout=60)
    res.ev('e2e:env')
    want_lines = sorted('%s=%s' % kv for kv in want_cur.items())
    got_lines = sorted(out.split('\n')[:-1]) if out.endswith('\n') else \
        sorted(out.split('\n'))
    if rc != 0 or got_lines != want_lines:
        res.violate(env_mechanism('env', rc, got_lines, want_lines, e2),
                    dict(wit, command='env', rc=rc,
                         unexpected=[l for l in got_lines if l not in want_lines][:6],
                         missing=[l for l in want_lines if l not in got_lines][:6]))
    for flag, want, counter in (([], want_cur, 'e2e:run'),
                                (['-I'], want_init, 'e2e:run-initial')):
        rc, out = core.run([bfg, 'run'] + flag + run_args + ['--', env_bin, '-0'],
                           cwd=cwd2, env=e2, timeout=60)
        res.ev(counter)
        got = parse_env0(out)
        if rc != 0 or got != want:
            gl = sorted('%s=%s' % kv for kv in got.items())
            wl = sorted('%s=%s' % kv for kv in want.items())
            res.violate(env_mechanism('run' + ''.join(flag), rc, gl, wl, e2),
                        dict(wit, command='run ' + ' '.join(flag), rc=rc,
                             unexpected=[l for l in gl if l not in wl][:6],
                             missing=[l for l in wl if l not in gl][:6]))
    collect_monitors(res, [mon1, mon2], wit, case, want_cur, want_init)

    nontriv = (e2['PATH'] != e1['PATH'] and e2.get('CC') != e1.get('CC') and
               e2.get('CFLAGS') != e1.get('CFLAGS'))
    res.key(['e2e', case], nontriv)
    res.classes.update(['e2e:form=' + case['form'], 'e2e:backend=' + backend,
                        'e2e:cwd2=' + case['cwd2'], 'e2e:bdarg2=' + kind2,
                        'e2e:symlinked=%s' % bool(case.get('link')),
                        'e2e:trailing-slash=%s' % bool(case.get('trailing_slash')),
                        'e2e:toolchain=%s' % (case['tc_ops'] is not None),
                        'e2e:which-sensitive=%s' % sensitive,
                        'e2e:shared=%s,static=%s' % (conf['shared'], conf['static']),
                        'e2e:compdb=%s' % conf['compdb'],
                        'e2e:undetectable-make=%s' % ('MAKE' in case['e1']),
                        'e2e:real-gcc=%s' % bool(case.get('realcc')),
                        'e2e:cross-target=%s' % case.get('cross')])
    for op in tc_ops:
        res.classes.add('tc:' + op[0])
        if op[0] in DERIVED:
            res.ev('e2e:toolchain-derived-ops')
    res.sample = {'kind': 'e2e', 'configure': argv[1:], 'toolchain':
                  wit['toolchain'], 'E2': wit['e2_set'], 'E2_PATH': path2,
                  'cwd2': cwd2, 'builddir_arg': bdarg2}


FLAVOUR_MECH = ('snapshot', 'install_dirs', 'path-flavour-not-preserved')


def rewrite_older(environ_file, version, conf, tc_ops):
    """Rewrite a v17 snapshot in place into an older format, only as far down as
    nothing is lost that the configuration holds (so that the regeneration must
    reproduce the build files byte for byte).  -> version written | None"""
    with open(environ_file) as f:
        state = json.load(f)
    if state.get('version') != 17:
        return None
    data = state['data']
    overridden = set(conf['dirs'])
    for op in tc_ops:
        if op[0] == 'install_dirs':
            overridden |= set(op[1])
    if overridden & {'datadir', 'mandir'}:
        return None                      # v16 cannot hold them
    lowest = 16
    if data['compdb'] is True and not data['mopack']:
        lowest = 14
        if all(data[i]['arch'] == _platform.machine()
               for i in ('host_platform', 'target_platform')):
            lowest = 13
    version = max(version, lowest)
    modulo = {}
    for frm in range(17, version, -1):
        downgrade_step(data, frm, modulo)
    with open(environ_file, 'w') as f:
        json.dump({'version': version, 'data': data}, f)
    return version


def classify_regen(problem, stage, case, Sn, S0, want_cur, alt_cur, which_keys, e2,
                   sensitive, mode='plain'):
    """Why did a regeneration not reproduce the configuration?  Computed from
    what was observed (classification only; the verdict is the byte compare)."""
    kind, detail = problem
    if kind == 'buildfile-differs' and case.get('cross') and \
       '\\' in detail.get('first', '') and \
       detail['first'].replace('\\', '/') == detail.get('second'):
        return FLAVOUR_MECH
    for i in ('builddir', 'srcdir'):
        if Sn['data'].get(i) != S0['data'].get(i):
            # the directory as spelled at configure time was replaced (by the
            # spelling of this invocation's argument or working directory)
            return ('e2e', 'saved-directory-respelled', i)
    # the project's system_executable('mytool'): present in several PATH dirs
    if (kind == 'exit-status' and "'mytool'" in detail['output']) or \
       (kind == 'buildfile-differs' and 'mytool' in detail.get('first', '') and
            'mytool' in detail.get('second', '')):
        return ('e2e', 'script-time-program-lookup-searches-ambient-PATH',
                'system_executable')
    cur = Sn['data']['variables']['current']
    differing = sorted(k for k in set(cur) | set(want_cur)
                       if cur.get(k) != want_cur.get(k))
    if kind == 'exit-status':
        if stage == 'E2' and sensitive and 'unable to find' in detail['output']:
            return ('e2e', 'toolchain-which-searches-ambient-PATH')
        return ('e2e', 'regenerate-failed', stage, mode)
    if differing:
        if stage == 'E2' and sensitive and \
           all(k in which_keys and cur.get(k) == alt_cur.get(k) for k in differing):
            return ('e2e', 'toolchain-which-searches-ambient-PATH')
        if stage == 'E2' and any(k in e2 and cur.get(k) == e2[k] for k in differing):
            return ('e2e', 'variables-not-restored', 'ambient-value-leaked', mode)
        return ('e2e', 'variables-not-restored', 'toolchain-replay-differs', mode)
    if 'MAKE' in case['e1'] and S0['data'].get('backend_version') == 'None':
        return ('snapshot', 'backend_version', 'None-not-preserved')
    if kind == 'snapshot-differs':
        return ('e2e', 'snapshot-differs', detail['fields'][0], mode)
    text = detail.get('second', '')
    for k in ('CC', 'CFLAGS', 'CPPFLAGS', 'LDFLAGS', 'LDLIBS', 'MYVAR'):
        if stage == 'E2' and k in e2 and e2[k] and e2[k] in text and \
           e2[k] not in detail.get('first', ''):
            return ('e2e', 'buildfile-differs', 'ambient-value-leaked', mode)
    return ('e2e', 'buildfile-differs', detail.get('file', '?'), mode)


def env_mechanism(cmd, rc, got_lines, want_lines, e2):
    if rc != 0:
        return ('e2e', 'env-output', cmd, 'exit-status')
    amb = set('%s=%s' % kv for kv in e2.items())
    extra = [l for l in got_lines if l not in want_lines]
    if extra and any(l in amb for l in extra):
        return ('e2e', 'env-output', cmd, 'ambient-value-leaked')
    return ('e2e', 'env-output', cmd, 'differs-from-saved')


COMPILERS = ('vcc', 'vc++', 'vclang', 'vclang++', 'vfc', 'gcc', 'g++', 'cc', 'c++',
             'clang', 'clang++', 'vwrap-gcc', 'vwrap-clang')
ABSENT = '<absent>'


def spawn_role(argv):
    base = os.path.basename(argv[0]) if argv else '?'
    if base in COMPILERS:
        return 'compiler'
    if base in ('var', 'ar', 'ld', 'vld'):
        return 'binutils'
    if base in ('env', 'make', 'gmake', 'ninja', 'pkg-config', 'pkgconf',
                'mopack', 'java', 'javac'):
        return base
    return 'other'


def judge_spawns(res, rep, wit, cur, init):
    """Every child of a later bfg9000 invocation sees the saved variables: for
    each name whose ambient value differs from both the saved current and the
    saved initial value, the child must not show the ambient one (absence
    counts as a value; an inherited environment is the ambient one)."""
    ambient = rep.get('ambient') or {}
    cmd = rep.get('cmd', '')
    m = re.search(r'bfg9000 (\S+(?: --lazy)?)', cmd)
    process = m.group(1) if m else cmd[-80:]
    markers = sorted(k for k in set(ambient) | set(cur) | set(init)
                     if ambient.get(k, ABSENT) != cur.get(k, ABSENT) and
                     ambient.get(k, ABSENT) != init.get(k, ABSENT))
    reported = set()
    # Calibrated on the unchanged tree: every bfg9000 invocation sorts the
    # available back ends (backends.list_backends -> <backend>.version(os.environ))
    # by probing `$MAKE|make|gmake --version`, `$NINJA|ninja|ninja-build
    # --version`, `$MSBUILD|msbuild|xbuild /version` in the ambient environment.
    # Later invocations only look the saved back end up by name in that list, so
    # the probe's answer is not an input of the regeneration.
    probes = set()
    for var, names, flag in (('MAKE', ['make', 'gmake'], '--version'),
                             ('NINJA', ['ninja', 'ninja-build'], '--version'),
                             ('MSBUILD', ['msbuild', 'xbuild'], '/version')):
        if var in ambient:
            try:
                names = names + shlex.split(ambient[var])[:1]
            except ValueError:
                names = names + [ambient[var]]
        probes.update((n, flag) for n in names)
    for sp in rep.get('spawns', []):
        res.ev('spawn:seen')
        if len(sp['argv']) == 2 and tuple(sp['argv']) in probes and \
           sp['env'] == ambient:
            res.ev('spawn:backend-discovery-probe')
            res.exclude('back-end discovery probe (list_backends) runs in the '
                        'ambient environment; its answer is unused later')
            continue
        if '-Wp,-v' in sp['argv']:
            res.ev('spawn:extra-env-probe-seen')
        if not markers:
            res.ev('spawn:ambient-equals-saved')
            continue
        res.ev('spawn:judged')
        if '-Wp,-v' in sp['argv']:
            res.ev('spawn:extra-env-probe-judged')
        role = spawn_role(sp['argv'])
        res.classes.add('spawn:' + role)
        env = sp['env']
        if env is None:
            leaked = markers
            how = 'inherited'
        else:
            res.ev('spawn:marker-comparisons', len(markers))
            leaked = [k for k in markers
                      if env.get(k, ABSENT) == ambient.get(k, ABSENT)]
            how = 'mapping'
        if leaked and (role, how) not in reported:
            reported.add((role, how))
            res.violate(('spawn', 'child-saw-ambient-variable', role), {
                'context': 'e2e', 'process': process, 'child_argv': sp['argv'],
                'child_env': how, 'leaked': leaked[:10],
                'ambient': {k: ambient.get(k, ABSENT) for k in leaked[:6]},
                'saved_current': {k: cur.get(k, ABSENT) for k in leaked[:6]},
                'saved_initial': {k: init.get(k, ABSENT) for k in leaked[:6]},
                'toolchain': wit.get('toolchain'),
                'configure_argv': wit.get('configure_argv')})


def collect_monitors(res, logs, wit, case, want_cur=None, want_init=None):
    """Reports of the in-process monitors from every bfg9000 process."""
    for log in logs:
        for rep in read_monlog(log):
            if rep.get('monitor') == 'spawnmon' and want_cur is not None:
                res.ev('spawn:process-reports')
                judge_spawns(res, rep, wit, want_cur, want_init)
                continue
            if rep.get('monitor') != 'envmon':
                continue
            res.ev('mon:subject-reports')
            evals = rep.get('evals', {})
            res.ev('mon:subject-evals', sum(evals.values()))
            res.ev('mon:toolchain-mutations',
                   sum(n for op, n in evals.items()
                       if op not in ('__init__', 'from_json',
                                     'skipped-after-violation')))
            for op, n in evals.items():
                res.ev('mon:inv:' + op, n)
            for law, detail in rep.get('violations', []):
                cmd = rep.get('cmd', '')
                m = re.search(r'bfg9000 (\S+)', cmd)
                res.violate(('envvardict', law, detail.get('op', '?')),
                            dict(detail, context='e2e',
                                 process=m.group(1) if m else cmd[-80:],
                                 toolchain=wit.get('toolchain'),
                                 configure_argv=wit.get('configure_argv')))


# ==========================================================================

def cases(tier, seed):
    q = tier == 'quick'
    n_e2e = 48 if q else 480
    n_rt, rt_chunk = (160, 20) if q else (3200, 50)
    n_seq, seq_chunk = (1200, 100) if q else (24000, 500)
    rng = core.rng_for(seed, 'c09', 'rt')
    for i in range(0, n_rt, rt_chunk):
        yield {'kind': 'roundtrip', 'configs': [gen_config(rng)
                                                for _ in range(rt_chunk)]}
    rng = core.rng_for(seed, 'c09', 'ops')
    for i in range(0, n_seq, seq_chunk):
        yield {'kind': 'ops', 'seqs': [gen_seq(rng) for _ in range(seq_chunk)]}
    rng = core.rng_for(seed, 'c09', 'e2e')
    for i in range(n_e2e):
        yield gen_e2e(rng, i)


def run_case(case):
    core.use_repo_in_process()
    res = CaseResult()
    res.evaluations = 0
    kind = case['kind']
    if kind == 'ops':
        run_ops(case, res)
    elif kind == 'roundtrip':
        run_roundtrip(case, res)
    elif kind == 'e2e':
        run_e2e(case, res)
    else:
        raise ValueError(kind)
    return res
