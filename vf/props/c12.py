"""C12 - Path algebra: normalised, root-confined, invertible, separator-agnostic.

Workload: complete enumeration of path strings of <= N components over a small
component alphabet x separators x prefixes x trailing separator x roots x both
flavours, plus seeded random longer strings.  Oracles:
  * an independent 30-line stack model of path normalisation (this file),
    cross-checked against posixpath.normpath;
  * icontract postconditions attached to the real BasePath methods
    (vf/mon/pathlaws.py), evaluated on every call the workload and the
    implementation itself make;
  * posixpath/ntpath joining for string(); a component-list model for
    commonprefix/uniquetrees.
"""
import itertools
import ntpath
import posixpath
import re

from .. import core
from ..core import CaseResult

LEVEL = 'exploration'
MODE = 'process'
RULE = ('every path string = prefix{none,/,C:/,C: (drive-relative)} + <=N components '
        'over {"",".","..","a","b.c","d e"} joined by {/,\\,alternating} + optional '
        'trailing separator, for every root (3 Roots, 7 InstallRoots, 4 base Paths) '
        'and both flavours, enumerated completely (N=3 quick, N=4 thorough) + seeded '
        'random strings of 5-8 components; distinct = (flavour, root, string); '
        'non-trivial = the string contains "..", ".", an empty component, a '
        'backslash, a drive or a trailing separator; set laws (commonprefix, '
        'uniquetrees) on seeded pairs and triples of accepted paths')
ASSUMPTIONS = [
    'posixpath/ntpath (CPython 3.12) are the reference for "ordinary path joining"',
    'paths starting with two or more separators (POSIX implementation-defined //, UNC) '
    'are outside the normalisation law and only checked for no-crash + JSON round trip',
    '~ components are not generated (outside the quantifier)',
    'drive-relative strings (C:a) may be rejected: the documented behaviour',
]
EXTRA_COVERAGE = {'exhaustive': True,
                  'exhaustive_scope': 'the enumerated string space described in rule '
                                      '(not the random part, not the set laws)'}

COMPONENTS = ['', '.', '..', 'a', 'b.c', 'd e']
PREFIXES = ['', '/', 'C:/', 'C:']
SEPS = ['/', '\\', 'alt']
ROOTS = ['srcdir', 'builddir', 'absolute', 'prefix', 'exec_prefix', 'bindir',
         'libdir', 'includedir', 'datadir', 'mandir',
         'base:x/y:srcdir', 'base::builddir', 'base:/r/s:absolute',
         'base:C:/r:absolute', 'base:lib/z:libdir']


def floors(tier):
    return {'construct': 20000, 'contract:init.normal': 20000,
            'contract:parent.inverse': 2000, 'contract:json.roundtrip': 2000,
            'contract:relpath.inverse': 1000, 'contract:eq.hash': 2000,
            'law:string': 2000, 'law:append': 5000, 'law:commonprefix': 300,
            'law:uniquetrees': 300, 'distinct_nontrivial': 5000,
            'suite-contract:init.normal': 1000}


# --------------------------------------------------------------------------
# generation

def render(prefix, comps, sep, trailing):
    if sep == 'alt':
        out = ''
        for i, c in enumerate(comps):
            if i:
                out += '/' if i % 2 else '\\'
            out += c
    else:
        out = sep.join(comps)
    if trailing:
        out += '\\' if sep == '\\' else '/'
    pre = prefix.replace('/', '\\') if sep == '\\' else prefix
    return pre + out


def all_strings(maxn):
    seen = set()
    for n in range(0, maxn + 1):
        for comps in itertools.product(COMPONENTS, repeat=n):
            for prefix in PREFIXES:
                for sep in SEPS:
                    if n < 2 and sep == 'alt':
                        continue
                    for trailing in (False, True):
                        s = render(prefix, comps, sep, trailing)
                        if s not in seen:
                            seen.add(s)
                            yield s


def random_strings(rng, count):
    names = COMPONENTS + ['x', 'y.tar.gz', ' ', 'é', '...', 'a b c', '-', '$v']
    for _ in range(count):
        n = rng.randint(5, 8)
        comps = [rng.choice(names) for _ in range(n)]
        yield render(rng.choice(PREFIXES + ['', '']), comps, rng.choice(SEPS),
                     rng.random() < 0.3)


def cases(tier, seed):
    # the repository's own unit tests as one more workload for the contracts
    yield {'kind': 'suite', 'flavor': '-', 'root': '-', 'strings': [],
           'tests': (['test/unit/test_path.py', 'test/unit/platforms',
                      'test/unit/builtins/test_path.py', 'test/unit/builtins/test_install.py',
                      'test/unit/builtins/test_find.py', 'test/unit/test_glob.py']
                     if tier == 'quick' else ['test/unit'])}
    # set laws on names that extend one another by a character sorting below or above
    # '/' (src, src.old, src-2, src gen, srcx, src/lib): string order != component order
    setc = ['a', 'a.b', 'a b', 'a-1', 'a+', 'ab', 'a~', 'b']
    pool = [''] + setc + ['%s/%s' % (x, y) for x in setc for y in setc] + \
        ['a/a/%s' % x for x in setc] + ['/' + x for x in setc] + \
        ['/%s/%s' % (x, y) for x in setc[:4] for y in setc[:4]] + ['C:/a', 'C:/a.b', 'C:/a/b']
    for flavor in ('posix', 'windows'):
        for root in ('srcdir', 'absolute', 'bindir', 'base:x/y:srcdir'):
            for part in range(2 if tier == 'quick' else 8):
                yield {'flavor': flavor, 'root': root, 'kind': 'sets', 'strings': pool,
                       'setseed': '%d/sets/%s/%s/%d' % (seed, flavor, root, part),
                       'sets': 250}
    maxn = 3 if tier == 'quick' else 4
    strings = list(all_strings(maxn))
    rng = core.rng_for(seed, 'c12')
    nrand = 1500 if tier == 'quick' else 20000
    strings_r = list(random_strings(rng, nrand))
    chunk = 400
    idx = 0
    for flavor in ('posix', 'windows'):
        for root in ROOTS:
            for kind, pool in (('enum', strings), ('rand', strings_r)):
                for i in range(0, len(pool), chunk):
                    idx += 1
                    yield {'flavor': flavor, 'root': root, 'kind': kind,
                           'strings': pool[i:i + chunk],
                           'setseed': '%d/%d' % (seed, idx),
                           'sets': 12 if tier == 'quick' else 40}


# --------------------------------------------------------------------------
# the independent model

def model_split(s):
    """-> (drive, absolute?, components, isdir, unc?)"""
    t = s.replace('\\', '/')
    unc = t.startswith('//')
    drive = ''
    if t[1:2] == ':':
        drive, t = t[:2], t[2:]
    absolute = t.startswith('/')
    comps = [c for c in t.split('/')]
    last = comps[-1] if comps else ''
    isdir = last in ('', '.', '..')
    return drive, absolute, [c for c in comps if c not in ('', '.')], isdir, unc


def model_construct(s, root):
    """root: (rootname, base_drive, base_abs, base_comps).
    -> ('ok', rootname, suffix, isdir) | ('reject', why) | ('skip', why)"""
    rootname, bdrive, babs, bcomps = root
    drive, absolute, comps, isdir, unc = model_split(s)
    if unc:
        return ('skip', 'unc')
    if drive and not absolute:
        return ('reject', 'drive-relative')
    if absolute:
        rootname = 'absolute'
        stack = []
    else:
        if rootname == 'absolute' and bcomps is None:
            return ('reject', 'not-absolute')
        stack = list(bcomps or [])
        drive, absolute = bdrive, babs
    for c in comps:
        if c == '..':
            if stack:
                stack.pop()
            elif absolute:
                pass          # /.. is /
            else:
                return ('reject', 'escape')
        else:
            stack.append(c)
    suffix = drive + ('/' if absolute else '') + '/'.join(stack)
    return ('ok', rootname, suffix, isdir or (not stack))


def parse_root(rootspec, P):
    from bfg9000.platforms.basepath import Root, InstallRoot
    if rootspec.startswith('base:'):
        _, rest = rootspec.split(':', 1)
        suffix, rootname = rest.rsplit(':', 1)
        r = Root[rootname] if rootname in Root.__members__ else InstallRoot[rootname]
        base = P(suffix, r)
        drive, absolute, comps, _, _ = model_split(suffix)
        return base, (rootname, drive, absolute, comps)
    r = Root[rootspec] if rootspec in Root.__members__ else InstallRoot[rootspec]
    return r, (rootspec, '', False, None)


def comps_of(p):
    """Component list of a real path, incl. a marker for drive+root."""
    from ..mon.pathlaws import split_drive
    drive, rest = split_drive(p.suffix)
    if rest.startswith('/'):
        return [drive + '/'] + [c for c in rest[1:].split('/') if c]
    return [c for c in rest.split('/') if c]


def nontrivial(s):
    t = s.replace('\\', '/')
    parts = t.split('/')
    return ('\\' in s or '..' in parts or '.' in parts or '' in parts[:-1] or
            t.endswith('/') or t[1:2] == ':' or t.startswith('/'))


# --------------------------------------------------------------------------

def variables_for(flavor, P, rooty=False):
    from bfg9000.platforms.basepath import Root, InstallRoot, DestDir
    if rooty:
        # base directories that ARE root directories (a project at the top of a drive, a
        # package installed with --prefix=/)
        src, bld, pre = ('/', '/b', '/') if flavor == 'posix' else ('C:/', 'D:/b', 'C:/')
    elif flavor == 'posix':
        src, bld, pre = '/s r c/proj', '/b/uild', '/usr/lo cal'
    else:
        src, bld, pre = 'C:/s r c/proj', 'D:/b/uild', 'C:/Program Files/x'
    real = {
        Root.srcdir: P(src, Root.absolute), Root.builddir: P(bld, Root.absolute),
        InstallRoot.prefix: P(pre, Root.absolute),
        InstallRoot.exec_prefix: P('', InstallRoot.prefix),
        InstallRoot.bindir: P('bin', InstallRoot.exec_prefix),
        InstallRoot.libdir: P('lib', InstallRoot.exec_prefix),
        InstallRoot.includedir: P('include', InstallRoot.prefix),
        InstallRoot.datadir: P('share', InstallRoot.prefix),
        InstallRoot.mandir: P('man', InstallRoot.datadir),
    }
    pj = pre.rstrip('/')
    strs = {
        'srcdir': src, 'builddir': bld, 'prefix': pre, 'exec_prefix': pre,
        'bindir': pj + '/bin', 'libdir': pj + '/lib',
        'includedir': pj + '/include', 'datadir': pj + '/share',
        'mandir': pj + '/share/man',
    }
    return real, strs


def expected_string(flavor, strs, rootname, suffix):
    if rootname == 'absolute':
        joined = suffix
    else:
        joined = posixpath.join(strs[rootname], suffix) if suffix else strs[rootname]
    if flavor == 'posix':
        return posixpath.normpath(joined)
    return ntpath.normpath(joined.replace('/', '\\'))


def run_suite_case(case):
    """Run (part of) the project's own test suite with the Path contracts
    attached inside the pytest process (vf/inject/sitecustomize.py)."""
    import json
    import os
    res = CaseResult()
    monlog = os.path.join(core.mkscratch('c12suite'), 'monlog')
    env = core.base_env({'BFG9000_VERIF_ROLE': 'pytest',
                         'BFG9000_VERIF_MONLOG': monlog}, inject=True, monitors='pathlaws')
    rc, out = core.run([core.PY, '-m', 'pytest', '-q', '-p', 'no:cacheprovider',
                        '--continue-on-collection-errors', '-q'] + case['tests'],
                       cwd=core.REPO, env=env, timeout=900)
    res.evaluations = 1
    res.key(['suite'] + case['tests'], True)
    try:
        with open(monlog) as f:
            reports = [json.loads(line) for line in f]
    except OSError:
        res.inconclusive = 'no monitor report from the pytest process: ' + out[-300:]
        return res
    for rep in reports:
        for law, n in rep.get('evals', {}).items():
            res.ev('suite-contract:' + law, n)
        for law, detail in rep.get('violations', []):
            res.violate(('contract-in-own-test-suite', law),
                        dict(detail, tests=case['tests']))
    res.sample = {'kind': 'suite', 'tests': case['tests'],
                  'contract_evaluations': sum(sum(r.get('evals', {}).values())
                                              for r in reports)}
    return res


def run_case(case):
    if case.get('kind') == 'suite':
        return run_suite_case(case)
    core.use_repo_in_process()
    from ..mon import pathlaws
    pathlaws.install()
    from bfg9000.platforms.posix import PosixPath
    from bfg9000.platforms.windows import WindowsPath
    from bfg9000 import path as bpath
    from bfg9000.platforms.basepath import Root

    res = CaseResult()
    flavor = case['flavor']
    P = PosixPath if flavor == 'posix' else WindowsPath
    rootobj, rootmodel = parse_root(case['root'], P)
    variables, varstrs = variables_for(flavor, P)
    rvariables, rvarstrs = variables_for(flavor, P, rooty=True)
    before = dict(pathlaws.EVALS)
    accepted = []
    res.evaluations = 0

    def sub(s):
        return {'flavor': flavor, 'root': case['root'], 'kind': case['kind'],
                'strings': [s], 'setseed': case['setseed'], 'sets': 0}

    for s in case['strings']:
        res.evaluations += 1
        res.ev('construct')
        res.key([flavor, case['root'], s], nontrivial(s))
        exp = model_construct(s, rootmodel)
        try:
            p = P(s, rootobj)
            got = ('ok', p.root.name, p.suffix, bool(p.directory))
        except ValueError as e:
            p = None
            got = ('reject', str(e))
        except Exception as e:
            res.violate(('construct', 'crash', type(e).__name__),
                        {'string': s, 'root': case['root'], 'flavor': flavor,
                         'error': repr(e), '__case__': sub(s)})
            continue
        if exp[0] == 'skip':
            res.exclude('unc-or-double-slash')
            res.ev('construct:unc-nocrash')
            if p is not None:
                try:
                    if not (P.from_json(p.to_json()) == p):
                        res.violate(('json', 'unc'), {'string': s, 'root': case['root'],
                                                      'flavor': flavor, '__case__': sub(s)})
                except ValueError:
                    res.violate(('json', 'unc-raises'),
                                {'string': s, 'root': case['root'], 'flavor': flavor,
                                 '__case__': sub(s)})
            continue
        if exp[0] == 'reject':
            res.ev('construct:model-reject')
            if got[0] != 'reject':
                res.violate(('construct', 'accepted-' + exp[1]),
                            {'string': s, 'root': case['root'], 'flavor': flavor,
                             'expected': exp, 'got': got, '__case__': sub(s)})
            continue
        res.ev('construct:model-accept')
        if got[0] == 'reject':
            res.violate(('construct', 'spurious-reject',
                         'drive' if (s.replace('\\', '/')[1:2] == ':' or
                                     rootmodel[1]) else 'nodrive'),
                        {'string': s, 'root': case['root'], 'flavor': flavor,
                         'expected': exp, 'got': got, '__case__': sub(s)})
            continue
        if got != exp:
            which = [n for n, a, b in zip(('', 'root', 'suffix', 'directory'),
                                          got, exp) if a != b]
            res.violate(('construct', 'differs-from-model') + tuple(which) +
                        (('drive',) if (s.replace('\\', '/')[1:2] == ':' or
                                        rootmodel[1]) else ()),
                        {'string': s, 'root': case['root'], 'flavor': flavor,
                         'expected': exp, 'got': got, '__case__': sub(s)})
            continue
        # posixpath agreement on the drive-less, non-escaping part
        accepted.append((s, p))

        # ---- separator agnosticism
        for alt in (s.replace('\\', '/'), s.replace('/', '\\')):
            if alt == s:
                continue
            res.ev('law:separator')
            try:
                q = P(alt, rootobj)
                same = (q == p and hash(q) == hash(p) and
                        bool(q.directory) == bool(p.directory))
            except ValueError:
                same = False
            if not same:
                res.violate(('separator',), {'string': s, 'alt': alt,
                                             'root': case['root'], 'flavor': flavor,
                                             '__case__': sub(s)})

        # ---- whatever else two spellings have in common: paths that compare equal hash
        # equally, and equality is symmetric (letter case of drives, servers and components;
        # nothing is demanded about WHETHER they are equal)
        for alt in (s.swapcase(), s[:3].swapcase() + s[3:], s.upper()):
            if alt == s:
                continue
            try:
                q = P(alt, rootobj)
            except ValueError:
                continue
            res.ev('law:eq-implies-hash:case-alternate')
            e1, e2 = (q == p), (p == q)
            if e1 != e2 or (e1 and hash(q) != hash(p)) or (e1 and len({p, q}) != 1):
                res.violate(('equality', 'disagrees-with-hash' if e1 == e2 else 'asymmetric',
                             'case-alternate'),
                            {'string': s, 'alt': alt, 'root': case['root'], 'flavor': flavor,
                             'equal': [e1, e2], 'hashes_equal': hash(q) == hash(p),
                             '__case__': sub(s)})

        # ---- laws exercised through the API (contracts watch each call)
        drive_in_play = p.has_drive()
        try:
            if comps_of(p) and not (p.root == Root.absolute and
                                    len(comps_of(p)) == 1):
                par = p.parent()
                res.ev('law:parent')
                # model: parent's components are ours minus the last
                if comps_of(par) != comps_of(p)[:-1]:
                    res.violate(('parent', 'wrong-components'),
                                {'string': s, 'root': case['root'], 'flavor': flavor,
                                 'parent': par.suffix, '__case__': sub(s)})
            p.to_json()
            for a_s in ('', 'a', 'a/q', 'zz/../d e'):
                try:
                    a = P(a_s, rootobj)
                except ValueError:
                    continue
                if a.root != p.root:
                    continue
                rel = p.relpath(a)
                res.ev('law:relpath')
                back = a.append(rel)
                if back.suffix != p.suffix or back.root != p.root:
                    res.violate(('relpath', 'not-inverse') +
                                (('drive',) if drive_in_play else ()),
                                {'string': s, 'start': a_s, 'rel': rel,
                                 'root': case['root'], 'flavor': flavor,
                                 'back': back.suffix, '__case__': sub(s)})
        except Exception as e:
            res.violate(('api', 'raised', type(e).__name__) +
                        (('drive',) if drive_in_play else ()),
                        {'string': s, 'root': case['root'], 'flavor': flavor,
                         'error': repr(e), 'suffix': p.suffix,
                         '__case__': sub(s)})

        # ---- append(t) agrees with the model of "construct t under p"
        prng = core.rng_for(0, 'c12app', case['setseed'], s)
        cp = comps_of(p)
        pdrive, pabs, pcomps = '', False, cp
        if cp and cp[0].endswith('/'):
            pdrive, pabs, pcomps = cp[0][:-1], True, cp[1:]
        for t in [prng.choice(case['strings']) for _ in range(2)] + ['..', '../..']:
            expa = model_construct(t, (p.root.name, pdrive, pabs, pcomps))
            if expa[0] == 'skip':
                continue
            res.ev('law:append')
            try:
                r = p.append(t)
                gota = ('ok', r.root.name, r.suffix)
            except ValueError as e:
                gota = ('reject', str(e))
            if (expa[0] == 'reject') != (gota[0] == 'reject') or \
               (expa[0] == 'ok' and gota[:3] != expa[:3]):
                res.violate(('append', 'differs-from-model') +
                            (('drive',) if (pdrive or t.replace('\\', '/')[1:2] == ':')
                             else ()),
                            {'string': s, 'arg': t, 'root': case['root'],
                             'flavor': flavor, 'expected': expa, 'got': gota,
                             '__case__': dict(sub(s), strings=[s, t])})

        # ---- string() == ordinary joining
        for vname, v, vs in (('paths', variables, varstrs),
                             ('strings', {k: varstrs[k.name] if flavor == 'posix' else
                                          varstrs[k.name].replace('/', '\\')
                                          for k in variables}, varstrs),
                             ('paths-root-bases', rvariables, rvarstrs)):
            res.ev('law:string')
            try:
                real = p.string(v)
            except Exception as e:
                real = 'EXC ' + repr(e)
            want = expected_string(flavor, vs, p.root.name, p.suffix)
            norm = (posixpath.normpath(real) if flavor == 'posix'
                    else ntpath.normpath(real)) if not real.startswith('EXC') else real
            if norm != want or (flavor == 'windows' and '/' in real) or \
               (real != norm and real.rstrip('/\\') != norm.rstrip('/\\')):
                res.violate(('string', vname),
                            {'string': s, 'root': case['root'], 'flavor': flavor,
                             'got': real, 'want': want, '__case__': sub(s)})

        # ---- ... and with a staging directory: DESTDIR + ordinary joining (POSIX install
        # roots and absolute paths; an empty suffix - the root directory itself - included)
        if flavor == 'posix' and case['root'] not in ('srcdir', 'builddir'):
            from bfg9000.platforms.basepath import DestDir
            stage = '/st age'
            try:
                pd = P(s, rootobj, destdir=True)
                # (every base given as a string, the way a back end gives them as variables:
                # realize() then returns the joined text)
                vd = {k: varstrs[k.name] for k in variables}
                vd[DestDir.destdir] = stage
                real = pd.realize(vd)
                if not isinstance(real, str):
                    real = 'EXC not a string: ' + repr(real)
            except Exception as e:
                real = 'EXC ' + repr(e)
            res.ev('law:string-destdir')
            want = stage + expected_string(flavor, varstrs, p.root.name, p.suffix)
            if real.startswith('EXC') or posixpath.normpath(real) != posixpath.normpath(want):
                res.violate(('string', 'destdir'),
                            {'string': s, 'root': case['root'], 'flavor': flavor,
                             'got': real, 'want': want, '__case__': sub(s)})

    # ---- set laws on seeded pairs/triples of accepted paths
    rng = core.rng_for(0, 'c12sets', case['setseed'])
    for _ in range(case['sets'] if len(accepted) >= 2 else 0):
        k = rng.choice((2, 2, 3))
        pick = [rng.choice(accepted) for _ in range(k)]
        ps = [p for _, p in pick]
        names = [s for s, _ in pick]
        cl = [comps_of(p) for p in ps]
        wit = {'strings': names, 'root': case['root'], 'flavor': flavor,
               '__case__': {'flavor': flavor, 'root': case['root'],
                            'kind': case['kind'], 'strings': names,
                            'setseed': case['setseed'], 'sets': 60}}
        firsts = set(c[0] for c in cl if c and c[0].endswith('/'))
        if len(firsts) > 1:
            res.exclude('different-drives')
            continue
        res.ev('law:commonprefix')
        lcp = []
        for tup in zip(*cl):
            if len(set(tup)) == 1:
                lcp.append(tup[0])
            else:
                break
        try:
            cp = bpath.commonprefix(ps)
            gotc = None if cp is None else (cp.root.name, comps_of(cp))
        except Exception as e:
            gotc = ('EXC', repr(e))
        wantc = (ps[0].root.name, lcp) if len(set(p.root for p in ps)) == 1 else None
        if gotc != wantc:
            res.violate(('commonprefix',
                         'raised' if gotc and gotc[0] == 'EXC' else 'wrong',
                         'absolute' if ps[0].root == Root.absolute else 'relative'),
                        dict(wit, got=gotc, want=wantc))
        res.ev('law:uniquetrees')
        try:
            ut = bpath.uniquetrees(ps)
        except Exception as e:
            res.violate(('uniquetrees', 'raised'), dict(wit, error=repr(e)))
            continue
        utc = [(p.root.name, comps_of(p)) for p in ut]

        def covers(a, b):   # a ancestor-or-self of b
            return a[0] == b[0] and b[1][:len(a[1])] == a[1]
        allc = [(p.root.name, comps_of(p)) for p in ps]
        problems = []
        if any(not any(u is p for p in ps) for u in ut):
            problems.append('not-subset')
        if any(not any(covers(u, m) for u in utc) for m in allc):
            problems.append('not-covering')
        for i, a in enumerate(utc):
            for j, b in enumerate(utc):
                if i != j and covers(a, b):
                    problems.append('not-minimal')
        if problems:
            res.violate(('uniquetrees', sorted(set(problems))[0],
                         'absolute' if any(p.root == Root.absolute for p in ps)
                         else 'relative'),
                        dict(wit, got=utc, problems=sorted(set(problems))))

    for law, detail in pathlaws.drain():
        mech = ('contract', law)
        txt = repr(detail)
        if re.search(r"'suffix': '[^/']:", txt):
            mech += ('drive',)
        res.violate(mech, dict(detail, root=case['root'], flavor=flavor,
                               strings=case['strings'][:5] if
                               len(case['strings']) <= 5 else '(batch)'))
    for law, n in pathlaws.EVALS.items():
        d = n - before.get(law, 0)
        if d:
            res.ev('contract:' + law, d)
    if case['strings']:
        s = case['strings'][len(case['strings']) // 2]
        res.sample = {'flavor': flavor, 'root': case['root'], 'string': s,
                      'model': model_construct(s, rootmodel)}
    res.classes.update([flavor, 'root:' + case['root'].split(':')[0],
                        'kind:' + case['kind']])
    return res
