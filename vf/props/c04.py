"""C04 - File names with special characters denote the same file in the build tool."""
import itertools
import os
import re

from .. import core, proj
from ..core import CaseResult

LEVEL = 'exploration'
MODE = 'thread'
SPECIALS = list(' \'"$#%&()*?[]:,@!+~{};=|<>^`-.')
RULE = ('path components n<c>m / <c>m / n<c> for every special character c in '
        + repr(''.join(SPECIALS)) + ' plus two-special combinations and seeded random names, each '
        'placed in the roles source file, source directory, build_step output + consumer, '
        'copy_file output, executable name, output directory (sentinel), find_files directory and '
        'submodule directory of a generated project; every name is first CALIBRATED per tool with a '
        'hand-written reference build file (textbook escapings; admitted if any makes the tool '
        'create the file, stay quiet on the second run and notice a touched prerequisite); then real '
        'bfg9000 configure + build / no-op build / touch / clean are observed on disk and through '
        'the recording stubs; distinct = (backend, role, name); non-trivial = every generated name')
ASSUMPTIONS = [
    'calibration bounds the demand by what GNU make 4.3 / the reference Ninja evaluator can '
    'express on this machine; names no reference rendering achieves are excluded for that tool '
    'and counted',
    'builds are started through `all`, never with the hostile name as a goal',
    'backslash and a leading one-letter-plus-colon are never generated (separator / drive)',
]
ROLES = ['srcfile', 'srcdir', 'stepout', 'copyout', 'exename', 'outdir', 'finddir', 'subdir',
         'rootpath']


def floors(tier):
    f = {'role:' + r: 10 for r in ROLES}
    f['calibrated:admitted'] = 40
    f['distinct_nontrivial'] = 100
    return f


# --------------------------------------------------------------------------
# calibration: can the tool itself represent this name?

_calib = {}
MAKE_SPECIAL = set(' #%:;=*?[]~|&$()\'"`<>!{}^,@+')


def _make_variants(name):
    sp = []
    for c in name:
        if c in MAKE_SPECIAL and c not in sp and c != '$':
            sp.append(c)
    sp = sp[:3]
    for mask in itertools.product((False, True), repeat=len(sp)):
        esc = {c for c, m in zip(sp, mask) if m}
        yield ''.join(('$$' if c == '$' else '\\' + c if c in esc else c) for c in name)


def _shq(s):
    return "'" + s.replace("'", "'\\''") + "'"


def calibrate(backend, name):
    key = (backend, name)
    if key in _calib:
        return _calib[key]
    root = core.mkscratch('calib')
    ok = False
    try:
        T, P = name + '.out', name + '.in'
        env = core.base_env()
        if backend == 'make':
            variants = list(_make_variants(T))
            pvars = list(_make_variants(P))
            for tv, pv in zip(variants, pvars):
                d = os.path.join(root, 'v%d' % variants.index(tv))
                os.makedirs(d)
                with open(os.path.join(d, 'Makefile'), 'w') as f:
                    f.write('all: %s\n%s: %s\n\tcp -- %s %s\n' %
                            (tv, tv, pv, _shq(P).replace('$', '$$'), _shq(T).replace('$', '$$')))
                if _calib_run(d, ['make', '--no-print-directory'], T, P, env):
                    ok = True
                    break
        else:
            def nesc(s):
                return re.sub(r'([$ :])', r'$\1', s)
            if '|' not in name and '\n' not in name:
                d = os.path.join(root, 'n')
                os.makedirs(d)
                with open(os.path.join(d, 'build.ninja'), 'w') as f:
                    f.write('rule cp\n  command = cp -- $in $out\nbuild %s: cp %s\ndefault %s\n'
                            % (nesc(T), nesc(P), nesc(T)))
                ok = _calib_run(d, [os.path.join(core.BIN, 'ninja')], T, P, env)
    finally:
        core.rmtree(root)
    _calib[key] = ok
    return ok


def calibrate_root(backend, name):
    """Can the tool build from/into directories whose *absolute path* contains
    this name (written once into a variable, as a build file generator would)?"""
    key = (backend, 'root', name)
    if key in _calib:
        return _calib[key]
    base = core.mkscratch('calibr')
    ok = False
    try:
        root = os.path.join(base, name + '.root')
        sdir, bdir = os.path.join(root, 's'), os.path.join(root, 'b')
        try:
            os.makedirs(sdir)
            os.makedirs(bdir)
        except OSError:
            _calib[key] = False
            return False
        env = core.base_env()
        if backend == 'make':
            for k, sv in enumerate(_make_variants(sdir)):
                for f in os.listdir(bdir):
                    os.remove(os.path.join(bdir, f))
                # in a variable *value* only # needs a backslash; in prerequisites the
                # expanded text is parsed again, so try the variable and the literal path
                val = sdir.replace('$', '$$').replace('#', '\\#')
                with open(os.path.join(bdir, 'Makefile'), 'w') as f:
                    f.write('srcdir := %s\nall: out.txt\nout.txt: %s/in.txt\n\tcp -- %s out.txt\n'
                            % (val, sv, _shq(os.path.join(sdir, 'in.txt')).replace('$', '$$')))
                if _calib_run_at(bdir, ['make', '--no-print-directory'], 'out.txt',
                                 os.path.join(sdir, 'in.txt'), env):
                    ok = True
                    break
        else:
            def nesc(s):
                return re.sub(r'([$ :])', r'$\1', s)
            if '|' not in name:
                with open(os.path.join(bdir, 'build.ninja'), 'w') as f:
                    f.write('srcdir = %s\nrule cp\n  command = cp -- $in $out\n'
                            'build out.txt: cp %s/in.txt\ndefault out.txt\n'
                            % (sdir.replace('$', '$$'), nesc(sdir)))
                ok = _calib_run_at(bdir, [os.path.join(core.BIN, 'ninja')], 'out.txt',
                                   os.path.join(sdir, 'in.txt'), env)
    finally:
        core.rmtree(base)
    _calib[key] = ok
    return ok


def _calib_run_at(d, argv, T, Pabs, env):
    with open(Pabs, 'w') as f:
        f.write('1')
    proj.settle()
    rc, out = core.run(argv, cwd=d, env=env, timeout=60)
    tp = os.path.join(d, T)
    if rc != 0 or not os.path.isfile(tp):
        return False
    m1 = os.stat(tp).st_mtime_ns
    proj.settle()
    rc, out = core.run(argv, cwd=d, env=env, timeout=60)
    if rc != 0 or os.stat(tp).st_mtime_ns != m1:
        return False
    proj.bump(Pabs, d)
    rc, out = core.run(argv, cwd=d, env=env, timeout=60)
    return rc == 0 and os.stat(tp).st_mtime_ns != m1


def calibrate_depfile(backend, name):
    """Can a *depfile* of this tool name a prerequisite called like this?
    (Make includes the find depfile as Makefile text: same as calibrate().)"""
    if backend == 'make':
        return calibrate(backend, name)
    key = (backend, 'depfile', name)
    if key in _calib:
        return _calib[key]
    root = core.mkscratch('calibd')
    ok = False
    try:
        P = name + '.in'
        sp = [c for c in dict.fromkeys(name) if c in MAKE_SPECIAL][:3]
        env = core.base_env()
        for k, mask in enumerate(itertools.product((False, True), repeat=len(sp))):
            esc = {c for c, m in zip(sp, mask) if m}
            dep = ''.join(('$$' if c == '$' and c in esc else '\\' + c if c in esc else c)
                          for c in P)
            d = os.path.join(root, 'v%d' % k)
            os.makedirs(d)
            with open(os.path.join(d, 'build.ninja'), 'w') as f:
                f.write('rule gen\n  command = touch out.txt && printf \'%s\\n\' '
                        + _shq('out.txt: ' + dep).replace('$', '$$') +
                        ' > out.d\n  depfile = out.d\nbuild out.txt: gen\ndefault out.txt\n')
            if _calib_run(d, [os.path.join(core.BIN, 'ninja')], 'out.txt', P, env,
                          ignore={'out.d'}):
                ok = True
                break
    finally:
        core.rmtree(root)
    _calib[key] = ok
    return ok


def _calib_run(d, argv, T, P, env, ignore=()):
    try:
        with open(os.path.join(d, P), 'w') as f:
            f.write('1')
    except OSError:
        return False
    proj.settle()
    before = set(os.listdir(d))
    rc, out = core.run(argv, cwd=d, env=env, timeout=60)
    tp = os.path.join(d, T)
    if rc != 0 or not os.path.isfile(tp):
        return False
    new = set(os.listdir(d)) - before - {T, '.refninja_log.json', '.refninja_lock',
                                         '.refninja_deps.json'} - set(ignore)
    if new:
        return False            # look-alike files
    m1 = os.stat(tp).st_mtime_ns
    proj.settle()
    rc, out = core.run(argv, cwd=d, env=env, timeout=60)
    if rc != 0 or os.stat(tp).st_mtime_ns != m1:
        return False
    proj.bump(os.path.join(d, P), d)
    rc, out = core.run(argv, cwd=d, env=env, timeout=60)
    return rc == 0 and os.stat(tp).st_mtime_ns != m1


# --------------------------------------------------------------------------
# generation

POSITIONAL = list(' -~.#@+!=')     # characters whose meaning depends on the position


# names shaped like the variable / escape syntax of the tools themselves (template-style file
# names such as ${name}.conf.in exist in real projects); always part of both tiers
SHAPED = ['${v}x', 'a${b', '$v.in', 'n$$m', 'x$', '$', '$ x', '$:x', '$(v)x', 'a$(b', '#{v}', '@v@',
          'a=b=c', 'x  y', ' x ', 'a;b&c', '{a,b}', '--', '-', '~', '~x~', '!x!', 'a^b', 'a|b']


def names_for(tier, rng):
    out = []
    for c in SPECIALS:
        shapes = ('n%sm', '%sm', 'n%s') if (tier == 'thorough' or c in POSITIONAL) else ('n%sm',)
        for shape in shapes:
            out.append(shape % c)
    combos = []
    for a, b in itertools.product(SPECIALS, repeat=2):
        combos.append('n%s%sm' % (a, b))
        combos.append('n%sx%s' % (a, b))
    rnd = []
    alpha = SPECIALS * 2 + list('abcXYZ012')
    for _ in range(400):
        n = ''.join(rng.choice(alpha) for _ in range(rng.randint(2, 9)))
        if n.strip('.') == '':
            continue
        rnd.append(n)
    if tier == 'quick':
        return out + SHAPED + rng.sample(combos, 12) + rnd[:6]
    return out + SHAPED + rng.sample(combos, 500) + rnd[:300]


def cases(tier, seed):
    rng = core.rng_for(seed, 'c04')
    names = []
    seen = set()
    for n in names_for(tier, rng):
        if n not in seen and '/' not in n and '\\' not in n and '\0' not in n and \
           not re.match(r'^.:', n) and n not in ('.', '..', '~'):
            # ('~': a path string starting with '~/' is the home directory to bfg9000 -
            # os.path.expanduser by design -, so a directory named '~' is outside the quantifier)
            seen.add(n)
            names.append(n)
    # one name per project: a failing name can then neither hide nor implicate
    # another, and its result doubles as the single-character probe that names
    # the mechanism of multi-character failures (basic names come first)
    for n in names:
        for backend in ('make', 'ninja'):
            yield {'backend': backend, 'names': [n]}


# --------------------------------------------------------------------------
# the project

def decoy_of(name):
    """Another name that `name`, read as a glob pattern, would ALSO match ('v[2]' -> 'v2',
    'n*s' -> 'nZs'); None if the name has no glob characters or only matches itself."""
    import fnmatch
    if not any(c in name for c in '*?['):
        return None
    d = re.sub(r'\[([^\]]+)\]', lambda m: m.group(1).lstrip('!^')[:1] or 'Z', name)
    d = d.replace('*', 'Z').replace('?', 'Z')
    if d == name or '/' in d or not d.strip() or d.startswith('-'):
        return None
    try:
        return d if fnmatch.fnmatchcase(d, name) else None
    except re.error:
        return None


def project_files(names, no_find=()):
    """One generated project exercising every role for each name.
    -> (files, expectations per name)"""
    files = {}
    L = ['# generated by vf.props.c04']
    exp = {}
    subs = []
    for k, n in enumerate(names):
        e = {'produced': {}, 'touch': {}, 'decoys': []}
        # bystanders that the name, taken for a wildcard, would match too: a build tool that
        # expands the written name picks them up instead of / besides the file that was meant
        dn = decoy_of(n)
        if dn and dn not in names:
            for rel in ('%s.c' % dn, '%s.in' % dn, '%s/in%d.c' % (dn, k)):
                files[rel] = 'this file is not part of the build\n'
                e['decoys'].append(rel)
        # srcfile: source named N.c compiled into an executable
        files['%s.c' % n] = 'int main(void){return 0;}\n'
        L.append('e%d = executable(%r, files=[%r])' % (k, 'exe%d' % k, n + '.c'))
        e['produced']['srcfile'] = ['exe%d.int/%s.o' % (k, n), 'exe%d' % k]
        e['touch']['srcfile'] = ('S', '%s.c' % n, ['exe%d.int/%s.o' % (k, n), 'exe%d' % k])
        # srcdir: source inside a directory named N
        files['%s/in%d.c' % (n, k)] = 'int main(void){return 0;}\n'
        L.append('d%d = executable(%r, files=[%r])' % (k, 'dexe%d' % k, '%s/in%d.c' % (n, k)))
        e['produced']['srcdir'] = ['dexe%d.int/%s/in%d.o' % (k, n, k), 'dexe%d' % k]
        e['touch']['srcdir'] = ('S', '%s/in%d.c' % (n, k),
                                ['dexe%d.int/%s/in%d.o' % (k, n, k), 'dexe%d' % k])
        # stepout + consumer
        files['%s.in' % n] = 'input\n'
        L.append("s%d = build_step(%r, cmd=['vrec', '--touch', build_step.output, '--end'], "
                 "files=[%r])" % (k, n + '.gen', n + '.in'))
        L.append("c%d = build_step(%r, cmd=['vrec', s%d, '--touch', build_step.output, '--end'])"
                 % (k, 'cons%d.txt' % k, k))
        e['produced']['stepout'] = [n + '.gen', 'cons%d.txt' % k]
        e['touch']['stepout'] = ('S', '%s.in' % n, [n + '.gen', 'cons%d.txt' % k])
        e['touch2'] = ('B', n + '.gen', ['cons%d.txt' % k])
        # copyout
        files['data%d.txt' % k] = 'data\n'
        L.append("p%d = copy_file(%r, 'data%d.txt')" % (k, n + '.cp', k))
        e['produced']['copyout'] = [n + '.cp']
        e['touch']['copyout'] = ('S', 'data%d.txt' % k, [n + '.cp'])
        # exename
        files['plain%d.c' % k] = 'int main(void){return 0;}\n'
        L.append('x%d = executable(%r, files=[%r])' % (k, n + '.exe', 'plain%d.c' % k))
        e['produced']['exename'] = ['%s.exe.int/plain%d.o' % (n, k), n + '.exe']
        e['touch']['exename'] = ('S', 'plain%d.c' % k,
                                 ['%s.exe.int/plain%d.o' % (n, k), n + '.exe'])
        # topobj: an object file named N at the top of the build directory, handed to the
        # linker and to ar as a file argument (no directory part in front of the name)
        files['tobj%d.c' % k] = 'int t%d;\n' % k
        L.append('to%d = object_file(%r, file=%r)' % (k, n + '.obj', 'tobj%d.c' % k))
        L.append('tx%d = executable(%r, files=[%r, to%d])' % (k, 'tx%d' % k, 'plain%d.c' % k, k))
        L.append('tl%d = static_library(%r, files=[to%d])' % (k, 'tl%d' % k, k))
        e['produced']['topobj'] = [n + '.obj.o', 'tx%d.int/plain%d.o' % (k, k), 'tx%d' % k,
                                   'libtl%d.a' % k]
        e['touch']['topobj'] = ('S', 'tobj%d.c' % k, [n + '.obj.o', 'tx%d' % k, 'libtl%d.a' % k])
        # outdir (directory sentinel)
        L.append("o%d = build_step(%r, cmd=['vrec', '--touch', build_step.output, '--end'], "
                 "files=['data%d.txt'])" % (k, '%s.d/f%d.txt' % (n, k), k))
        e['produced']['outdir'] = ['%s.d/f%d.txt' % (n, k)]
        e['touch']['outdir'] = ('S', 'data%d.txt' % k, ['%s.d/f%d.txt' % (n, k)])
        # finddir: find_files below a directory named N (-> .bfg_find_deps)
        if n in no_find:
            # the tool's depfile syntax cannot name this directory at all
            L.append("fc%d = []" % k)
        else:
            files['%s.f/a%d.txt' % (n, k)] = 'found\n'
            L.append("f%d = find_files(%r)" % (k, '%s.f/*.txt' % n))
            L.append("fc%d = copy_files(f%d)" % (k, k))
            e['produced']['finddir'] = ['%s.f/a%d.txt' % (n, k)]
            e['touch']['finddir'] = ('S', '%s.f/a%d.txt' % (n, k), ['%s.f/a%d.txt' % (n, k)])
        # subdir: a submodule directory named N
        # (copy_file, not build_step: build_step names are deliberately relative to the
        # top of the build dir even inside a submodule - pinned by the project's own tests)
        files['%s.sub/build.bfg' % n] = (
            "q = copy_file('q%d.txt', 'q%d.in')\nexport(q=q)\n" % (k, k))
        files['%s.sub/q%d.in' % (n, k)] = 'q\n'
        L.append("m%d = submodule(%r)" % (k, n + '.sub'))
        e['produced']['subdir'] = ['%s.sub/q%d.txt' % (n, k)]
        e['touch']['subdir'] = ('S', '%s.sub/q%d.in' % (n, k), ['%s.sub/q%d.txt' % (n, k)])
        L.append("default(e%d, d%d, s%d, c%d, p%d, x%d, o%d, fc%d, m%d['q'], tx%d, tl%d)"
                 % (k, k, k, k, k, k, k, k, k, k, k))
        exp[n] = e
    files['build.bfg'] = "project('c04', find_exclude=['*~'])\n" + '\n'.join(L) + '\n'
    return files, exp


def outputs_of(recs, bld):
    outs = []
    for r in recs:
        o = proj.step_outputs(r)
        base = os.path.basename(r['name'])
        if base in ('vwrap-cp', 'vwrap-ln') and len(r['argv']) >= 3:
            o = [os.path.normpath(os.path.join(r['cwd'], r['argv'][-1]))]
        outs.extend(os.path.relpath(x, bld) for x in o)
    return outs


def char_class(name):
    sp = sorted({c for c in name if c in SPECIALS and c not in '-.'})
    lead = name[0] if name[0] in SPECIALS else ''
    trail = name[-1] if name[-1] in SPECIALS and len(name) > 1 else ''
    return ''.join(sp), lead, trail


def run_project(backend, names, res, isolate=True):
    root = core.mkscratch('c04')
    try:
        src, bld = os.path.join(root, 'src'), os.path.join(root, 'bld')
        no_find = {n for n in names if not calibrate_depfile(backend, n + '.f')}
        for n in no_find:
            res.exclude('%s depfile syntax cannot name %s' % (
                backend, ''.join(sorted({c for c in n if c in SPECIALS})) or n))
        files, exp = project_files(names, no_find)
        try:
            proj.write_tree(src, files)
        except OSError as e:
            res.exclude('file system refuses the name')
            return
        log = os.path.join(root, 'log')
        extra = proj.stub_toolchain_env(log, backend)
        extra.update({'CP': 'vwrap-cp -f', 'VSTUB_ENVKEYS': 'NONE'})
        env = core.base_env(extra)
        src_before = proj.snapshot(src)

        def fail(role, what, name, **kw):
            sp, lead, trail = char_class(name)
            trig = 'chars:' + sp + ('|lead:' + lead if lead else '') + \
                ('|trail:' + trail if trail else '')
            res.violate((backend, role, what, trig),
                        dict(kw, backend=backend, role=role, name=name, what=what,
                             __case__={'backend': backend, 'names': [name]}))

        def problem(stage, out):
            """A stage failed for the whole project."""
            if len(names) > 1 and isolate:
                for n in names:
                    run_project(backend, [n], res, isolate=False)
                return
            fail('project', stage, names[0], output=out[-900:])

        rc, out = proj.configure(src, bld, backend, env=env)
        if rc != 0:
            return problem('configure-failed', out)
        proj.settle()
        rc, out = proj.build(bld, backend, [], env=env, extra=['-k'] if backend == 'make'
                             else ['-k', '0'])
        recs = proj.read_log(log)
        if rc != 0 and len(names) > 1 and isolate:
            return problem('build-failed', out)
        ran = outputs_of(recs, bld)
        bad_names = set()
        for n in names:
            want = os.path.join(src, n + '.c')
            for r in recs:
                a = r['argv']
                if '-c' in a and '-o' in a and \
                   os.path.basename(a[a.index('-o') + 1]) == n + '.o' and \
                   os.path.dirname(a[a.index('-o') + 1]).startswith('exe'):
                    got = a[a.index('-c') + 1] if a.index('-c') + 1 < len(a) else None
                    res.ev('srcfile:compile-input-checked')
                    if got is not None and os.path.normpath(
                            os.path.join(r['cwd'], got)) != os.path.normpath(want):
                        fail('srcfile', 'compiled-from-another-file', n, compiled=got)
                        bad_names.add(n)
        for n in names:
            for role, produced in exp[n]['produced'].items():
                res.ev('role:' + role)
                res.key([backend, role, n], True)
                for pth in produced:
                    if not os.path.lexists(os.path.join(bld, pth)):
                        fail(role, 'not-created', n, path=pth, build_rc=rc,
                             output=out[-8000:] if rc else '')
                        bad_names.add(n)
                        break
        # look-alike files: everything in the build tree must be modelled
        expected = set()
        for n in names:
            for produced in exp[n]['produced'].values():
                expected.update(produced)
        extras = []
        for d, ds, fs in os.walk(bld):
            for f in fs:
                rel = os.path.relpath(os.path.join(d, f), bld)
                if rel in expected or rel in ('Makefile', 'build.ninja', 'compile_commands.json') \
                   or f.startswith('.') or f.endswith(('.d', '.stamp')):
                    continue
                extras.append(rel)
        if extras:
            n = next((n for n in names if any(n[:2] in x or n[-2:] in x for x in extras)), names[0])
            fail('project', 'look-alike-files', n, extras=extras[:6])
            bad_names.add(n)
        if rc != 0 and not bad_names:
            fail('project', 'build-failed', names[0], output=out[-900:])
            return
        if bad_names:
            return
        # second build: nothing runs
        proj.clear_log(log)
        proj.settle()
        rc, out = proj.build(bld, backend, [], env=env)
        again = outputs_of(proj.read_log(log), bld)
        if rc != 0 or again:
            culprit = next((n for n in names if any(
                a in sum(exp[n]['produced'].values(), []) for a in again)), names[0])
            role = next((r for r, p in exp[culprit]['produced'].items()
                         if any(a in p for a in again)), 'project')
            fail(role, 'not-up-to-date-after-build', culprit, reran=again[:6], rc=rc,
                 output=out[-400:] if rc else '')
            return
        # a file that is not part of the build changes: nothing happens
        decoys = [d for n in names for d in exp[n].get('decoys', [])]
        if decoys:
            for d in decoys:
                proj.bump(os.path.join(src, d), bld, src)
            proj.clear_log(log)
            rc, out = proj.build(bld, backend, [], env=env)
            reran = outputs_of(proj.read_log(log), bld)
            res.ev('decoy:touched')
            if rc != 0 or reran:
                fail('srcfile', 'unrelated-file-triggers-rebuild', names[0], reran=reran[:6],
                     decoys=decoys, rc=rc)
                return
        # touches: every role's prerequisite of a name at once, then the intermediate
        for n in names:
            musts = {}
            for role, (where, rel, must) in exp[n]['touch'].items():
                path = os.path.join(src if where == 'S' else bld, rel)
                proj.bump(path, bld, src)
                for mm in must:
                    musts[mm] = (role, rel)
            proj.clear_log(log)
            rc, out = proj.build(bld, backend, [], env=env,
                                 extra=['-k'] if backend == 'make' else ['-k', '0'])
            reran = set(outputs_of(proj.read_log(log), bld))
            if rc != 0:
                fail('project', 'rebuild-failed', n, output=out[-600:])
            for mm, (role, rel) in sorted(musts.items()):
                if mm not in reran:
                    fail(role, 'touch-not-noticed', n, touched=rel, missing=[mm])
                else:
                    res.ev('touch:noticed')
            where, rel, must = exp[n]['touch2']
            proj.bump(os.path.join(bld, rel), bld, src)
            proj.clear_log(log)
            rc, out = proj.build(bld, backend, [], env=env)
            reran = set(outputs_of(proj.read_log(log), bld))
            if rc != 0 or not set(must) <= reran:
                fail('stepout', 'touch-not-noticed', n, touched=rel,
                     missing=sorted(set(must) - reran), rc=rc)
            else:
                res.ev('touch:noticed')
        # clean removes exactly the produced files
        rc, out = proj.build(bld, backend, ['clean'], env=env)
        if rc != 0:
            fail('project', 'clean-failed', names[0], output=out[-600:])
        else:
            for n in names:
                for role, produced in exp[n]['produced'].items():
                    left = [p for p in produced if os.path.lexists(os.path.join(bld, p))]
                    if left:
                        fail(role, 'clean-left-file', n, left=left)
            res.ev('clean:checked')
        if proj.snapshot(src) != src_before:
            fail('project', 'source-tree-changed', names[0])
        # regenerate parses (odd directory names in .bfg_find_deps)
        proj.bump(os.path.join(src, 'build.bfg'), bld, src)
        rc, out = proj.build(bld, backend, [], env=env)
        if rc != 0:
            fail('finddir', 'regenerate-or-rebuild-failed', names[0], output=out[-600:])
        # a searched directory that disappears: the entry written for it must still denote it
        # (Make needs a rule for the vanished prerequisite), so that the build goes on
        import shutil
        gone = [n for n in names if 'finddir' in exp[n]['produced']]
        if rc == 0 and gone:
            for n in gone:
                shutil.rmtree(os.path.join(src, n + '.f'))
            proj.settle()
            rc, out = proj.build(bld, backend, [], env=env)
            res.ev('finddir:removed-later')
            if rc != 0:
                if len(gone) > 1 and isolate:
                    for n in gone:
                        run_project(backend, [n], res, isolate=False)
                else:
                    fail('finddir', 'removed-directory-blocks-the-build', gone[0],
                         output=out[-600:])
        res.sample = {'backend': backend, 'names': names,
                      'produced': exp[names[0]]['produced']}
    finally:
        core.rmtree(root)


def run_rootpath(backend, name, res):
    """A small project whose source and build directories live below a
    directory named like this."""
    base = core.mkscratch('c04r')
    try:
        root = os.path.join(base, name + '.root')
        src, bld = os.path.join(root, 'src'), os.path.join(root, 'bld')
        try:
            proj.write_tree(src, {
                'build.bfg': "c = copy_file('out.txt', 'in.txt')\n"
                             "e = executable('prog', files=['main.c'])\ndefault(c, e)\n",
                'in.txt': 'in\n', 'main.c': 'int main(void){return 0;}\n'})
        except OSError:
            res.exclude('file system refuses the name')
            return
        log = os.path.join(base, 'log')
        extra = proj.stub_toolchain_env(log, backend)
        extra.update({'CP': 'vwrap-cp -f', 'VSTUB_ENVKEYS': 'NONE'})
        env = core.base_env(extra)
        res.ev('role:rootpath')
        res.key([backend, 'rootpath', name], True)

        def fail(what, **kw):
            res.violate((backend, 'rootpath', what, 'pending'),
                        dict(kw, backend=backend, role='rootpath', name=name, what=what,
                             __case__={'backend': backend, 'names': [name]}))
        rc, out = proj.configure(src, bld, backend, env=env)
        if rc != 0:
            return fail('configure-failed', output=out[-600:])
        proj.settle()
        rc, out = proj.build(bld, backend, [], env=env)
        made = [p for p in ('out.txt', 'prog', 'prog.int/main.o')
                if os.path.lexists(os.path.join(bld, p))]
        if rc != 0 or len(made) != 3:
            return fail('not-created', output=out[-700:], created=made)
        proj.clear_log(log)
        proj.settle()
        rc, out = proj.build(bld, backend, [], env=env)
        again = outputs_of(proj.read_log(log), bld)
        if rc != 0 or again:
            return fail('not-up-to-date-after-build', reran=again[:4], output=out[-300:])
        for rel, must in (('in.txt', 'out.txt'), ('main.c', 'prog.int/main.o')):
            proj.bump(os.path.join(src, rel), bld, src)
            proj.clear_log(log)
            rc, out = proj.build(bld, backend, [], env=env)
            if rc != 0 or must not in outputs_of(proj.read_log(log), bld):
                return fail('touch-not-noticed', touched=rel, output=out[-300:])
            res.ev('touch:noticed')
        rc, out = proj.build(bld, backend, ['clean'], env=env)
        left = [p for p in ('out.txt', 'prog', 'prog.int/main.o')
                if os.path.lexists(os.path.join(bld, p))]
        if rc != 0 or left:
            return fail('clean-left-file', left=left, output=out[-300:])
        proj.bump(os.path.join(src, 'build.bfg'), bld, src)
        rc, out = proj.build(bld, backend, [], env=env)
        if rc != 0:
            return fail('regenerate-or-rebuild-failed', output=out[-600:])
    finally:
        core.rmtree(base)


_probe_cache = {}


def probe(backend, name):
    """(role, what) pairs that fail for a project made of this single name."""
    key = (backend, name)
    if key not in _probe_cache:
        tmp = CaseResult()
        if calibrate(backend, name):
            run_project(backend, [name], tmp, isolate=False)
        if calibrate_root(backend, name):
            run_rootpath(backend, name, tmp)
        _probe_cache[key] = frozenset((m[1], m[2]) for m, w in tmp.violations)
    return _probe_cache[key]


def triggers(backend, name, role, what):
    """-> list of trigger strings, one per character that reproduces the
    failure on its own; ['combination:...'] if none does."""
    specials = []
    for c in name:
        if c in SPECIALS and c not in specials:
            specials.append(c)
    culprits = []
    for c in specials:
        if (role, what) in probe(backend, 'n%sm' % c):
            culprits.append('char:' + c)
        elif name.startswith(c) and (role, what) in probe(backend, '%sm' % c):
            culprits.append('char:' + c + '@lead')
        elif name.endswith(c) and len(name) > 1 and (role, what) in probe(backend, 'n%s' % c):
            culprits.append('char:' + c + '@trail')
    if culprits:
        return sorted(culprits)
    return ['combination:' + ''.join(sorted(specials))]


def run_case(case):
    res = CaseResult()
    backend = case['backend']
    admitted = []
    for n in case['names']:
        if calibrate(backend, n):
            admitted.append(n)
            res.ev('calibrated:admitted')
        else:
            res.exclude('%s cannot represent %s' % (
                backend, ''.join(sorted({c for c in n if c in SPECIALS})) or n))
            res.ev('calibrated:excluded')
    res.evaluations = len(admitted) or 1
    for n in case['names']:
        if calibrate_root(backend, n):
            run_rootpath(backend, n, res)
        else:
            res.exclude('%s cannot build below a directory named with %s' % (
                backend, ''.join(sorted({c for c in n if c in SPECIALS})) or n))
    if admitted:
        run_project(backend, admitted, res, isolate=False)
    if len(case['names']) == 1:
        _probe_cache[(backend, case['names'][0])] = frozenset(
            (m[1], m[2]) for m, w in res.violations)
    # name the mechanism by the characters that reproduce it on their own
    fixed = []
    for mech, wit in res.violations:
        trigs = triggers(backend, wit['name'], mech[1], mech[2])
        for trig in trigs:
            w2 = dict(wit, trigger=trig, all_triggers=trigs)
            fixed.append(((mech[0], mech[1], mech[2], trig), w2))
    res.violations = fixed
    return res
