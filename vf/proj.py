"""Driving real bfg9000 projects: trees, configure, back ends, stub logs."""
import json
import os
import shutil
import stat
import time

from . import core


def write_tree(root, files):
    """files: {relpath: str content | None (directory) | ('symlink', target)}"""
    os.makedirs(root, exist_ok=True)
    for rel, content in files.items():
        p = os.path.join(root, rel)
        if content is None:
            os.makedirs(p, exist_ok=True)
            continue
        os.makedirs(os.path.dirname(p) or root, exist_ok=True)
        if isinstance(content, (tuple, list)) and content[0] == 'symlink':
            if os.path.lexists(p):
                os.remove(p)
            os.symlink(content[1], p)
        else:
            with open(p, 'w', encoding='utf-8', newline='') as f:
                f.write(content)


def stub_toolchain_env(log=None, backend=None):
    env = {'CC': 'vcc', 'CXX': 'vc++', 'AR': 'var', 'FC': 'vfc'}
    if log:
        env['VSTUB_LOG'] = log
    if backend == 'make':
        # the stub compilers then write the depfile gcc would write for the source ("out: src"
        # with gcc's escaping), so that bfg9000-depfixer and the Makefile's -include lines get
        # real input.  Not for Ninja: there the depfile goes from the compiler straight to the
        # tool (deps = gcc), bfg9000 is not involved.
        env['VSTUB_REAL_DEPFILE'] = '1'
    return env


def real_toolchain_env(log=None, compiler='gcc', wrap=True):
    cc = {'gcc': ('gcc', 'g++'), 'clang': ('clang', 'clang++')}[compiler]
    pre = 'vwrap-' if wrap else ''
    env = {'CC': pre + cc[0], 'CXX': pre + cc[1]}
    if log:
        env['VSTUB_LOG'] = log
    return env


def configure(srcdir, builddir, backend='make', args=(), env=None, cwd=None,
              timeout=180, sub='configure'):
    """Run `bfg9000 configure <builddir>` from srcdir.  -> (rc, output)"""
    e = core.base_env() if env is None else env
    argv = [os.path.join(core.VENV_BIN, 'bfg9000'), sub, builddir,
            '--backend', backend, '--no-resolve-packages'] + list(args)
    if sub == 'configure-into':
        argv = [os.path.join(core.VENV_BIN, 'bfg9000'), sub, srcdir, builddir,
                '--backend', backend, '--no-resolve-packages'] + list(args)
    return core.run(argv, cwd=cwd or srcdir, env=e, timeout=timeout)


def backend_argv(backend, targets=(), extra=()):
    if backend == 'make':
        return ['make', '--no-print-directory'] + list(extra) + list(targets)
    elif backend == 'ninja':
        return [os.path.join(core.BIN, 'ninja')] + list(extra) + list(targets)
    raise ValueError(backend)


def build(builddir, backend, targets=(), env=None, extra=(), timeout=300):
    e = core.base_env() if env is None else env
    return core.run(backend_argv(backend, targets, extra), cwd=builddir, env=e,
                    timeout=timeout)


def buildfile(backend):
    return {'make': 'Makefile', 'ninja': 'build.ninja'}[backend]


# --------------------------------------------------------------------------
# vstub logs

def _unhex(s):
    return bytes.fromhex(s).decode('utf-8', 'surrogateescape')


def read_log(path, clear=False):
    """-> list of {'pid','ppid','seq','name','argv','cwd','env'} decoded."""
    out = []
    if not os.path.exists(path):
        return out
    with open(path, 'rb') as f:
        data = f.read()
    for line in data.splitlines():
        if not line.strip():
            continue
        try:
            d = json.loads(line)
        except ValueError:
            out.append({'corrupt': line[:200].decode('ascii', 'replace')})
            continue
        out.append({
            'pid': d['pid'], 'ppid': d['ppid'], 'seq': d['seq'],
            'name': _unhex(d['name']),
            'argv': [_unhex(a) for a in d['argv']],
            'cwd': _unhex(d['cwd']),
            'env': {_unhex(k): _unhex(v) for k, v in d['env'].items()},
        })
    out.sort(key=lambda r: r.get('seq', 0))
    if clear:
        os.remove(path)
    return out


def clear_log(path):
    try:
        os.remove(path)
    except FileNotFoundError:
        pass


def step_outputs(rec):
    """Outputs a stub record says it produced (for 'which steps ran')."""
    argv = rec['argv']
    base = os.path.basename(rec['name'])
    outs = []
    if base.startswith(('vcc', 'vc++', 'vfc', 'vclang')) or base.startswith('vwrap-'):
        for i, a in enumerate(argv):
            if a == '-o' and i + 1 < len(argv):
                outs.append(argv[i + 1])
    elif base.startswith('var'):
        if len(argv) >= 3:
            outs.append(argv[2])
    else:
        touching = False
        for a in argv[1:]:
            if a == '--touch':
                touching = True
            elif a == '--end':
                touching = False
            elif touching:
                outs.append(a)
    return [os.path.normpath(os.path.join(rec['cwd'], o)) for o in outs]


# --------------------------------------------------------------------------
# timestamp discipline (DESIGN Appendix C.2)

def newest_mtime(root):
    newest = 0
    for d, ds, fs in os.walk(root):
        for n in fs + ds:
            try:
                st = os.lstat(os.path.join(d, n))
            except OSError:
                continue
            newest = max(newest, st.st_mtime_ns)
    return newest


def bump(path, *against):
    """Give `path` an mtime strictly newer than everything under `against`
    using the kernel clock only."""
    limit = max([newest_mtime(a) for a in against] + [0])
    for _ in range(200):
        time.sleep(0.011)
        os.utime(path, None, follow_symlinks=False) if os.path.islink(path) \
            else os.utime(path, None)
        if os.lstat(path).st_mtime_ns > limit:
            return
    raise core.Timeout('cannot make %s newer' % path)


def settle():
    """Let the coarse kernel clock tick so that later writes are newer."""
    time.sleep(0.011)


def snapshot(root, content=True):
    """{relpath: ('f', sha1|size) | ('d',) | ('l', target)}"""
    import hashlib
    snap = {}
    for d, ds, fs in os.walk(root):
        for n in ds:
            p = os.path.join(d, n)
            rel = os.path.relpath(p, root)
            if os.path.islink(p):
                snap[rel] = ('l', os.readlink(p))
            else:
                snap[rel] = ('d',)
        for n in fs:
            p = os.path.join(d, n)
            rel = os.path.relpath(p, root)
            if os.path.islink(p):
                snap[rel] = ('l', os.readlink(p))
            elif content:
                try:
                    with open(p, 'rb') as f:
                        snap[rel] = ('f', hashlib.sha1(f.read()).hexdigest())
                except OSError as e:
                    snap[rel] = ('f', 'unreadable')
            else:
                snap[rel] = ('f', os.path.getsize(p))
    return snap
