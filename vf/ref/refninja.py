#!/venv/bin/python
"""refninja: a reference evaluator/executor for the Ninja manifest language.

Written from the Ninja manual and the documented behaviour of ninja 1.11
(manifest_parser / eval_env / graph / build / clean).  It is the observation
point properties C02/C03 name, and doubles as the `ninja` executable bfg9000
needs at configure time.  Serial execution, /bin/sh -c, JSON build/deps logs.

Usage: ninja [-C dir] [-f file] [-k N] [-n] [-v] [-j N] [-t clean [-g]] [--version] [targets...]
"""
import hashlib
import json
import os
import re
import subprocess
import sys

VERSION = '1.11.1'
LOG = '.refninja_log.json'
DEPS = '.refninja_deps.json'
LOCK = '.refninja_lock'


class NinjaError(Exception):
    pass


# --------------------------------------------------------------------------
# eval strings

class EvalString:
    """A list of ('lit', text) | ('var', name)."""
    __slots__ = ['parts']

    def __init__(self, parts=None):
        self.parts = parts or []

    def evaluate(self, env):
        out = []
        for kind, val in self.parts:
            out.append(val if kind == 'lit' else env.lookup(val))
        return ''.join(out)

    def __repr__(self):
        return 'EvalString(%r)' % (self.parts,)


_SIMPLE_VAR = re.compile(r'[a-zA-Z0-9_-]+')
_BRACE_VAR = re.compile(r'\{([a-zA-Z0-9_.-]+)\}')
_IDENT = re.compile(r'[a-zA-Z0-9_.-]+')


class BindingEnv:
    def __init__(self, parent=None):
        self.bindings = {}
        self.rules = {}
        self.parent = parent

    def lookup(self, var):
        if var in self.bindings:
            return self.bindings[var]
        if self.parent:
            return self.parent.lookup(var)
        return ''

    def lookup_rule(self, name):
        if name in self.rules:
            return self.rules[name]
        if self.parent:
            return self.parent.lookup_rule(name)
        return None

    def lookup_with_fallback(self, var, evalstr, env):
        if var in self.bindings:
            return self.bindings[var]
        if evalstr is not None:
            return evalstr.evaluate(env)
        if self.parent:
            return self.parent.lookup(var)
        return ''


RULE_KEYS = {'command', 'depfile', 'dyndep', 'description', 'deps', 'generator',
             'pool', 'restat', 'rspfile', 'rspfile_content', 'msvc_deps_prefix'}


class Rule:
    def __init__(self, name):
        self.name = name
        self.bindings = {}


PHONY = Rule('phony')


class Node:
    __slots__ = ['path', 'in_edge', 'out_edges', 'dirty', 'mtime', 'statted',
                 'from_deps']

    def __init__(self, path):
        self.path = path
        self.in_edge = None
        self.out_edges = []
        self.dirty = False
        self.mtime = None     # None: unknown; -1: missing
        self.statted = False
        self.from_deps = False

    def stat(self, force=False):
        if not self.statted or force:
            try:
                self.mtime = os.stat(self.path).st_mtime_ns
            except OSError:
                self.mtime = -1
            self.statted = True
        return self.mtime

    def exists(self):
        return self.stat() != -1


class Edge:
    def __init__(self, rule, env):
        self.rule = rule
        self.env = env
        self.outputs = []
        self.implicit_outs = 0
        self.inputs = []
        self.implicit_deps = 0
        self.order_only_deps = 0
        self.visited = False
        self.outputs_ready = False
        self.deps_loaded = False
        self.deps_missing = False

    # input classes
    def explicit_inputs(self):
        n = len(self.inputs) - self.implicit_deps - self.order_only_deps
        return self.inputs[:n]

    def non_order_only(self):
        return self.inputs[:len(self.inputs) - self.order_only_deps]

    def is_order_only(self, i):
        return i >= len(self.inputs) - self.order_only_deps

    def explicit_outputs(self):
        return self.outputs[:len(self.outputs) - self.implicit_outs]

    def is_phony(self):
        return self.rule is PHONY

    def binding(self, key):
        return EdgeEnv(self).lookup(key)

    def binding_bool(self, key):
        return self.binding(key) != ''

    def unescaped(self, key):
        return EdgeEnv(self, escape=False).lookup(key)

    def command(self):
        return self.binding('command')


def shell_escape(s):
    if s and re.fullmatch(r'[A-Za-z0-9_+\-./]+', s):
        return s
    return "'" + s.replace("'", "'\\''") + "'"


class EdgeEnv:
    def __init__(self, edge, escape=True):
        self.edge = edge
        self.escape = escape
        self.lookups = []

    def lookup(self, var):
        e = self.edge
        if var in ('in', 'in_newline'):
            paths = [n.path for n in e.explicit_inputs()]
            sep = ' ' if var == 'in' else '\n'
            return sep.join(shell_escape(p) if self.escape else p for p in paths)
        if var == 'out':
            paths = [n.path for n in e.explicit_outputs()]
            return ' '.join(shell_escape(p) if self.escape else p for p in paths)
        if var in self.lookups:
            raise NinjaError('cycle in rule variables: ' +
                             ' -> '.join(self.lookups + [var]))
        evalstr = e.rule.bindings.get(var)
        if evalstr is not None:
            self.lookups.append(var)
        try:
            return e.env.lookup_with_fallback(var, evalstr, self)
        finally:
            if evalstr is not None:
                self.lookups.pop()


def canonicalize(path):
    if not path:
        raise NinjaError('empty path')
    absolute = path.startswith('/')
    comps = []
    for c in path.split('/'):
        if c == '' or c == '.':
            continue
        if c == '..':
            if comps and comps[-1] != '..':
                comps.pop()
            elif absolute:
                pass
            else:
                comps.append('..')
        else:
            comps.append(c)
    out = '/'.join(comps)
    if absolute:
        return '/' + out
    return out or '.'


# --------------------------------------------------------------------------
# parser

class Parser:
    def __init__(self, state, filename):
        self.state = state
        self.filename = filename
        with open(filename, 'r', encoding='utf-8', errors='surrogateescape',
                  newline='') as f:
            self.text = f.read()
        if '\0' in self.text:
            raise NinjaError('%s: NUL byte in manifest' % filename)
        self.pos = 0
        self.env = state.env

    def error(self, msg):
        line = self.text.count('\n', 0, self.pos) + 1
        raise NinjaError('%s:%d: %s' % (self.filename, line, msg))

    # -- low-level
    def peek(self):
        return self.text[self.pos] if self.pos < len(self.text) else ''

    def eat_spaces(self):
        while True:
            c = self.peek()
            if c == ' ':
                self.pos += 1
            elif c == '$' and self.text[self.pos + 1:self.pos + 2] == '\n':
                self.pos += 2
            elif c == '$' and self.text[self.pos + 1:self.pos + 3] == '\r\n':
                self.pos += 3
            else:
                return

    def read_ident(self):
        m = _IDENT.match(self.text, self.pos)
        if not m:
            return None
        self.pos = m.end()
        self.eat_spaces()
        return m.group(0)

    def read_eval(self, path):
        parts = []
        lit = []

        def flush():
            if lit:
                parts.append(('lit', ''.join(lit)))
                del lit[:]
        text = self.text
        while True:
            if self.pos >= len(text):
                self.error('unexpected EOF')
            c = text[self.pos]
            if c == '$':
                n = text[self.pos + 1:self.pos + 2]
                if n == '$':
                    lit.append('$')
                    self.pos += 2
                elif n == ' ':
                    lit.append(' ')
                    self.pos += 2
                elif n == ':':
                    lit.append(':')
                    self.pos += 2
                elif n == '\n' or text[self.pos + 1:self.pos + 3] == '\r\n':
                    self.pos += 2 if n == '\n' else 3
                    while self.peek() == ' ':
                        self.pos += 1
                elif n == '{':
                    m = _BRACE_VAR.match(text, self.pos + 1)
                    if not m:
                        self.error('bad $-escape (literal $ must be written as $$)')
                    flush()
                    parts.append(('var', m.group(1)))
                    self.pos = m.end()
                else:
                    m = _SIMPLE_VAR.match(text, self.pos + 1)
                    if not m:
                        self.error('bad $-escape (literal $ must be written as $$)')
                    flush()
                    parts.append(('var', m.group(0)))
                    self.pos = m.end()
            elif c == '\n' or (c == '\r' and text[self.pos + 1:self.pos + 2] == '\n'):
                if path:
                    break
                self.pos += 1 if c == '\n' else 2
                break
            elif c == '\r':
                self.error('carriage returns are not allowed, use newlines')
            elif c in ' :|' and path:
                break
            else:
                lit.append(c)
                self.pos += 1
        flush()
        if path:
            self.eat_spaces()
        return EvalString(parts)

    def expect_newline(self):
        c = self.peek()
        if c == '\n':
            self.pos += 1
        elif c == '\r' and self.text[self.pos + 1:self.pos + 2] == '\n':
            self.pos += 2
        elif c == '' and self.pos >= len(self.text):
            pass
        else:
            self.error('expected newline, got %r' % self.text[self.pos:self.pos + 20])

    def skip_blank_and_comments(self):
        """At a line start: skip comment lines and empty lines.  Returns the
        indentation (number of spaces) of the next significant line."""
        while True:
            m = re.compile(r'[ ]*(#[^\n]*)?(\r?\n)').match(self.text, self.pos)
            if m:
                self.pos = m.end()
                continue
            m = re.compile(r'[ ]*').match(self.text, self.pos)
            return len(m.group(0))

    def read_let(self):
        key = self.read_ident()
        if key is None:
            self.error('expected variable name')
        if self.peek() != '=':
            self.error("expected '=', got %r" % self.text[self.pos:self.pos + 20])
        self.pos += 1
        self.eat_spaces()
        val = self.read_eval(path=False)
        return key, val

    # -- declarations
    def parse(self):
        while True:
            indent = self.skip_blank_and_comments()
            if self.pos >= len(self.text):
                return
            if self.peek() == '\t':
                self.error('tabs are not allowed, use spaces')
            if indent:
                self.error('unexpected indent')
            m = re.compile(r'(build|rule|default|pool|include|subninja)(?![a-zA-Z0-9_.-])'
                           ).match(self.text, self.pos)
            if m:
                self.pos = m.end()
                self.eat_spaces()
                getattr(self, 'parse_' + m.group(1))()
            else:
                key, val = self.read_let()
                self.env.bindings[key] = val.evaluate(self.env)

    def indented_lets(self):
        out = []
        while True:
            save = self.pos
            indent = self.skip_blank_and_comments()
            if not indent or self.pos >= len(self.text):
                # not ours: but comments/blank lines consumed is fine
                return out
            self.pos += indent
            if self.peek() == '\t':
                self.error('tabs are not allowed, use spaces')
            out.append(self.read_let())

    def parse_pool(self):
        name = self.read_ident()
        if name is None:
            self.error('expected pool name')
        self.expect_newline()
        for key, val in self.indented_lets():
            if key != 'depth':
                self.error('unexpected variable %r' % key)

    def parse_rule(self):
        name = self.read_ident()
        if name is None:
            self.error('expected rule name')
        self.expect_newline()
        if name in self.env.rules:
            self.error("duplicate rule '%s'" % name)
        rule = Rule(name)
        for key, val in self.indented_lets():
            if key not in RULE_KEYS:
                self.error("unexpected variable '%s'" % key)
            rule.bindings[key] = val
        if ('rspfile' in rule.bindings) != ('rspfile_content' in rule.bindings):
            self.error('rspfile and rspfile_content need to be both specified')
        if 'command' not in rule.bindings:
            self.error("expected 'command =' line")
        self.env.rules[name] = rule

    def parse_default(self):
        first = True
        while True:
            ev = self.read_eval(path=True)
            if not ev.parts:
                if first:
                    self.error('expected target name')
                break
            first = False
            path = canonicalize(ev.evaluate(self.env))
            node = self.state.nodes.get(path)
            if node is None:
                self.error("unknown target '%s'" % path)
            self.state.defaults.append(node)
        self.expect_newline()

    def parse_include(self):
        ev = self.read_eval(path=True)
        path = ev.evaluate(self.env)
        self.expect_newline()
        sub = Parser(self.state, path)
        sub.env = self.env
        sub.parse()

    def parse_subninja(self):
        ev = self.read_eval(path=True)
        path = ev.evaluate(self.env)
        self.expect_newline()
        sub = Parser(self.state, path)
        sub.env = BindingEnv(self.env)
        sub.parse()

    def read_paths(self):
        out = []
        while True:
            ev = self.read_eval(path=True)
            if not ev.parts:
                return out
            out.append(ev)

    def parse_build(self):
        outs = self.read_paths()
        implicit_outs = []
        if self.peek() == '|' and self.text[self.pos + 1:self.pos + 2] != '|':
            self.pos += 1
            self.eat_spaces()
            implicit_outs = self.read_paths()
        if not outs and not implicit_outs:
            self.error('expected path')
        if self.peek() != ':':
            self.error("expected ':', got %r" % self.text[self.pos:self.pos + 20])
        self.pos += 1
        self.eat_spaces()
        rule_name = self.read_ident()
        if rule_name is None:
            self.error('expected build command name')
        rule = PHONY if rule_name == 'phony' else self.env.lookup_rule(rule_name)
        if rule is None:
            self.error("unknown build rule '%s'" % rule_name)
        ins = self.read_paths()
        implicit = []
        order_only = []
        validations = []
        if self.peek() == '|' and self.text[self.pos + 1:self.pos + 2] not in ('|', '@'):
            self.pos += 1
            self.eat_spaces()
            implicit = self.read_paths()
        if self.text[self.pos:self.pos + 2] == '||':
            self.pos += 2
            self.eat_spaces()
            order_only = self.read_paths()
        if self.text[self.pos:self.pos + 2] == '|@':
            self.pos += 2
            self.eat_spaces()
            validations = self.read_paths()
        self.expect_newline()
        lets = self.indented_lets()
        env = BindingEnv(self.env) if lets else self.env
        for key, val in lets:
            env.bindings[key] = val.evaluate(self.env)
        edge = Edge(rule, env)
        for ev in outs + implicit_outs:
            path = canonicalize(ev.evaluate(env))
            node = self.state.node(path)
            if node.in_edge is not None:
                self.error("multiple rules generate %s" % path)
            node.in_edge = edge
            edge.outputs.append(node)
        edge.implicit_outs = len(implicit_outs)
        for ev in ins + implicit + order_only:
            path = canonicalize(ev.evaluate(env))
            node = self.state.node(path)
            edge.inputs.append(node)
            node.out_edges.append(edge)
        edge.implicit_deps = len(implicit)
        edge.order_only_deps = len(order_only)
        self.state.edges.append(edge)


class State:
    def __init__(self):
        self.env = BindingEnv()
        self.nodes = {}
        self.edges = []
        self.defaults = []

    def node(self, path):
        n = self.nodes.get(path)
        if n is None:
            n = self.nodes[path] = Node(path)
        return n

    def default_nodes(self):
        if self.defaults:
            return list(self.defaults)
        roots = []
        for e in self.edges:
            for o in e.outputs:
                if not o.out_edges:
                    roots.append(o)
        if self.edges and not roots:
            raise NinjaError('could not determine root nodes of build graph')
        return roots


# --------------------------------------------------------------------------
# depfiles

_DEP_OK = re.compile(r"[a-zA-Z0-9+,/_:.~()}{%=@\[\]!\x80-\U0010ffff-]")


def parse_depfile(content):
    """-> (targets, deps) following ninja's depfile_parser."""
    tokens = []
    cur = []
    have = False
    i = 0
    n = len(content)

    def end():
        nonlocal have
        if have:
            tokens.append(''.join(cur))
        del cur[:]
        have = False
    while i < n:
        c = content[i]
        if c == '\\':
            j = i
            while j < n and content[j] == '\\':
                j += 1
            nb = j - i
            nxt = content[j] if j < n else ''
            if nxt == ' ':
                if nb % 2:      # 2N+1 backslashes + space -> N backslashes + space
                    cur.append('\\' * (nb // 2) + ' ')
                    have = True
                    i = j + 1
                else:           # 2N backslashes + space -> 2N backslashes, end
                    cur.append('\\' * nb)
                    have = True
                    i = j
                continue
            if nxt == '#':
                cur.append('\\' * (nb - 1) + '#')
                have = True
                i = j + 1
                continue
            if nxt == ':':
                after = content[j + 1] if j + 1 < n else ''
                if after in ('', ' ', '\r', '\n', '\t'):
                    cur.append('\\' * nb)   # normal text, colon handled below
                    have = True
                    i = j
                else:
                    cur.append('\\' * (nb - 1) + ':')
                    have = True
                    i = j + 1
                continue
            if nxt == '\n' and nb == 1:
                end()
                i = j + 1
                continue
            if nxt == '\r' and content[j + 1:j + 2] == '\n' and nb == 1:
                end()
                i = j + 2
                continue
            if nxt in ('', '\r', '\n'):
                cur.append('\\' * nb)
                have = True
                i = j
                continue
            cur.append('\\' * nb + nxt)
            have = True
            i = j + 1
            continue
        if c == '$' and content[i + 1:i + 2] == '$':
            cur.append('$')
            have = True
            i += 2
            continue
        if c == '\n' or c == '\r':
            end()
            tokens.append('\n')
            i += 1
            continue
        if _DEP_OK.match(c):
            cur.append(c)
            have = True
            i += 1
            continue
        # anything else (space, tab, quotes, ...) separates
        end()
        i += 1
    end()
    targets = []
    deps = []
    in_targets = True
    for t in tokens:
        if t == '\n':
            in_targets = True
            continue
        if in_targets:
            if t.endswith(':'):
                t = t[:-1]
                in_targets = False
                if t:
                    targets.append(t)
            elif ':' in t and not t.startswith(':'):
                # "a:b" without space: ninja treats the colon as text unless
                # followed by whitespace; keep as target text
                targets.append(t)
            else:
                targets.append(t)
        else:
            deps.append(t)
    return targets, deps


# --------------------------------------------------------------------------
# build

def _load_json(path):
    try:
        with open(path) as f:
            return json.load(f)
    except (OSError, ValueError):
        return {}


def _save_json(path, data):
    tmp = path + '.tmp'
    with open(tmp, 'w') as f:
        json.dump(data, f)
    os.replace(tmp, path)


def cmd_hash(cmd):
    return hashlib.sha1(cmd.encode('utf-8', 'surrogateescape')).hexdigest()


class Builder:
    def __init__(self, state, opts):
        self.state = state
        self.opts = opts
        self.log = _load_json(LOG)
        self.deps = _load_json(DEPS)
        self.explanations = []

    def explain(self, msg):
        if self.opts.get('explain'):
            sys.stderr.write('ninja explain: %s\n' % msg)

    # ---- dependency scan
    def load_deps(self, edge):
        deps_type = edge.binding('deps')
        if deps_type:
            out = edge.outputs[0]
            entry = self.deps.get(out.path)
            if entry is None:
                self.explain("deps for '%s' are missing" % out.path)
                return False
            if out.stat() != -1 and entry['mtime'] < out.stat():
                self.explain("stored deps info out of date for '%s'" % out.path)
                return False
            self.add_dep_nodes(edge, entry['deps'])
            return True
        depfile = edge.unescaped('depfile')
        if depfile:
            try:
                with open(depfile, encoding='utf-8', errors='surrogateescape') as f:
                    content = f.read()
            except FileNotFoundError:
                content = ''
            if not content:
                self.explain("depfile '%s' is missing" % depfile)
                return False
            targets, deps = parse_depfile(content)
            if not targets:
                raise NinjaError("%s: expected ':' in depfile" % depfile)
            first = canonicalize(targets[0])
            if first != edge.outputs[0].path:
                raise NinjaError("expected depfile '%s' to mention '%s', got '%s'"
                                 % (depfile, edge.outputs[0].path, first))
            self.add_dep_nodes(edge, deps)
        return True

    def add_dep_nodes(self, edge, deps):
        pos = len(edge.inputs) - edge.order_only_deps
        for d in deps:
            node = self.state.node(canonicalize(d))
            if node.in_edge is None and not node.out_edges:
                node.from_deps = True
            edge.inputs.insert(pos, node)
            pos += 1
            edge.implicit_deps += 1
            node.out_edges.append(edge)

    def recompute_dirty(self, node, stack=None):
        stack = stack or []
        edge = node.in_edge
        if edge is None:
            node.stat()
            if not node.exists():
                self.explain('%s has no in-edge and is missing' % node.path)
            node.dirty = not node.exists()
            return
        if edge.visited:
            return
        if edge in stack:
            raise NinjaError('dependency cycle: ' + ' -> '.join(
                e.outputs[0].path for e in stack + [edge]))
        stack.append(edge)
        dirty = False
        edge.outputs_ready = True
        edge.deps_missing = False
        if not edge.deps_loaded:
            edge.deps_loaded = True
            if not self.load_deps(edge):
                dirty = edge.deps_missing = True
        for o in edge.outputs:
            o.stat()
        most_recent = None
        for idx, i in enumerate(list(edge.inputs)):
            self.recompute_dirty(i, stack)
            if i.in_edge is not None and not i.in_edge.outputs_ready:
                edge.outputs_ready = False
            if not edge.is_order_only(idx):
                if i.dirty:
                    self.explain('%s is dirty' % i.path)
                    dirty = True
                elif most_recent is None or i.stat() > most_recent.stat():
                    most_recent = i
        if not dirty:
            dirty = self.outputs_dirty(edge, most_recent)
        for o in edge.outputs:
            if dirty:
                o.dirty = True
        if dirty and not (edge.is_phony() and not edge.inputs):
            edge.outputs_ready = False
        edge.visited = True
        stack.pop()

    def outputs_dirty(self, edge, most_recent):
        command = edge.command() if not edge.is_phony() else ''
        for o in edge.outputs:
            if self.output_dirty(edge, most_recent, command, o):
                return True
        return False

    def output_dirty(self, edge, most_recent, command, output):
        if edge.is_phony():
            if not edge.inputs and not output.exists():
                self.explain('output %s of phony edge with no inputs doesn\'t exist'
                             % output.path)
                return True
            return False
        if not output.exists():
            self.explain("output %s doesn't exist" % output.path)
            return True
        entry = self.log.get(output.path)
        output_mtime = output.stat()
        if edge.binding_bool('restat') and entry:
            output_mtime = entry['mtime']
        if most_recent is not None and output_mtime < most_recent.stat():
            self.explain('output %s older than most recent input %s'
                         % (output.path, most_recent.path))
            return True
        generator = edge.binding_bool('generator')
        if entry:
            if not generator and entry['hash'] != cmd_hash(command):
                self.explain('command line changed for %s' % output.path)
                return True
            if most_recent is not None and entry['mtime'] < most_recent.stat():
                self.explain('recorded mtime of %s older than most recent input %s'
                             % (output.path, most_recent.path))
                return True
        elif not generator:
            self.explain('command line not found in log for %s' % output.path)
            return True
        return False

    # ---- plan
    def plan(self, targets):
        want = {}
        order = []

        def add(node, dependent):
            edge = node.in_edge
            if edge is None:
                if node.dirty and not node.from_deps:
                    if dependent is not None:
                        raise NinjaError("'%s', needed by '%s', missing and no known "
                                         "rule to make it" % (node.path, dependent.path))
                    raise NinjaError("'%s' missing and no known rule to make it"
                                     % node.path)
                return
            if edge.outputs_ready:
                return
            first = id(edge) not in want
            if first:
                want[id(edge)] = [edge, False]
            if node.dirty and not want[id(edge)][1]:
                want[id(edge)][1] = True
            if not first:
                return
            for i in edge.inputs:
                add(i, node)
            order.append(edge)       # post-order = topological
        for t in targets:
            add(t, None)
        return [e for e in order if want[id(e)][1]]

    # ---- execution
    def now_stamp(self):
        with open(LOCK, 'w'):
            pass
        return os.stat(LOCK).st_mtime_ns

    def run_edge(self, edge):
        if edge.is_phony():
            return True
        for o in edge.outputs:
            d = os.path.dirname(o.path)
            if d:
                os.makedirs(d, exist_ok=True)
        rsp = edge.unescaped('rspfile')
        if rsp:
            with open(rsp, 'w') as f:
                f.write(edge.binding('rspfile_content'))
        cmd = edge.command()
        desc = edge.binding('description')
        start = self.now_stamp()
        if self.opts.get('verbose') or not desc:
            print(cmd)
        else:
            print(desc)
        sys.stdout.flush()
        if self.opts.get('dry'):
            return True
        console = edge.binding('pool') == 'console'
        if console:
            rc = subprocess.call(['/bin/sh', '-c', cmd])
        else:
            p = subprocess.run(['/bin/sh', '-c', cmd], stdin=subprocess.DEVNULL,
                               stdout=subprocess.PIPE, stderr=subprocess.STDOUT)
            rc = p.returncode
            if p.stdout:
                if rc != 0:
                    print('FAILED: ' + ' '.join(o.path for o in edge.outputs))
                sys.stdout.write(p.stdout.decode('utf-8', 'replace'))
            elif rc != 0:
                print('FAILED: ' + ' '.join(o.path for o in edge.outputs))
        sys.stdout.flush()
        if rc != 0:
            return False
        # deps
        deps_type = edge.binding('deps')
        restat = edge.binding_bool('restat')
        generator = edge.binding_bool('generator')
        record = start
        for o in edge.outputs:
            m = o.stat(force=True)
            if (restat or generator) and m > record:
                record = m
        if deps_type == 'gcc':
            depfile = edge.unescaped('depfile')
            if not depfile:
                raise NinjaError('edge with deps=gcc but no depfile makes no sense')
            try:
                with open(depfile, encoding='utf-8', errors='surrogateescape') as f:
                    content = f.read()
            except FileNotFoundError:
                content = ''
            deps = []
            if content:
                targets, deps = parse_depfile(content)
                if not targets:
                    raise NinjaError("%s: expected ':' in depfile" % depfile)
            try:
                os.remove(depfile)
            except FileNotFoundError:
                pass
            out = edge.outputs[0]
            self.deps[out.path] = {'mtime': out.stat(force=True),
                                   'deps': [canonicalize(d) for d in deps]}
            _save_json(DEPS, self.deps)
        elif deps_type:
            raise NinjaError("unknown deps type '%s'" % deps_type)
        if rsp:
            try:
                os.remove(rsp)
            except FileNotFoundError:
                pass
        h = cmd_hash(cmd)
        for o in edge.outputs:
            self.log[o.path] = {'hash': h, 'mtime': record}
        _save_json(LOG, self.log)
        return True

    def build(self, targets):
        for t in targets:
            self.recompute_dirty(t)
        edges = self.plan(targets)
        real = [e for e in edges if not e.is_phony()]
        if not real:
            return 'nowork'
        failures_allowed = self.opts.get('keep', 1)
        failed = set()
        ran = 0
        for e in edges:
            if any(i.in_edge is not None and id(i.in_edge) in failed
                   for i in e.inputs):
                failed.add(id(e))
                continue
            ok = self.run_edge(e)
            ran += 1
            if not ok:
                failed.add(id(e))
                failures_allowed -= 1
                if failures_allowed == 0:
                    break
        if failed:
            return 'failed'
        return 'ok'


def load(manifest):
    state = State()
    Parser(state, manifest).parse()
    return state


def tool_clean(state, generator_too, targets=None):
    removed = 0
    for e in state.edges:
        if e.is_phony():
            continue
        if e.binding_bool('generator') and not generator_too:
            continue
        paths = [o.path for o in e.outputs]
        for key in ('depfile', 'rspfile'):
            v = e.unescaped(key)
            if v:
                paths.append(v)
        for p in paths:
            try:
                if os.path.isdir(p) and not os.path.islink(p):
                    continue       # ninja's RemoveFile fails on directories
                os.remove(p)
                removed += 1
            except FileNotFoundError:
                pass
    print('Cleaning... %d files.' % removed)
    return 0


def main(argv):
    opts = {'keep': 1}
    manifest = 'build.ninja'
    targets = []
    tool = None
    toolargs = []
    i = 0
    while i < len(argv):
        a = argv[i]
        if tool is not None:
            toolargs.append(a)
        elif a == '--version':
            print(VERSION)
            return 0
        elif a == '-C':
            i += 1
            os.chdir(argv[i])
        elif a.startswith('-C') and len(a) > 2:
            os.chdir(a[2:])
        elif a == '-f':
            i += 1
            manifest = argv[i]
        elif a == '-k':
            i += 1
            opts['keep'] = int(argv[i]) or 10 ** 9
        elif a.startswith('-k') and len(a) > 2:
            opts['keep'] = int(a[2:]) or 10 ** 9
        elif a == '-j' or a == '-l':
            i += 1
        elif a.startswith('-j') or a.startswith('-l'):
            pass
        elif a == '-n':
            opts['dry'] = True
        elif a == '-v' or a == '--verbose':
            opts['verbose'] = True
        elif a == '-d':
            i += 1
            if argv[i] == 'explain':
                opts['explain'] = True
        elif a == '-t':
            i += 1
            tool = argv[i]
        elif a == '-w':
            i += 1
        elif a.startswith('-'):
            sys.stderr.write('ninja: unknown option %s\n' % a)
            return 1
        else:
            targets.append(a)
        i += 1
    try:
        if tool == 'clean':
            state = load(manifest)
            return tool_clean(state, '-g' in toolargs)
        elif tool is not None:
            sys.stderr.write("ninja: fatal: unknown tool '%s'\n" % tool)
            return 1

        for cycle in range(101):
            state = load(manifest)
            if cycle == 100:
                raise NinjaError("manifest '%s' still dirty after 100 tries" % manifest)
            builder = Builder(state, opts)
            mnode = state.nodes.get(canonicalize(manifest))
            if mnode is not None and mnode.in_edge is not None and not opts.get('dry'):
                r = builder.build([mnode])
                if r == 'failed':
                    raise NinjaError("rebuilding '%s': subcommand failed" % manifest)
                if r == 'ok':
                    continue       # reload
            break

        state = load(manifest)
        builder = Builder(state, opts)
        if targets:
            nodes = []
            for t in targets:
                p = canonicalize(t)
                n = state.nodes.get(p)
                if n is None:
                    raise NinjaError("unknown target '%s'" % p)
                nodes.append(n)
        else:
            nodes = state.default_nodes()
        r = builder.build(nodes)
        if r == 'nowork':
            print('ninja: no work to do.')
            return 0
        if r == 'failed':
            print('ninja: build stopped: subcommand failed.')
            return 1
        return 0
    except NinjaError as e:
        sys.stdout.flush()
        sys.stderr.write('ninja: error: %s\n' % e)
        return 1


if __name__ == '__main__':
    sys.exit(main(sys.argv[1:]))
