"""c18ref: reference model of "what belongs in the source distribution".

Never imports bfg9000.  Input: the extended spec of vf/gen/c18gen.py (plain
data) and the project's file tree (a dict of srcdir-relative paths).  Output: for
every path of the tree one of

    required   the documentation promises it is in the archive (with the reason =
               the builtin / mechanism through which the script mentions it)
    nodist     only mentioned through objects marked dist=False -> must be absent
    optional   the documentation does not decide (counted, never judged)
    (nothing)  not mentioned by any script -> must be absent

plus the set of directories that may appear as (empty) directory members.

The glob rules implemented here are the documented ones (doc/reference/
builtins.md, find_files): `*`, `?`, `[abc]`, `[!abc]` inside one component, `**`
= zero or more components; a pattern ending in `/` matches directories only,
otherwise files only, unless type= says otherwise; extra=/exclude= are simple
globs on the basename (same `/` rule); an excluded directory takes all its
children with it; default excludes; FindResult values of a filter.
"""
import fnmatch
import posixpath

DEFAULT_EXCLUDE = ['*~', '#*#']      # ('.#*' / '.*#': never generated)
FOREIGN_PLATFORMS = ['darwin', 'cygwin', 'windows', 'winnt', 'win9x', 'msdos']

# priority order of reasons (first one names the mechanism of a finding)
PRIORITY = ['script:build.bfg', 'script:options.bfg', 'script:submodule-build',
            'script:submodule-options']


def _comp(glob, name):
    return fnmatch.fnmatchcase(name, glob)


def path_match(pcomps, comps):
    if not pcomps:
        return not comps
    if pcomps[0] == '**':
        return any(path_match(pcomps[1:], comps[i:]) for i in range(len(comps) + 1))
    if not comps:
        return False
    return _comp(pcomps[0], comps[0]) and path_match(pcomps[1:], comps[1:])


def _is_glob(c):
    return any(ch in c for ch in '*?[')


def split_pattern(pattern):
    """-> (base components, glob components, wants_dir)"""
    wants_dir = pattern.endswith('/')
    comps = [c for c in pattern.split('/') if c and c != '.']
    for i, c in enumerate(comps):
        if _is_glob(c):
            return comps[:i], comps[i:], wants_dir
    return comps, [], wants_dir


def dirs_of(files):
    res = set()
    for f in files:
        d = posixpath.dirname(f)
        while d:
            res.add(d)
            d = posixpath.dirname(d)
    return res


def _kind_ok(type_, wants_dir, isdir):
    if type_ is None:
        return isdir == wants_dir
    if type_ == '*':
        return True
    return isdir == (type_ == 'd')


def name_glob_match(globs, type_, path, isdir):
    base = posixpath.basename(path)
    for g in globs or []:
        wants_dir = g.endswith('/')
        if _kind_ok(type_, wants_dir, isdir) and _comp(g.rstrip('/'), base):
            return True
    return False


def custom_filter(path, isdir):
    """The filter function c18gen writes into the scripts (c18flt)."""
    b = posixpath.basename(path)
    if isdir:
        return 'exclude_recursive' if 'prune' in b else 'include'
    if 'later' in b:
        return 'not_now'
    if 'omit' in b:
        return 'exclude'
    return 'include'


def platform_filter(path, isdir):
    """filter_by_platform as documented, for a linux/posix target: names like
    PLATFORM or foo_PLATFORM.ext (file or directory) of another platform."""
    comps = path.split('/')
    for i, c in enumerate(comps):
        last = i == len(comps) - 1
        stem = c
        if last and not isdir and '.' in c:
            stem = c.rsplit('.', 1)[0]
        for p in FOREIGN_PLATFORMS:
            if stem == p or stem.endswith('_' + p):
                return 'not_now'
    return 'include'


FILTERS = {None: lambda p, d: 'include', 'custom': custom_filter,
           'platform': platform_filter}


class FindModel:
    """Evaluate one find_files()-like call on the tree."""

    def __init__(self, files, patterns, type_=None, extra=None, exclude=None, flt=None):
        self.files = sorted(files)
        self.dirs = sorted(dirs_of(files))
        self.patterns = [split_pattern(p) for p in patterns]
        self.type = type_
        self.extra = extra or []
        self.exclude = list(exclude or []) + DEFAULT_EXCLUDE
        self.flt = FILTERS[flt]
        self.found = []          # included files (the call's result), files only
        self.required = {}       # path -> 'include' | 'extra' | 'filter-not_now'
        self.optional = set()
        self.found_dirs = set()
        self._run()

    def _pruned(self, base, comps):
        """Is a directory strictly between base and the entry excluded recursively
        (exclude= glob matching a directory, or the filter saying so)?"""
        for n in range(len(base) + 1, len(comps)):
            anc = '/'.join(comps[:n])
            if name_glob_match(self.exclude, self.type, anc, True):
                return True
            if self.flt(anc, True) == 'exclude_recursive':
                return True
        return False

    def _run(self):
        entries = [(f, False) for f in self.files] + [(d, True) for d in self.dirs]
        for path, isdir in entries:
            comps = path.split('/')
            inc = False
            scope = None          # None | 'sure' | 'unsure'
            pruned = False
            for base, glob, wants_dir in self.patterns:
                if not (comps[:len(base)] == base and len(comps) > len(base)):
                    continue
                if self._pruned(base, comps):
                    pruned = True
                if path_match(glob, comps[len(base):]) and \
                   _kind_ok(self.type, wants_dir, isdir):
                    inc = True
                # where are extra= matches looked for?  certainly in the directory
                # a single-level pattern names, and everywhere below the base of a
                # pattern that starts with **; elsewhere the documentation is silent
                depth = len(comps) - len(base)
                if glob and glob[0] == '**':
                    sc = 'sure'
                elif len(glob) == 1 and depth == 1:
                    sc = 'sure'
                else:
                    sc = 'unsure'
                if sc == 'sure' or scope is None:
                    scope = sc
            if scope is None:
                continue
            excluded = name_glob_match(self.exclude, self.type, path, isdir)
            is_extra = name_glob_match(self.extra, self.type, path, isdir)
            f = self.flt(path, isdir)
            if f == 'exclude_recursive':
                f = 'exclude'
            if pruned or excluded:
                if is_extra and not isdir:
                    self.optional.add(path)
                continue
            if inc:
                if isdir:
                    if f != 'exclude':
                        self.found_dirs.add(path)
                elif f == 'include':
                    self.found.append(path)
                    self.required[path] = 'include'
                elif f == 'not_now':
                    self.required[path] = 'filter-not_now'
            elif is_extra:
                if isdir:
                    self.found_dirs.add(path)
                elif f == 'exclude':
                    self.optional.add(path)
                elif scope == 'sure':
                    self.required[path] = 'extra'
                else:
                    self.optional.add(path)


class DistModel:
    def __init__(self):
        self.req = {}         # path -> set(reasons)
        self.nodist = {}      # path -> set(reasons)
        self.opt = set()
        self.dirs_ok = set()  # directories that may be (empty) members
        self.dirs_nodist = {}  # dir -> set(reasons)

    def require(self, path, reason):
        self.req.setdefault(posixpath.normpath(path), set()).add(reason)

    def forbid(self, path, reason):
        self.nodist.setdefault(posixpath.normpath(path), set()).add(reason)

    def add(self, path, reason, dist):
        (self.require if dist else self.forbid)(path, reason)

    def add_dir(self, path, reason, dist):
        path = posixpath.normpath(path)
        if dist:
            self.dirs_ok.add(path)
        else:
            self.dirs_nodist.setdefault(path, set()).add(reason)

    def finish(self, tree_files):
        """-> (required {path: reason}, nodist {path: reason}, optional set,
        allowed dirs, nodist dirs {dir: reason}, mixed count)"""
        mixed = set(self.req) & set(self.nodist)
        opt = set(self.opt) | mixed
        req = {p: first_reason(r) for p, r in self.req.items() if p not in opt}
        nod = {p: first_reason(r) for p, r in self.nodist.items()
               if p not in opt and p not in self.req}
        dirs_ok = set(self.dirs_ok) | dirs_of(list(req) + list(opt))
        dnod = {d: first_reason(r) for d, r in self.dirs_nodist.items() if d not in dirs_ok}
        return req, nod, opt, dirs_ok, dnod, len(mixed)


def first_reason(reasons):
    rs = sorted(reasons, key=lambda r: (PRIORITY.index(r) if r in PRIORITY else 99, r))
    return rs[0]
