"""Self-test corpus for refninja: examples from the Ninja manual + lexer rules."""
import os
import subprocess
import sys
import tempfile

HERE = os.path.dirname(os.path.abspath(__file__))
sys.path.insert(0, HERE)
import refninja as rn   # noqa: E402


def run(manifest, args=(), files=None):
    d = tempfile.mkdtemp(prefix='rn-')
    try:
        with open(os.path.join(d, 'build.ninja'), 'w') as f:
            f.write(manifest)
        if files:
            import time
            time.sleep(0.02)
        for k, v in (files or {}).items():
            with open(os.path.join(d, k), 'w') as f:
                f.write(v)
        p = subprocess.run([sys.executable, os.path.join(HERE, 'refninja.py')] + list(args),
                           cwd=d, stdout=subprocess.PIPE, stderr=subprocess.STDOUT)
        outs = {}
        for n in os.listdir(d):
            if os.path.isfile(os.path.join(d, n)) and not n.startswith('.refninja') \
               and n != 'build.ninja':
                outs[n] = open(os.path.join(d, n)).read()
        return p.returncode, p.stdout.decode(), outs, d
    finally:
        pass


def check(cond, what):
    if not cond:
        raise SystemExit('refninja self-test FAILED: ' + what)


def main():
    import shutil
    # 1. variable scoping: build-level shadows rule-level shadows file-level;
    #    rule bindings are evaluated lazily in edge scope.
    m = '''
x = file
y = filey
rule r
  command = printf '%s\\n' "$x $y $description ${w.dot}" > $out
  description = rulez-$x
build o1: r
  x = build
build o2: r
w.dot = late
'''
    rc, out, outs, d = run(m)
    check(rc == 0, 'scoping rc ' + out)
    check(outs['o1'] == 'build filey rulez-build late\n', 'o1=%r' % outs['o1'])
    check(outs['o2'] == 'file filey rulez-file late\n', 'o2=%r' % outs['o2'])
    shutil.rmtree(d)

    # 2. escapes: $$ $space $: and $\n continuation; paths end at space : |
    m = '''
rule cp
  command = cp $in $out
rule sh
  command = printf '%s' '$$HOME a$ b c$:d' > $out
build a$ b$:c: cp in$ 1
build lit: sh
build cont: $
    cp $
    in$ 1
'''
    rc, out, outs, d = run(m, files={'in 1': 'DATA'})
    check(rc == 0, 'escapes rc ' + out)
    check(outs.get('a b:c') == 'DATA', 'escaped output name: %r' % list(outs))
    check(outs['lit'] == '$HOME a b c:d', 'lit=%r' % outs['lit'])
    check(outs['cont'] == 'DATA', 'continuation')
    shutil.rmtree(d)

    # 3. bad $-escape is an error; unknown rule variable is an error
    rc, out, outs, d = run('rule r\n  command = echo $%\nbuild x: r\n')
    check(rc == 1 and 'bad $-escape' in out, 'bad escape: ' + out)
    shutil.rmtree(d)
    rc, out, outs, d = run('rule r\n  command = echo\n  cmd = x\nbuild x: r\n')
    check(rc == 1 and 'unexpected variable' in out, 'rule var: ' + out)
    shutil.rmtree(d)

    # 4. $in/$out shell escaping, implicit and order-only inputs not in $in
    m = '''
rule r
  command = printf '%s|' $in > $out
build out: r a$ b c'd | imp || oo
build imp: phony
build oo: phony
'''
    rc, out, outs, d = run(m, files={'a b': '', "c'd": ''})
    check(rc == 0, 'in/out rc ' + out)
    check(outs['out'] == "a b|c'd|", 'in escaping %r' % outs['out'])
    shutil.rmtree(d)

    # 5. incremental: second run does nothing; touching input rebuilds;
    #    command change rebuilds; phony without inputs and missing output is
    #    always dirty; multiple rules for one output is an error.
    m = '''
rule cat
  command = cat $in > $out
rule always
  command = echo ran >> $out
build PHONY: phony
build mid: cat src
build top: cat mid
build log: always | PHONY
default top
'''
    rc, out, outs, d = run(m, files={'src': '1'})
    check(rc == 0 and outs.get('top') == '1', 'first build ' + out)
    exe = [sys.executable, os.path.join(HERE, 'refninja.py')]
    p = subprocess.run(exe, cwd=d, stdout=subprocess.PIPE)
    check(b'no work to do' in p.stdout, 'second run: %r' % p.stdout)
    import time
    time.sleep(0.02)
    with open(os.path.join(d, 'src'), 'w') as f:
        f.write('2')
    p = subprocess.run(exe, cwd=d, stdout=subprocess.PIPE)
    check(open(os.path.join(d, 'top')).read() == '2', 'rebuild after touch')
    p = subprocess.run(exe + ['log'], cwd=d, stdout=subprocess.PIPE)
    p = subprocess.run(exe + ['log'], cwd=d, stdout=subprocess.PIPE)
    check(open(os.path.join(d, 'log')).read() == 'ran\nran\n', 'always-dirty phony')
    with open(os.path.join(d, 'build.ninja')) as f:
        txt = f.read()
    with open(os.path.join(d, 'build.ninja'), 'w') as f:
        f.write(txt.replace('cat $in > $out', 'cat $in $in > $out'))
    p = subprocess.run(exe, cwd=d, stdout=subprocess.PIPE)
    check(open(os.path.join(d, 'top')).read() == '2222', 'command change rebuilds')
    p = subprocess.run(exe + ['-t', 'clean'], cwd=d, stdout=subprocess.PIPE)
    check(not os.path.exists(os.path.join(d, 'top')) and
          os.path.exists(os.path.join(d, 'src')), 'clean')
    shutil.rmtree(d)
    rc, out, outs, d = run('rule r\n  command = true\nbuild a: r\nbuild a: r\n')
    check(rc == 1 and 'multiple rules generate a' in out, 'dup output: ' + out)
    shutil.rmtree(d)

    # 6. deps = gcc: depfile consumed, header change rebuilds, removed header ok
    m = '''
rule cc
  command = cat $in > $out && printf '%s: hdr\\ 1.h other.h\\n' $out > $out.d
  depfile = $out.d
  deps = gcc
build obj: cc src
'''
    rc, out, outs, d = run(m, files={'src': 's', 'hdr 1.h': 'h', 'other.h': 'o'})
    check(rc == 0 and not os.path.exists(os.path.join(d, 'obj.d')), 'depfile removed')
    p = subprocess.run(exe, cwd=d, stdout=subprocess.PIPE)
    check(b'no work to do' in p.stdout, 'deps second run %r' % p.stdout)
    time.sleep(0.02)
    os.utime(os.path.join(d, 'hdr 1.h'), None)
    p = subprocess.run(exe, cwd=d, stdout=subprocess.PIPE)
    check(b'cat src' in p.stdout, 'header touch rebuilds: %r' % p.stdout)
    os.remove(os.path.join(d, 'other.h'))
    p = subprocess.run(exe, cwd=d, stdout=subprocess.PIPE)
    check(p.returncode == 0 and b'cat src' in p.stdout, 'missing dep header rebuilds')
    shutil.rmtree(d)

    # 7. missing manifest input without rule is an error; order-only built first
    rc, out, outs, d = run('rule r\n  command = touch $out\nbuild a: r nothere\n')
    check(rc == 1 and 'missing and no known rule' in out, 'missing input: ' + out)
    shutil.rmtree(d)

    # 8. generator rules: not cleaned without -g, no rebuild on command change;
    #    manifest regeneration + reload
    m = '''
rule regen
  command = sed -i 's/VALUE1/VALUE2/' build.ninja
  generator = 1
rule w
  command = echo VALUE1 > $out
build build.ninja: regen | trigger
build o: w
'''
    rc, out, outs, d = run(m, files={'trigger': ''})
    # build.ninja older than trigger? written first, so trigger is newer -> regen
    check(rc == 0 and outs.get('o') == 'VALUE2\n', 'manifest regenerated+reloaded: %r %s'
          % (outs, out))
    shutil.rmtree(d)

    # 9. depfile parser
    t, dps = rn.parse_depfile('a.o: b\\ c.h d\\#e.h \\\n  f$$g.h\n')
    check(t == ['a.o'] and dps == ['b c.h', 'd#e.h', 'f$g.h'], 'depfile parse %r %r' % (t, dps))
    check(rn.shell_escape("a b") == "'a b'" and rn.shell_escape('a+b-c./_') == 'a+b-c./_',
          'shell escape')
    check(rn.canonicalize('./a/../b//c/.') == 'b/c' and rn.canonicalize('../x') == '../x',
          'canonicalize')
    print('refninja self-test ok')


if __name__ == '__main__':
    main()
