"""Reference model of what a declared project argument means on a command line.

Independent of bfg9000 and of argparse: written from the documentation of
`argument()` (doc/reference/builtins.md) and the documented semantics of
argparse actions restricted to the forms the C19 generator emits:

  store (default/type=int/choices/nargs in {None,'?',2,'*','+'}), store_true,
  store_false, store_const, append, count, enable, with.

A declaration is
  {'names': [..], 'action': str, 'dest': str|None, 'default': <json>|absent,
   'type': 'int'|None, 'choices': [..]|None, 'nargs': None|'?'|int|'*'|'+',
   'const': <json>|absent, 'required': bool}
An occurrence is
  {'decl': index, 'name': alias, 'neg': bool, 'values': [str..]|None,
   'eq': bool, 'x': bool}
   values None = flag without value; eq=True renders --name=VALUE (exactly one
   value), otherwise --name V1 V2 ...
"""

TOGGLE = {'enable': ('enable-', 'disable-'), 'with': ('with-', 'without-')}


class ArgError(Exception):
    pass


def dest_of(decl):
    if decl.get('dest'):
        return decl['dest']
    return decl['names'][0].replace('-', '_')


def render(decl, occ, x=None):
    """-> list of argv tokens for this occurrence."""
    x = occ['x'] if x is None else x
    name = occ['name']
    act = decl['action']
    if act in TOGGLE:
        name = TOGGLE[act][1 if occ['neg'] else 0] + name
    opt = '--' + ('x-' if x else '') + name
    vals = occ.get('values')
    if vals is None:
        return [opt]
    if occ.get('eq'):
        assert len(vals) == 1
        return [opt + '=' + vals[0]]
    return [opt] + list(vals)


def _convert(decl, s):
    if decl.get('type') == 'int':
        try:
            # what Python's int() accepts on a str the generator emits
            if not s.strip() or any(c not in '+-0123456789' for c in s.strip()):
                raise ValueError
            v = int(s)
        except ValueError:
            raise ArgError('type')
    else:
        v = s
    ch = decl.get('choices')
    if ch is not None and v not in ch:
        raise ArgError('choice')
    return v


def namespace(decls, occs):
    """-> ('ok', {dest: value}) | ('error', why)"""
    ns = {}
    seen_required = set()
    # defaults first (argparse sets every default before parsing)
    for d in decls:
        dest = dest_of(d)
        if dest in ns:
            continue
        act = d['action']
        if 'default' in d:
            ns[dest] = d['default']
        elif act == 'store_true':
            ns[dest] = False
        elif act == 'store_false':
            ns[dest] = True
        elif act in TOGGLE:
            ns[dest] = False
        else:
            ns[dest] = None
    try:
        for o in occs:
            d = decls[o['decl']]
            dest = dest_of(d)
            act = d['action']
            vals = o.get('values')
            seen_required.add(o['decl'])
            if act in TOGGLE:
                ns[dest] = not o['neg']
            elif act == 'store_true':
                ns[dest] = True
            elif act == 'store_false':
                ns[dest] = False
            elif act == 'store_const':
                ns[dest] = d['const']
            elif act == 'count':
                ns[dest] = (ns[dest] or 0) + 1
            elif act == 'append':
                cur = list(ns[dest]) if ns[dest] is not None else []
                cur.append(_convert(d, vals[0]))
                ns[dest] = cur
            elif act == 'store':
                nargs = d.get('nargs')
                if nargs is None:
                    if vals is None or len(vals) != 1:
                        raise ArgError('arity')
                    ns[dest] = _convert(d, vals[0])
                elif nargs == '?':
                    if vals is None:
                        ns[dest] = d.get('const')
                    else:
                        ns[dest] = _convert(d, vals[0])
                elif nargs in ('*', '+'):
                    vs = vals or []
                    if nargs == '+' and not vs:
                        raise ArgError('arity')
                    ns[dest] = [_convert(d, v) for v in vs]
                else:
                    vs = vals or []
                    if len(vs) != nargs:
                        raise ArgError('arity')
                    ns[dest] = [_convert(d, v) for v in vs]
            else:
                raise AssertionError(act)
        for i, d in enumerate(decls):
            if d.get('required') and i not in seen_required:
                raise ArgError('required')
    except ArgError as e:
        return ('error', str(e))
    return ('ok', ns)


def decl_source(decl, name_exprs=None):
    """Python source of the argument() call.  name_exprs: optional list of
    python expressions to use for the names instead of literals."""
    parts = list(name_exprs) if name_exprs else [repr(n) for n in decl['names']]
    act = decl['action']
    if act != 'store' or decl.get('explicit_action'):
        parts.append('action=%r' % act)
    if decl.get('dest'):
        parts.append('dest=%r' % decl['dest'])
    if 'default' in decl:
        parts.append('default=%r' % (decl['default'],))
    if decl.get('type') == 'int':
        parts.append('type=int')
    if decl.get('choices') is not None:
        parts.append('choices=%r' % (decl['choices'],))
    if decl.get('nargs') is not None:
        parts.append('nargs=%r' % (decl['nargs'],))
    if 'const' in decl:
        parts.append('const=%r' % (decl['const'],))
    if decl.get('required'):
        parts.append('required=True')
    if decl.get('help'):
        parts.append('help=%r' % decl['help'])
    if decl.get('metavar'):
        parts.append('metavar=%r' % decl['metavar'])
    return 'argument(%s)' % ', '.join(parts)
