"""C16 reference side: textbook GCC/Clang flags, probe sources, hand-written
compiler commands, and observation of what was really built.

Nothing in this file imports or calls bfg9000.  The flag table below is the
one found in the GCC manual ("-Os  Optimize for size", "-isystem dir", ...);
every use of it is *calibrated*: the hand-written command must succeed and the
probe must show the effect on this machine, otherwise the sub-case is excluded.
"""
import os
import re
import shlex

from .. import core

LANGS = {
    'c':   {'ext': '.c',   'ccvar': 'CC',  'flagsvar': 'CFLAGS',
            'pchx': 'c-header'},
    'c++': {'ext': '.cpp', 'ccvar': 'CXX', 'flagsvar': 'CXXFLAGS',
            'pchx': 'c++-header'},
    'f95': {'ext': '.f90', 'ccvar': 'FC',  'flagsvar': 'FFLAGS',
            'pchx': None},
}
COMPILERS = {
    'gcc':   {'c': 'gcc',   'c++': 'g++',     'f95': 'gfortran'},
    'clang': {'c': 'clang', 'c++': 'clang++', 'f95': 'gfortran'},
}

DOCSTR = '"This is a string, isn\'t it?"'      # the example in builtins.md

WARN = {'disable': '-w', 'all': '-Wall', 'extra': '-Wextra', 'error': '-Werror'}
OPTIM = {'disable': '-O0', 'size': '-Os', 'speed': '-O3', 'linktime': '-flto'}

COMPILE_PLACES = ('global', 'target', 'object', 'kwarg_c', 'toolchain',
                  'cflags', 'cppflags', 'shlib')
LINK_PLACES = ('global_link', 'link', 'kwarg_l', 'toolchain_link',
               'toolchain_libs', 'ldflags', 'ldlibs', 'fwd')
RAW_PLACES = ('toolchain', 'cflags', 'cppflags', 'toolchain_link',
              'toolchain_libs', 'ldflags', 'ldlibs')
PROJECT_PLACES = ('global', 'global_link') + RAW_PLACES


def def_name(idx, val):
    return 'VFDD' if val.startswith('dup') else 'VFD%d' % idx


# raw flag sequences given as plain strings in one option list: repeated
# tokens, two-token options, a macro defined twice (order is the user's)
RAW = {
    'O3-O0-O3': ['-O3', '-O0', '-O3'],
    'O0-O3-O0': ['-O0', '-O3', '-O0'],
    'include2': ['-include', '@SRC@/inc0/vf_inc0.h',
                 '-include', '@SRC@/inc1/vf_inc1.h'],
    'D1-D2': ['-DVFR=1', '-DVFR=2'],
}


def site_of(place):
    if place in COMPILE_PLACES:
        return 'compile'
    if place in LINK_PLACES:
        return 'link'
    raise ValueError(place)


# --------------------------------------------------------------------------
# the reference flag table

def ref_flags(item, idx, src):
    """-> {'c': compile flags, 'l': link flags (before the objects),
           'libs': link flags after the objects}   for one item."""
    opt, val, site = item['opt'], item['val'], site_of(item['place'])
    c, l, libs = [], [], []
    if site == 'compile':
        if opt == 'define':
            name = def_name(idx, val)
            c = {'none': ['-D' + name], 'int': ['-D%s=42' % name],
                 'docstr': ['-D%s=%s' % (name, DOCSTR)],
                 'empty': ['-D%s=' % name], 'dupA': ['-D%s=1' % name],
                 'dupB': ['-D%s=2' % name]}[val]
        elif opt == 'raw':
            c = [x.replace('@SRC@', src) for x in RAW[val]]
        elif opt == 'std':
            c = ['-std=' + val]
        elif opt == 'include':
            c = ['-I%s/inc%d' % (src, idx)]
        elif opt == 'sysinclude':
            c = ['-isystem', '%s/sys%d' % (src, idx)]
        elif opt == 'warning':
            c = [WARN[v] for v in val.split('+')]
        elif opt == 'debug':
            c = ['-g']
        elif opt == 'optimize':
            c = [OPTIM[v] for v in val.split('+')]
        elif opt == 'pic':
            c = ['-fPIC']
        elif opt == 'pthread':
            c = ['-pthread']
        elif opt == 'sanitize':
            c = ['-fsanitize=address']
        elif opt in ('static', 'pch'):
            c = []          # static: no compile-time meaning; pch: see build
        else:
            raise ValueError(item)
    else:
        if opt == 'debug':
            l = ['-g']
        elif opt == 'optimize':
            l = [OPTIM[v] for v in val.split('+')]
        elif opt == 'pthread':
            l = ['-pthread']
        elif opt == 'static':
            l = ['-static']
        elif opt == 'entry_point':
            l = ['-Wl,-e,vf_alt_entry']
        elif opt == 'lib':
            libs = {'m': ['-lm'], 'vfext': ['-lvfext'],
                    'file': ['%s/ext/libvfext.a' % src]}[val]
        elif opt == 'lib_dir':
            l = ['-L%s/ext' % src]
        elif opt == 'gui':
            l = []
        else:
            raise ValueError(item)
    return {'c': c, 'l': l, 'libs': libs}


def carriers(item, idx, src, lang=None):
    """Raw flags that must accompany an item for its effect to be observable
    or buildable at all; given verbatim to both bfg9000 (as raw strings in the
    per-target lists) and the reference."""
    opt, val, site = item['opt'], item['val'], site_of(item['place'])
    c, l, libs = [], [], []
    if site == 'compile':
        if opt == 'sysinclude':
            c = ['-Wall', '-Werror']
        elif opt == 'sanitize' and val != 'nolink':
            l = ['-fsanitize=address']
        elif opt == 'optimize' and 'linktime' in val.split('+'):
            l = ['-flto']       # clang: bitcode objects need an LTO link
    else:
        if opt == 'debug':
            c, l = ['-flto'], ['-flto']     # gcc: -g at link matters for LTO
        elif opt == 'optimize':
            c = ['-flto']
            if 'linktime' not in val.split('+'):
                l = ['-flto']
        elif opt == 'lib' and val == 'vfext':
            l = ['-L%s/ext' % src]
        elif opt == 'lib_dir':
            libs = ['-lvfext']              # bfg side: opts.lib('vfext')
    if lang == 'f95':
        c = ['-cpp'] + c                    # macro probes need the preprocessor
    return {'c': c, 'l': l, 'libs': libs}


def features(items, lang=None):
    f = set()
    for idx, it in enumerate(items):
        opt, val, place = it['opt'], it['val'], it['place']
        site = site_of(place)
        if opt == 'define':
            f.add(('define', idx, val))
        elif opt == 'raw' and val == 'include2':
            f.add('finc')
        elif opt == 'raw' and val == 'D1-D2':
            f.add('rawd')
        elif opt == 'include':
            f.add(('inc', idx))
        elif opt == 'sysinclude':
            f.add(('sys', idx))
        elif opt == 'warning':
            f.add('warn')
        elif opt == 'pch':
            f.add('pch')
            if val == 'two-sources':
                f.add('aux')
                f.add('pch2')
        elif opt == 'entry_point':
            f.add('alt_entry')
        elif opt == 'lib' and val == 'm':
            f.add('math')
        elif (opt == 'lib' and val in ('vfext', 'file')) or opt == 'lib_dir':
            f.add('ext')
        elif opt == 'optimize' and site == 'link':
            f.add('aux')
        elif opt == 'std' and lang == 'f95':
            f.add('fstd')
        if place == 'fwd':
            f.add('aux')
            f.add('fwd')
        if place == 'shlib':
            f.add('aux')
            f.add('shlib')
    if 'fwd' in f and 'shlib' in f:
        f.discard('fwd')
    return f


AUXABLE = ('FINC', 'RAWD', 'DEF', 'STDC', 'CPP', 'STRICT', 'INC', 'SYS', 'OPT', 'OPTSIZE',
           'REENTRANT', 'ASAN', 'PCH')


def aspects(item, idx, lang=None, shlib=False):
    """shlib: the sub-case also builds a shared_library from the aux TU with the
    same options; macro-level aspects are then demanded of that TU too."""
    base = _aspects(item, idx, lang)
    if shlib and site_of(item['place']) == 'compile' and item['place'] != 'shlib':
        base = base + ['AUX_' + k for k in base
                       if re.sub(r'\d+$', '', k) in AUXABLE]
        if item['opt'] == 'pch':
            base.append('gch_a')
    return base


def _aspects(item, idx, lang=None):
    opt, val, site = item['opt'], item['val'], site_of(item['place'])
    if site == 'compile':
        if item['place'] == 'shlib':
            return ['AUX_PIC', 'AUX_PIE']
        if lang == 'f95' and opt == 'std':
            return ['fstd']
        if opt == 'raw':
            return {'O3-O0-O3': ['OPT'], 'O0-O3-O0': ['OPT'],
                    'include2': ['FINC0', 'FINC1'], 'D1-D2': ['RAWD']}[val]
        return {
            'define': ['DEF%d' % idx], 'std': ['STDC', 'CPP', 'STRICT'],
            'include': ['INC%d' % idx], 'sysinclude': ['SYS%d' % idx],
            'warning': ['w0', 'w1', 'w2', 'w3'], 'debug': ['obj_debug'],
            'optimize': ['OPT', 'OPTSIZE', 'obj_lto'], 'pic': ['PIC', 'PIE'],
            'pthread': ['REENTRANT'], 'sanitize': ['ASAN'], 'static': [],
            'pch': ['PCH', 'gch'],
        }[opt]
    return {
        'debug': ['exe_debug'], 'optimize': ['helper_sym'],
        'pthread': ['needed'], 'static': ['interp', 'needed'],
        'entry_point': ['entry_is'],
        'lib': ['MATH'] if val == 'm' else ['EXT'], 'lib_dir': ['EXT'],
        'gui': [],
    }[opt]


STD_VALUE = {'c89': None, 'c90': None, 'c99': '199901L', 'c11': '201112L',
             'c17': '201710L', 'gnu89': None, 'gnu99': '199901L',
             'gnu11': '201112L', 'gnu17': '201710L',
             'c++98': '199711L', 'c++03': '199711L', 'c++11': '201103L',
             'c++14': '201402L', 'c++17': '201703L', 'c++20': '202002L',
             'gnu++98': '199711L', 'gnu++11': '201103L', 'gnu++14': '201402L',
             'gnu++17': '201703L', 'gnu++20': '202002L'}


def absolute(item, idx, lang):
    """What the documentation promises in absolute terms, for a singleton:
    {aspect: predicate}.  A reference artefact that does not show it means this
    machine cannot honour the option (=> excluded, never blamed)."""
    opt, val, site = item['opt'], item['val'], site_of(item['place'])
    eq = lambda v: (lambda x: x == v)   # noqa: E731
    if site == 'compile':
        if item['place'] == 'shlib':
            return {'AUX_PIC': lambda x: x not in (None, '0'),
                    'AUX_PIE': eq('0')}
        if opt == 'define':
            return {'DEF%d' % idx: eq({'none': '1', 'int': '42',
                                       'docstr': DOCSTR[1:-1],
                                       'empty': '', 'dupA': '1',
                                       'dupB': '2'}[val])}
        if opt == 'raw':
            return {'O3-O0-O3': {'OPT': eq('1')}, 'O0-O3-O0': {'OPT': eq('0')},
                    'include2': {'FINC0': eq('11'), 'FINC1': eq('11')},
                    'D1-D2': {'RAWD': eq('2')}}[val]
        if opt == 'std' and lang == 'f95':
            return {'fstd': eq([False, 'error'] if val == 'f95'
                               else [True, 'none'])}
        if opt == 'std':
            key = 'CPP' if lang == 'c++' else 'STDC'
            out = {'STRICT': eq('0' if val.startswith('gnu') else '1')}
            if STD_VALUE.get(val):
                out[key] = eq(STD_VALUE[val])
            return out
        if opt == 'include':
            return {'INC%d' % idx: eq('11')}
        if opt == 'sysinclude':
            return {'SYS%d' % idx: eq('12')}
        if opt == 'warning':
            vals = val.split('+')
            out = {'w3': eq([True, 'none'])}
            if 'disable' in vals:
                for k in ('w0', 'w1', 'w2'):
                    out[k] = eq([True, 'none'])
            else:
                if 'error' in vals:
                    out['w0'] = eq([False, 'error'])
                    if 'all' in vals:
                        out['w1'] = eq([False, 'error'])
                    if 'extra' in vals:
                        out['w2'] = eq([False, 'error'])
                else:
                    out['w0'] = eq([True, 'warning'])
                    if 'all' in vals:
                        out['w1'] = eq([True, 'warning'])
                    if 'extra' in vals:
                        out['w2'] = eq([True, 'warning'])
            return out
        if opt == 'debug':
            return {'obj_debug': eq(True)}
        if opt == 'optimize':
            vals = val.split('+')
            out = {}
            if 'size' in vals:
                out.update({'OPT': eq('1'), 'OPTSIZE': eq('1')})
            elif 'speed' in vals:
                out.update({'OPT': eq('1'), 'OPTSIZE': eq('0')})
            elif 'disable' in vals:
                out.update({'OPT': eq('0'), 'OPTSIZE': eq('0')})
            if 'linktime' in vals:
                out['obj_lto'] = eq(True)
            return out
        if opt == 'pic':
            return {'PIC': lambda x: x not in (None, '0'), 'PIE': eq('0')}
        if opt == 'pthread':
            return {'REENTRANT': eq('1')}
        if opt == 'sanitize':
            return {'ASAN': eq('1')}
        if opt == 'pch':
            return {'PCH': eq('13'), 'gch': eq(True)}
        return {}
    if lang == 'f95' and opt == 'lib' and val == 'm':
        return {}
    if opt == 'static':
        return {'interp': eq(False), 'needed': eq([])}
    if opt == 'entry_point':
        return {'entry_is': eq('vf_alt_entry')}
    if opt == 'lib':
        return {'MATH': eq('4')} if val == 'm' else {'EXT': eq('77')}
    if opt == 'lib_dir':
        return {'EXT': eq('77')}
    return {}


# --------------------------------------------------------------------------
# probe sources

def _probe_lines(tag, prefix=''):
    def two(key, cond):
        return ('#if %s\n  "VFP:%s:%s%s=1",\n#else\n  "VFP:%s:%s%s=0",\n#endif\n'
                % (cond, tag, prefix, key, tag, prefix, key))
    out = ''
    out += two('OPT', 'defined(__OPTIMIZE__)')
    out += two('OPTSIZE', 'defined(__OPTIMIZE_SIZE__)')
    out += ('#ifdef __PIC__\n  "VFP:%s:%sPIC=" VS(__PIC__),\n#else\n'
            '  "VFP:%s:%sPIC=0",\n#endif\n' % (tag, prefix, tag, prefix))
    out += ('#ifdef __PIE__\n  "VFP:%s:%sPIE=" VS(__PIE__),\n#else\n'
            '  "VFP:%s:%sPIE=0",\n#endif\n' % (tag, prefix, tag, prefix))
    return out


HEAD = '''#define VS_(x) #x
#define VS(x) VS_(x)
#if defined(__SANITIZE_ADDRESS__)
#define VF_ASAN 1
#elif defined(__has_feature)
#if __has_feature(address_sanitizer)
#define VF_ASAN 1
#endif
#endif
'''


def _probe_table(tag, f, prefix, pchmacro):
    """Initialiser lines of the probe string table of one TU."""
    m = _probe_lines(tag, prefix)
    two = ('#if %s\n  "VFP:{t}:{p}%s=1",\n#else\n  "VFP:{t}:{p}%s=0",\n#endif\n')
    m += (two % ('defined(_REENTRANT)', 'REENTRANT', 'REENTRANT')).format(
        t=tag, p=prefix)
    m += (two % ('defined(VF_ASAN)', 'ASAN', 'ASAN')).format(t=tag, p=prefix)
    m += (two % ('defined(__STRICT_ANSI__)', 'STRICT', 'STRICT')).format(
        t=tag, p=prefix)
    m += ('#ifdef __STDC_VERSION__\n  "VFP:%s:%sSTDC=" VS(__STDC_VERSION__),\n'
          '#else\n  "VFP:%s:%sSTDC=none",\n#endif\n' % (tag, prefix, tag, prefix))
    m += ('#ifdef __cplusplus\n  "VFP:%s:%sCPP=" VS(__cplusplus),\n'
          '#else\n  "VFP:%s:%sCPP=none",\n#endif\n' % (tag, prefix, tag, prefix))
    for x in sorted(i for i in f if isinstance(i, tuple)):
        if x[0] == 'define':
            name = def_name(x[1], x[2])
            shown = name if x[2] == 'docstr' else 'VS(%s)' % name
            m += ('#ifdef %s\n  "VFP:%s:%sDEF%d=" %s,\n#else\n'
                  '  "VFP:%s:%sDEF%d=<undefined>",\n#endif\n'
                  % (name, tag, prefix, x[1], shown, tag, prefix, x[1]))
        elif x[0] == 'inc':
            m += ('  "VFP:%s:%sINC%d=" VS(VF_INC%d_MARK),\n'
                  % (tag, prefix, x[1], x[1]))
        elif x[0] == 'sys':
            m += ('  "VFP:%s:%sSYS%d=" VS(VF_SYS%d_MARK),\n'
                  % (tag, prefix, x[1], x[1]))
    if 'finc' in f:       # headers reachable only through raw `-include`
        for i in (0, 1):
            m += ('  "VFP:%s:%sFINC%d=" VS(VF_INC%d_MARK),\n'
                  % (tag, prefix, i, i))
    if 'rawd' in f:
        m += ('#ifdef VFR\n  "VFP:%s:%sRAWD=" VS(VFR),\n#else\n'
              '  "VFP:%s:%sRAWD=<undefined>",\n#endif\n'
              % (tag, prefix, tag, prefix))
    if 'pch' in f:
        m += '  "VFP:%s:%sPCH=" VS(%s),\n' % (tag, prefix, pchmacro)
    return m


def render_sources(tag, lang, items):
    """-> {relpath: text} for one sub-case (main TU, optional aux TU, optional
    pch header, optional warning TUs).  The text is valid C89..C17 and
    C++98..C++20 and free of warnings under -Wall -Wextra."""
    if lang == 'f95':
        return render_fortran(tag, items)
    ext = LANGS[lang]['ext']
    f = features(items, lang)
    files = {}
    m = '/* C16 probe %s */\n' % tag
    if 'pch' not in f:
        m += '#include <stdio.h>\n'
    if 'math' in f:
        m += '#include <math.h>\n'
    for x in sorted(i for i in f if isinstance(i, tuple)):
        if x[0] == 'inc':
            m += '#include "vf_inc%d.h"\n' % x[1]
        elif x[0] == 'sys':
            m += '#include <vf_sys%d.h>\n' % x[1]
    m += HEAD
    m += '#ifdef __cplusplus\nextern "C" {\n#endif\n'
    if 'ext' in f:
        m += 'int vfext_value(void);\n'
    if 'aux' in f:
        m += 'int vf_helper(int);\nconst char *const *vf_aux_probe(void);\n'
    m += 'void vf_alt_entry(void);\n'
    m += '#ifdef __cplusplus\n}\n#endif\n'
    m += 'static const char *const vf_probe[] = {\n'
    m += _probe_table(tag, f, '', 'VF_PCH_MARK')
    m += '  0\n};\n'
    m += 'void vf_alt_entry(void) { for (;;) { } }\n'
    m += 'int main(int argc, char **argv) {\n  const char *const *p;\n'
    m += '  (void)argc; (void)argv;\n'
    m += '  for (p = vf_probe; *p; p++) puts(*p);\n'
    if 'aux' in f:
        m += '  for (p = vf_aux_probe(); *p; p++) puts(*p);\n'
        m += '  printf("VFP:%s:HELP=%%d\\n", vf_helper(argc));\n' % tag
    if 'ext' in f:
        m += '  printf("VFP:%s:EXT=%%d\\n", vfext_value());\n' % tag
    if 'math' in f:
        m += ('  { volatile double d = argc + 15; '
              'printf("VFP:%s:MATH=%%d\\n", (int)sqrt(d)); }\n' % tag)
    m += '  return 0;\n}\n'
    files[tag + '_m' + ext] = m
    if 'aux' in f:
        a = '/* C16 aux %s */\n' % tag
        if 'shlib' in f:
            # the library's own TU is probed like the main one: whatever the
            # sub-case asks for must also hold on the shared_library target
            # (together with the -fPIC its link step pushes onto its objects)
            for x in sorted(i for i in f if isinstance(i, tuple)):
                if x[0] == 'inc':
                    a += '#include "vf_inc%d.h"\n' % x[1]
                elif x[0] == 'sys':
                    a += '#include <vf_sys%d.h>\n' % x[1]
        a += HEAD
        a += '#ifdef __cplusplus\nextern "C" {\n#endif\n'
        a += 'int vf_helper(int);\nconst char *const *vf_aux_probe(void);\n'
        a += 'extern int vf_gv;\n'
        a += 'int vf_gv = 3;\n'
        a += 'int vf_helper(int x) { return x * 3 + vf_gv; }\n'
        a += 'static const char *const vf_aux[] = {\n'
        if 'shlib' in f:
            a += _probe_table(tag, f, 'AUX_', 'VF_PCHA_MARK') + '  0\n};\n'
        else:
            a += _probe_lines(tag, 'AUX_') + '  0\n};\n'
        a += 'const char *const *vf_aux_probe(void) { return vf_aux; }\n'
        a += '#ifdef __cplusplus\n}\n#endif\n'
        files[tag + '_a' + ext] = a
    if 'pch' in f:
        files[tag + '_pre.h'] = ('#include <stdio.h>\n'
                                 '#define VF_PCH_MARK 13\n')
        if 'shlib' in f:
            files[tag + '_prea.h'] = ('#include <stddef.h>\n'
                                      '#define VF_PCHA_MARK 14\n')
    if 'warn' in f:
        main = 'int main(void) { return 0; }\n'
        files[tag + '_w0' + ext] = 'int vf_w0(void);\nint vf_w0(void) { return 1 / 0; }\n' + main
        files[tag + '_w1' + ext] = ('int vf_w1(void);\nint vf_w1(void) { int vf_unused; '
                                    'return 0; }\n' + main)
        files[tag + '_w2' + ext] = ('struct vf_s { int a; int b; };\nextern struct vf_s vf_v;\n'
                                    'struct vf_s vf_v = { 1 };\n' + main)
        files[tag + '_w3' + ext] = 'int vf_w3(void);\nint vf_w3(void) { return 0; }\n' + main
    return files


def extra_tus(f):
    """Side translation units compiled with the sub-case's compile options whose
    only observation is (object produced?, worst diagnostic)."""
    out = []
    if 'warn' in f:
        out += [('w%d' % k, '_w%d' % k) for k in range(4)]
    if 'fstd' in f:
        out.append(('fstd', '_fs'))
    return out


def render_fortran(tag, items):
    """gfortran probe program; needs -cpp (a carrier) for the macro probes."""
    f = features(items, 'f95')
    files = {}
    m = '! C16 probe %s\n' % tag
    for x in sorted(i for i in f if isinstance(i, tuple)):
        if x[0] == 'inc':
            m += '#include "vf_inc%d.h"\n' % x[1]
    m += 'program vf_main\n'
    if 'ext' in f or 'aux' in f:
        m += '  use iso_c_binding\n'
    m += '  implicit none\n'
    if 'ext' in f or 'aux' in f:
        m += '  interface\n'
        if 'ext' in f:
            m += ("    function vfext_value() bind(C, name='vfext_value') result(r)\n"
                  '      import :: c_int\n      integer(c_int) :: r\n'
                  '    end function\n')
        if 'aux' in f:
            m += ("    function vf_helper(x) bind(C, name='vf_helper') result(r)\n"
                  '      import :: c_int\n      integer(c_int), value :: x\n'
                  '      integer(c_int) :: r\n    end function\n')
        m += '  end interface\n'

    def two(key, macro):
        return ("#ifdef %s\n  print '(a)', 'VFP:%s:%s=1'\n#else\n"
                "  print '(a)', 'VFP:%s:%s=0'\n#endif\n" % (macro, tag, key, tag, key))
    m += two('OPT', '__OPTIMIZE__') + two('OPTSIZE', '__OPTIMIZE_SIZE__')
    m += two('PIC', '__PIC__') + two('PIE', '__PIE__')
    m += two('REENTRANT', '_REENTRANT') + two('ASAN', '__SANITIZE_ADDRESS__')
    for x in sorted(i for i in f if isinstance(i, tuple)):
        if x[0] == 'define':
            m += ("#ifdef VFD%d\n  print '(a,i0)', 'VFP:%s:DEF%d=', VFD%d\n#else\n"
                  "  print '(a)', 'VFP:%s:DEF%d=<undefined>'\n#endif\n"
                  % (x[1], tag, x[1], x[1], tag, x[1]))
        elif x[0] == 'inc':
            m += ("  print '(a,i0)', 'VFP:%s:INC%d=', VF_INC%d_MARK\n"
                  % (tag, x[1], x[1]))
    if 'aux' in f:
        m += ("  print '(a,i0)', 'VFP:%s:HELP=', "
              "vf_helper(command_argument_count() + 1)\n" % tag)
    if 'ext' in f:
        m += "  print '(a,i0)', 'VFP:%s:EXT=', vfext_value()\n" % tag
    m += 'end program\n'
    if 'alt_entry' in f:
        m += ("subroutine vf_alt_entry() bind(C, name='vf_alt_entry')\n"
              'end subroutine\n')
    files[tag + '_m.f90'] = m
    if 'aux' in f:
        files[tag + '_a.f90'] = (
            "function vf_helper(x) bind(C, name='vf_helper') result(r)\n"
            '  use iso_c_binding\n  implicit none\n'
            '  integer(c_int), value :: x\n  integer(c_int) :: r\n'
            '  r = x * 3 + 3\nend function\n')
    if 'warn' in f:
        files[tag + '_w0.f90'] = ('subroutine vf_w0(i)\n  integer :: i\n'
                                  '  if (i) 10, 20, 30\n10 continue\n20 continue\n'
                                  '30 continue\nend subroutine\n')
        files[tag + '_w1.f90'] = ('subroutine vf_w1()\n  integer :: vf_unused\n'
                                  'end subroutine\n')
        files[tag + '_w2.f90'] = ('subroutine vf_w2(a, b, r)\n  real :: a, b\n'
                                  '  logical :: r\n  r = (a == b)\nend subroutine\n')
        files[tag + '_w3.f90'] = 'subroutine vf_w3()\nend subroutine\n'
    if 'fstd' in f:
        files[tag + '_fs.f90'] = 'subroutine vf_fs()\n  flush(6)\nend subroutine\n'
    return files


def static_tree():
    """Files shared by every sub-case of a project."""
    files = {}
    for i in (0, 1, 2):
        files['inc%d/vf_inc%d.h' % (i, i)] = '#define VF_INC%d_MARK 11\n' % i
        files['sys%d/vf_sys%d.h' % (i, i)] = (
            '#define VF_SYS%d_MARK 12\n'
            'static int vf_sys%d_fn(int a) { int vf_sys_unused; return a; }\n'
            % (i, i))
    files['extsrc/vfext.c'] = 'int vfext_value(void);\nint vfext_value(void) { return 77; }\n'
    return files


def build_ext(src, cc, env):
    """Pre-built third-party static library (by hand)."""
    os.makedirs(os.path.join(src, 'ext'), exist_ok=True)
    o = os.path.join(src, 'extsrc', 'vfext.o')
    core.run([cc, '-fPIC', '-c', os.path.join(src, 'extsrc', 'vfext.c'),
              '-o', o], env=env, timeout=60, check=True)
    core.run(['ar', 'cr', os.path.join(src, 'ext', 'libvfext.a'), o],
             env=env, timeout=60, check=True)
    os.remove(o)


# --------------------------------------------------------------------------
# flag assembly for a sub-case

def _uniq(seq):
    out = []
    for x in seq:
        if x not in out:
            out.append(x)
    return out


def assemble(items, src, order=None, drop=None, lang=None):
    """Reference flags of a whole sub-case.
    order: permutation of item indices (for same-option pairs);
    drop: index of an item to leave out (discrimination baseline; its carriers
    and source features stay).
    -> {'c','l','libs','proj_l'}; proj_l = link flags that also reach the link
    of a library built inside the project (project-level placements)."""
    idxs = list(order if order is not None else range(len(items)))
    car = {'c': [], 'l': [], 'libs': []}
    for i in range(len(items)):
        k = carriers(items[i], i, src, lang)
        for key in car:
            car[key] += k[key]
    proj = {'c': [], 'l': [], 'libs': []}
    tgt = {'c': [], 'l': [], 'libs': []}
    for i in idxs:
        if i == drop:
            continue
        fl = ref_flags(items[i], i, src)
        dest = proj if items[i]['place'] in PROJECT_PLACES else tgt
        for key in dest:
            dest[key] += fl[key]
    return {'c': proj['c'] + _uniq(car['c']) + tgt['c'],
            'l': proj['l'] + _uniq(car['l']) + tgt['l'],
            'libs': proj['libs'] + tgt['libs'] + _uniq(car['libs']),
            'proj_l': list(proj['l']), 'proj_libs': list(proj['libs']),
            'no_pch': drop is not None and items[drop]['opt'] == 'pch'}


# --------------------------------------------------------------------------
# the hand-written build

def _diag(text):
    if re.search(r'(?i)\berror:', text):
        return 'error'
    if re.search(r'(?i)\bwarning:', text):
        return 'warning'
    return 'none'


def diag_for(output, filename):
    """Worst diagnostic attributed to `filename` in compiler output: either
    the diagnostic line itself names the file (gcc/clang) or it follows a
    location header naming it (gfortran; needs serial output)."""
    cur = False
    worst = 'none'
    rank = {'none': 0, 'warning': 1, 'error': 2}
    for ln in output.splitlines():
        st = ln.strip()
        if re.match(r'^\S+:\d+:\d+:$', st):
            cur = filename in st
            continue
        if filename in ln:
            d = _diag(ln)
        elif cur and re.match(r'^(Warning|Error|Fatal Error)\b', ln):
            d = _diag(ln)
        else:
            continue
        if rank[d] > rank[worst]:
            worst = d
    return worst


def reference_build(refdir, src, tag, lang, compiler, items, flags, env):
    """Literal compiler commands.  -> (layout dict for observe(), log list)"""
    cc = COMPILERS[compiler][lang]
    ext = LANGS[lang]['ext']
    f = features(items, lang)
    os.makedirs(refdir, exist_ok=True)
    log = []

    def run(argv):
        rc, out = core.run(argv, cwd=refdir, env=env, timeout=120)
        log.append({'argv': argv, 'rc': rc, 'out': out[-1500:]})
        return rc, out

    main_src = os.path.join(src, tag + '_m' + ext)
    main_obj = os.path.join(refdir, tag + '_m.o')
    cflags_main = list(flags['c'])
    gch = gch_a = None
    if flags.get('no_pch'):
        f = f - {'pch', 'pch2'}
    if 'pch' in f:
        gch = os.path.join(refdir, tag + '_pre.h.gch')
        run([cc, '-x', LANGS[lang]['pchx']] + flags['c'] +
            [os.path.join(src, tag + '_pre.h'), '-o', gch])
        # a precompiled header must be the first thing included
        cflags_main = ['-include', os.path.join(refdir, tag + '_pre.h')] + cflags_main
    run([cc] + cflags_main + ['-c', main_src, '-o', main_obj])
    objs = [main_obj]
    post = []
    lib = None
    if 'aux' in f:
        aux_obj = os.path.join(refdir, tag + '_a.o')
        aux_c = list(flags['c'])
        if 'pch2' in f:
            aux_c = ['-include', os.path.join(refdir, tag + '_pre.h')] + aux_c
        if 'pch' in f and 'shlib' in f:
            gch_a = os.path.join(refdir, tag + '_prea.h.gch')
            run([cc, '-x', LANGS[lang]['pchx']] + flags['c'] +
                [os.path.join(src, tag + '_prea.h'), '-o', gch_a])
            aux_c = ['-include', os.path.join(refdir, tag + '_prea.h')] + aux_c
        run([cc] + aux_c + ['-c', os.path.join(src, tag + '_a' + ext),
                            '-o', aux_obj])
        if 'shlib' in f:
            lib = os.path.join(refdir, 'lib%s_s.so' % tag)
            run([cc, '-shared'] + flags['proj_l'] + [aux_obj] +
                flags['proj_libs'] + ['-o', lib])
            post = ['-L' + refdir, '-l%s_s' % tag, '-Wl,-rpath,' + refdir]
        elif 'fwd' in f:
            lib = os.path.join(refdir, 'lib%s_l.a' % tag)
            run(['ar', 'cr', lib, aux_obj])
            post = [lib]
        else:
            objs.append(aux_obj)
    exe = os.path.join(refdir, tag)
    run([cc] + flags['l'] + objs + post + flags['libs'] + ['-o', exe])
    wobs = {}
    for key, suffix in extra_tus(f):
        o = os.path.join(refdir, '%s%s.o' % (tag, suffix))
        rc, out = run([cc] + flags['c'] +
                      ['-c', os.path.join(src, '%s%s%s' % (tag, suffix, ext)),
                       '-o', o])
        wobs[key] = [os.path.exists(o), _diag(out)]
    return {'exe': exe, 'main_obj': main_obj, 'gch': gch, 'gch_a': gch_a, 'lib': lib,
            'w': wobs}, log


# --------------------------------------------------------------------------
# observation of artefacts (shared by both sides)

def _readelf(path, env):
    rc, out = core.run(['readelf', '-W', '-h', '-l', '-S', '-d', '-s', path],
                       env=env, timeout=60)
    return rc, out


def parse_vfp(data, tag):
    out = {}
    if isinstance(data, str):
        data = data.encode('utf-8', 'surrogateescape')
    for m in re.finditer(rb'VFP:' + tag.encode() + rb':([A-Za-z_0-9]+)=([^\0\n]*)',
                         data):
        out[m.group(1).decode()] = m.group(2).decode('utf-8', 'replace')
    return out


def observe(layout, tag, runnable, env):
    """-> dict of aspects."""
    ob = {'built': os.path.isfile(layout['exe'])}
    vfp = {}
    if ob['built']:
        with open(layout['exe'], 'rb') as fh:
            blob = fh.read()
        scanned = parse_vfp(blob, tag)
        if layout.get('lib') and os.path.isfile(layout['lib']):
            with open(layout['lib'], 'rb') as fh:
                scanned.update(parse_vfp(fh.read(), tag))
        if runnable:
            renv = dict(env)
            renv['ASAN_OPTIONS'] = 'detect_leaks=0'
            rc, out = core.run([layout['exe']], env=renv, timeout=60,
                               cwd=os.path.dirname(layout['exe']))
            ob['run_rc'] = rc
            vfp = parse_vfp(out, tag)
            if rc != 0:
                ob['run_out'] = out[-400:]
        else:
            ob['run_rc'] = None
            vfp = scanned
        rc, txt = _readelf(layout['exe'], env)
        secs = re.findall(r'^\s*\[\s*\d+\]\s+(\S+)', txt, re.M)
        ob['exe_debug'] = any('debug_info' in s for s in secs)
        ob['interp'] = bool(re.search(r'^\s*INTERP\s', txt, re.M))
        ob['needed'] = sorted(set(
            re.sub(r'lib(t\d+[a-z]*)_s\.so', 'libTAG_s.so', n)
            for n in re.findall(r'\(NEEDED\)\s+Shared library: \[([^\]]+)\]',
                                txt)))
        m = re.search(r'Entry point address:\s+(0x[0-9a-fA-F]+)', txt)
        entry = int(m.group(1), 16) if m else None
        names = set()
        helper = False
        for sm in re.finditer(r'^\s*\d+:\s+([0-9a-fA-F]+)\s+\d+\s+(\S+)\s+\S+'
                              r'\s+\S+\s+\S+\s+(\S+)', txt, re.M):
            val, typ, name = int(sm.group(1), 16), sm.group(2), sm.group(3)
            name = name.split('@')[0]
            if typ == 'FUNC' and val == entry:
                names.add(name)
            if name == 'vf_helper' and typ == 'FUNC':
                helper = True
        for pref in ('vf_alt_entry', '_start', 'main'):
            if pref in names:
                ob['entry_is'] = pref
                break
        else:
            ob['entry_is'] = 'other'
        ob['helper_sym'] = helper
    for k, v in vfp.items():
        ob[k] = v
    mo = layout.get('main_obj')
    if mo and os.path.isfile(mo):
        with open(mo, 'rb') as fh:
            head = fh.read(4)
        if head == b'BC\xc0\xde':
            ob['obj_lto'], ob['obj_debug'] = True, 'bitcode'
        else:
            rc, txt = core.run(['readelf', '-W', '-S', mo], env=env, timeout=60)
            secs = re.findall(r'^\s*\[\s*\d+\]\s+(\S+)', txt, re.M)
            ob['obj_debug'] = any('debug_info' in s for s in secs)
            ob['obj_lto'] = any(s.startswith('.gnu.lto_') for s in secs)
    else:
        ob['obj_debug'] = ob['obj_lto'] = None
    if layout.get('gch') is not None:
        ob['gch'] = os.path.isfile(layout['gch'])
    if layout.get('gch_a') is not None:
        ob['gch_a'] = os.path.isfile(layout['gch_a'])
    for k, v in (layout.get('w') or {}).items():
        ob[k] = v
    return ob


def quote_join(flags):
    return ' '.join(shlex.quote(f) for f in flags)
