"""Reference implementation of the Microsoft C runtime command-line parser.

Written from the documented rules ("Parsing C command-line arguments", MSDN)
and the published `parse_cmdline` routine of the CRT start-up code
(stdargv.c); it shares no code with bfg9000.

Rules for every argument after the program name:

  * arguments are delimited by unquoted spaces and tabs;
  * 2n backslashes followed by `"`  -> n backslashes, the quote toggles the
    "in quotes" state and is not copied;
  * 2n+1 backslashes followed by `"` -> n backslashes and a literal `"`;
  * backslashes not followed by `"` are literal;
  * `""` while in quotes -> one literal `"`; afterwards
      - 'post2008' (msvcr90 and later, UCRT): still in quotes,
      - 'pre2008'  (msvcrt.dll, VC6..VC8):    quotes are left.

The program name (argv[0]) is parsed with the simpler rule: a `"` only toggles
quoting (no backslash escapes) and the name ends at the first unquoted blank.
In the 'pre2008' variant a leading `"` makes the name run to the next `"`,
otherwise it runs to the first blank (as in the old start-up code).

Further helpers model the layers a command line written into an MSBuild
`Exec Command=` attribute passes before it reaches the C runtime:

  * msbuild_expand()   `$(Name)` property references, then `%XX` escapes
                       (MSBuild EscapingUtilities.UnescapeAll: a `%` followed by
                       two hex digits is replaced; any other `%` is literal)
  * batch_percent()    cmd.exe batch-file percent phase restricted to the case
                       with no defined variables and no batch arguments:
                       `%%` -> `%`; a lone `%` is dropped
  * cmd_split_andand() split a cmd.exe line at `&&` operators outside cmd's own
                       notion of quotes (every `"` toggles, `^` escapes the
                       next character outside quotes)
  * ninja_unescape()   `$$` -> `$`, `${var}`/`$var` -> value, `$ ` -> ` `, `$:` -> `:`
"""

VARIANTS = ('post2008', 'pre2008')
_BLANK = ' \t'


def parse(cmdline, variant='post2008'):
    """-> argv list, argv[0] is the program name."""
    if variant not in VARIANTS and variant != 'no-doubled-quote':
        raise ValueError(variant)
    s = cmdline
    n = len(s)
    p = 0
    argv = []

    # ---- program name
    name = []
    if variant == 'pre2008':
        if p < n and s[p] == '"':
            p += 1
            while p < n and s[p] != '"':
                name.append(s[p])
                p += 1
            if p < n:
                p += 1          # closing quote
        else:
            while p < n and s[p] > ' ':
                name.append(s[p])
                p += 1
    else:
        inquote = False
        while p < n:
            c = s[p]
            if c == '"':
                inquote = not inquote
                p += 1
                continue
            if not inquote and c in _BLANK:
                break
            name.append(c)
            p += 1
    argv.append(''.join(name))

    # ---- arguments
    inquote = False
    while True:
        while p < n and s[p] in _BLANK:
            p += 1
        if p >= n:
            break
        arg = []
        while True:
            copychar = True
            numslash = 0
            while p < n and s[p] == '\\':
                p += 1
                numslash += 1
            if p < n and s[p] == '"':
                if numslash % 2 == 0:
                    if variant == 'no-doubled-quote':
                        # not a real runtime: every unescaped quote toggles.
                        # Only used to *classify* a mismatch (did the `""`
                        # rule cause it?), never as an oracle.
                        copychar = False
                        inquote = not inquote
                    elif variant == 'post2008':
                        if inquote and p + 1 < n and s[p + 1] == '"':
                            p += 1              # copy the second quote
                        else:
                            copychar = False
                            inquote = not inquote
                    else:
                        if inquote:
                            if p + 1 < n and s[p + 1] == '"':
                                p += 1          # copy the second quote
                            else:
                                copychar = False
                        else:
                            copychar = False
                        inquote = not inquote
                numslash //= 2
            arg.append('\\' * numslash)
            if p >= n or (not inquote and s[p] in _BLANK):
                break
            if copychar:
                arg.append(s[p])
            p += 1
        argv.append(''.join(arg))
    return argv


def parse_args(tail, variant='post2008'):
    """Parse `tail` as the arguments of a program called `prog`."""
    return parse('prog ' + tail, variant)[1:]


# --------------------------------------------------------------------------
# layers around the C runtime

_HEX = '0123456789abcdefABCDEF'


def msbuild_unescape(s):
    out = []
    i = 0
    n = len(s)
    while i < n:
        c = s[i]
        if c == '%' and i + 2 < n and s[i + 1] in _HEX and s[i + 2] in _HEX:
            out.append(chr(int(s[i + 1:i + 3], 16)))
            i += 3
        else:
            out.append(c)
            i += 1
    return ''.join(out)


def msbuild_expand(s, props):
    """Expand $(Name) with `props` (unknown names -> ''), then unescape %XX.
    Property functions, item lists and metadata are not modelled: the caller
    must not feed text containing `@(`, `%(` or `$(` other than plain names."""
    out = []
    i = 0
    n = len(s)
    while i < n:
        if s.startswith('$(', i):
            j = s.find(')', i + 2)
            name = s[i + 2:j] if j != -1 else None
            if name is not None and name and all(
                    ch.isalnum() or ch == '_' for ch in name):
                out.append(props.get(name, ''))
                i = j + 1
                continue
        out.append(s[i])
        i += 1
    return msbuild_unescape(''.join(out))


def batch_percent(s):
    """The percent phase of cmd.exe for a batch-file line, assuming that no
    environment variable name occurs between two percent signs of the line and
    that the batch file has no arguments.  -> (text, clean) where clean is
    False if a percent sign was dropped or a %N / %* / %var% form occurred
    (the model does not claim to know the result then)."""
    out = []
    i = 0
    n = len(s)
    clean = True
    while i < n:
        c = s[i]
        if c != '%':
            out.append(c)
            i += 1
        elif i + 1 < n and s[i + 1] == '%':
            out.append('%')
            i += 2
        else:
            clean = False       # lone percent: dropped (or starts %var%)
            i += 1
    return ''.join(out), clean


def cmd_split_andand(s):
    """Split at `&&` outside cmd.exe quotes.  -> list of command texts with the
    blanks around the operator stripped."""
    parts = []
    cur = []
    inq = False
    i = 0
    n = len(s)
    while i < n:
        c = s[i]
        if c == '"':
            inq = not inq
            cur.append(c)
            i += 1
        elif not inq and c == '^' and i + 1 < n:
            cur.append(s[i:i + 2])
            i += 2
        elif not inq and s.startswith('&&', i):
            parts.append(''.join(cur).strip(_BLANK))
            cur = []
            i += 2
        else:
            cur.append(c)
            i += 1
    parts.append(''.join(cur).strip(_BLANK))
    return parts


def ninja_unescape(s, variables):
    out = []
    i = 0
    n = len(s)
    while i < n:
        c = s[i]
        if c != '$':
            out.append(c)
            i += 1
            continue
        nxt = s[i + 1] if i + 1 < n else ''
        if nxt in ('$', ' ', ':'):
            out.append(nxt)
            i += 2
        elif nxt == '{':
            j = s.index('}', i)
            out.append(variables[s[i + 2:j]])
            i = j + 1
        elif nxt and (nxt.isalnum() or nxt in '_-'):
            j = i + 1
            while j < n and (s[j].isalnum() or s[j] in '_-'):
                j += 1
            out.append(variables[s[i + 1:j]])
            i = j
        else:
            raise ValueError('bad $-escape at %d in %r' % (i, s))
    return ''.join(out)


# --------------------------------------------------------------------------

def self_test():
    """Examples from the MSDN table, from the start-up code comments and
    hand-derived ones for the two `""` variants."""
    both = [
        ('"abc" d e', ['abc', 'd', 'e']),
        (r'a\\b d"e f"g h', [r'a\\b', 'de fg', 'h']),
        (r'a\\\"b c d', [r'a\"b', 'c', 'd']),
        (r'a\\\\"b c" d e', [r'a\\b c', 'd', 'e']),
        ('', []),
        ('   \t ', []),
        ('""', ['']),
        ('a "" b', ['a', '', 'b']),
        (r'"a b\\"', ['a b\\']),
        (r'"a b\\\""', ['a b\\"']),
        (r'\\\\', ['\\\\\\\\']),
        (r'\"', ['"']),
        (r'"\""', ['"']),
        ('a\tb', ['a', 'b']),
        ('"a\tb"', ['a\tb']),
        (r'x\ y', ['x\\', 'y']),
        (r'"x\\" y', ['x\\', 'y']),
        ('"unterminated arg', ['unterminated arg']),
        ("it's", ["it's"]),
        ('^a ^"b c^"', ['^a', '^b c^']),
    ]
    for tail, want in both:
        for v in VARIANTS:
            got = parse_args(tail, v)
            assert got == want, (v, tail, got, want)
    differ = [
        # (tail, post2008, pre2008)
        ('a"b"" c d', ['ab" c d'], ['ab"', 'c', 'd']),
        ('"a b""c d"', ['a b"c d'], ['a b"c', 'd']),
        ('"""', ['"'], ['"']),
        ('""""', ['"'], ['"']),
        ('"a""b" c', ['a"b', 'c'], ['a"b c']),
        ('"She said ""hi"" twice"', ['She said "hi" twice'],
         ['She said "hi', 'twice']),
    ]
    for tail, post, pre in differ:
        assert parse_args(tail, 'post2008') == post, (tail, parse_args(tail))
        assert parse_args(tail, 'pre2008') == pre, \
            (tail, parse_args(tail, 'pre2008'))
    assert parse_args('"a b""c d"', 'no-doubled-quote') == ['a bc d']
    # program name
    assert parse('"c:\\p f\\x.exe" a') == ['c:\\p f\\x.exe', 'a']
    assert parse('"c:\\p f\\x.exe" a', 'pre2008') == ['c:\\p f\\x.exe', 'a']
    assert parse('pr"o g"x a') == ['pro gx', 'a']
    assert parse('prog') == ['prog'] and parse('') == ['']
    # layers
    assert msbuild_unescape('a%20b%zz%4') == 'a b%zz%4'
    assert msbuild_unescape('%%41') == '%A'
    assert msbuild_unescape('100%%') == '100%%'
    assert msbuild_expand('"$(OutDir)x" $(Nope)$(A_b)', {'OutDir': 'C:\\o\\',
                                                         'A_b': '1'}) == \
        '"C:\\o\\x" 1'
    assert msbuild_expand('$(a b) $()', {}) == '$(a b) $()'
    assert batch_percent('100%% x') == ('100% x', True)
    assert batch_percent('a%b') == ('ab', False)
    assert cmd_split_andand('a b && c "d && e" && f') == \
        ['a b', 'c "d && e"', 'f']
    assert cmd_split_andand('a "x\\"y" && b') == ['a "x\\"y" && b']
    assert cmd_split_andand('a "x\\" && b') == ['a "x\\"', 'b']
    assert cmd_split_andand('a ^&& b') == ['a ^&& b']
    assert ninja_unescape('a$$b ${v}$ c$:', {'v': 'X'}) == 'a$b X c:'
    return True


if __name__ == '__main__':
    self_test()
    print('msvcrt_argv self-test ok')
